import CogentModel.Json
import CogentModel.Model.Csv
import CogentModel.Model.CastStr
import CogentModel.Model.TableOps
import CogentModel.Spec.TableRows
import CogentModel.Gen.C20Args
import CogentModel.Gen.C20Load
open CogentModel CogentModel.TableOps

/-! JSON protocol of the C20 driver.
cells: null | true/false | integer | {"f":"num/den"} | "string".
tables: {"header":[..], "cols":[[cell..]..], "title": ".."} ; replies carry "header" and "rows". -/

def cellOfJ : J → Except String Cell
  | .null => pure .missing
  | .bool b => pure (.bool b)
  | .num n => pure (.int n)
  | .str s => pure (.str s)
  | j@(.obj _) => do pure (.float (← (← j.get "f").toRat))
  | _ => throw "bad cell"

def cellToJ : Cell → J
  | .missing => .null
  | .bool b => .bool b
  | .int n => .num n
  | .float q => .obj [("f", J.ofRat q)]
  | .str s => .str s

def keyToJ : Key → J
  | .none => .null
  | .num q => .obj [("f", J.ofRat q)]
  | .str s => .str s

def tableOfJ (j : J) : Except String Table := do
  let header ← (← j.get "header").toListOf J.toStr
  let cols ← (← j.get "cols").toListOf (J.toListOf cellOfJ)
  let title := match j.get? "title" with
    | some (.str s) => s
    | _ => ""
  let index := match j.get? "index" with
    | some (.str s) => some s
    | _ => none
  -- `make_table(..., index_name=…)`: the index column is moved to the front
  pure (Table.norm { header := header, cols := cols, title := title, index := index })

def optIntJ : J → Except String (Option Int)
  | .null => pure none
  | j => do pure (some (← j.toInt))

def rowSelOfJ (j : J) : Except String RowSel := do
  let l ← j.toList
  let tag ← (l.headD .null).toStr
  if tag = "all" then pure .all
  else if tag = "int" then pure (.int (← (l.getD 1 .null).toInt))
  else if tag = "slice" then
    let c ← optIntJ (l.getD 3 .null)
    pure (.slice (← optIntJ (l.getD 1 .null)) (← optIntJ (l.getD 2 .null)) (c.getD 1))
  else if tag = "ints" then pure (.ints (← (l.getD 1 .null).toListOf J.toInt))
  else if tag = "mask" then pure (.mask (← (l.getD 1 .null).toListOf J.toBool))
  else throw "bad row selector"

def colSelOfJ (j : J) : Except String ColSel := do
  let l ← j.toList
  let tag ← (l.headD .null).toStr
  if tag = "all" then pure .all
  else if tag = "names" then pure (.names (← (l.getD 1 .null).toListOf J.toStr))
  else if tag = "int" then pure (.int (← (l.getD 1 .null).toInt))
  else if tag = "ints" then pure (.ints (← (l.getD 1 .null).toListOf J.toInt))
  else if tag = "slice" then
    let c ← optIntJ (l.getD 3 .null)
    pure (.slice (← optIntJ (l.getD 1 .null)) (← optIntJ (l.getD 2 .null)) (c.getD 1))
  else if tag = "bools" then pure (.bools (← (l.getD 1 .null).toListOf J.toBool))
  else throw "bad column selector"

/-- column predicates for `filtered_by_column` -/
def cpredOfJ (j : J) : Except String (List Cell → Bool) := do
  let tag ← ((← j.toList).headD .null).toStr
  if tag = "allnum" then pure fun c => c.all fun x => match x with | .int _ => true | .float _ => true | _ => false
  else if tag = "nomissing" then pure fun c => c.all (· ≠ .missing)
  else if tag = "anystr" then pure fun c => c.any fun x => match x with | .str _ => true | _ => false
  else if tag = "true" then pure fun _ => true
  else throw "bad column predicate"

def tableToJ (t : Table) : J :=
  .obj [("header", .arr (t.header.map .str)),
        ("rows", .arr (t.rows.map fun r => .arr (r.map cellToJ))),
        ("ncols", .num t.cols.length),
        ("index", match t.index with | some k => .str k | none => .null)]


def exJ {α} (f : α → J) : Except String α → J
  | .ok a => f a
  | .error e => .obj [("err", .str e)]

/-- a result table is looked at through `to_list()` / `.header`, which validates a handed-on index_name -/
def resJ (r : Except String Table) : J := exJ tableToJ (r.bind Table.observe)

def strsOfJ (j : J) : Except String (List String) := j.toListOf J.toStr

def optStrsOfJ : J → Except String (Option (List String))
  | .null => pure none
  | j => do pure (some (← strsOfJ j))

def isNum : Cell → Option Rat
  | .int n => some n
  | .float q => some q
  | _ => none

/-- predicate language for `filtered` callbacks (over the row restricted to the chosen columns) -/
partial def predOfJ (j : J) : Except String (List Cell → Bool) := do
  match ← j.toList with
  | [.str "true"] => pure fun _ => true
  | [.str "numgt", i, k] => do
    let i ← i.toNat; let k ← k.toRat
    pure fun r => match isNum (r.getD i .missing) with | some q => decide (k < q) | none => false
  | [.str "eq", i, c] => do
    let i ← i.toNat; let c ← cellOfJ c
    pure fun r => (r.getD i .missing).key = c.key
  | [.str "ismissing", i] => do
    let i ← i.toNat
    pure fun r => r.getD i (.int 0) = .missing
  | [.str "strlen_gt", i, n] => do
    let i ← i.toNat; let n ← n.toNat
    pure fun r => match r.getD i .missing with | .str s => decide (n < s.length) | _ => false
  | [.str "and", p, q] => do let p ← predOfJ p; let q ← predOfJ q; pure fun r => p r && q r
  | [.str "or", p, q] => do let p ← predOfJ p; let q ← predOfJ q; pure fun r => p r || q r
  | [.str "not", p] => do let p ← predOfJ p; pure fun r => !p r
  | _ => throw "bad predicate"

/-- the same predicates as python SOURCE evaluated on the raw cells (string callbacks): `x > q` and `len(x)`
raise TypeError on cells of the wrong type, `and` / `or` short-circuit -/
partial def predSrcOfJ (j : J) : Except String (List Cell → Except String Bool) := do
  match ← j.toList with
  | [.str "true"] => pure fun _ => pure true
  | [.str "numgt", i, k] => do
    let i ← i.toNat; let k ← k.toRat
    pure fun r => match r.getD i .missing with
      | .int n => pure (decide (k < (n : Rat)))
      | .float q => pure (decide (k < q))
      | .bool b => pure (decide (k < (if b then 1 else 0)))
      | _ => throw "TypeError"
  | [.str "eq", i, c] => do
    let i ← i.toNat; let c ← cellOfJ c
    pure fun r => pure ((r.getD i .missing).key = c.key)
  | [.str "ismissing", i] => do
    let i ← i.toNat
    pure fun r => pure (r.getD i (.int 0) = .missing)
  | [.str "strlen_gt", i, n] => do
    let i ← i.toNat; let n ← n.toNat
    pure fun r => match r.getD i .missing with | .str s => pure (decide (n < s.length)) | _ => throw "TypeError"
  | [.str "and", p, q] => do
    let p ← predSrcOfJ p; let q ← predSrcOfJ q
    pure fun r => do if ← p r then q r else pure false
  | [.str "or", p, q] => do
    let p ← predSrcOfJ p; let q ← predSrcOfJ q
    pure fun r => do if ← p r then pure true else q r
  | [.str "not", p] => do let p ← predSrcOfJ p; pure fun r => do pure (!(← p r))
  | _ => throw "bad predicate"

/-- a callback for `filtered` / `count` / `get_row_indices`: a (total) python callable, or python source; the
source is first run over all rows of `self[:, columns]` (any exception aborts the call) -/
def callbackOfJ (t : Table) (j : J) : Except String (Except String (List Cell → Bool)) := do
  let total ← predOfJ (← j.get "pred")
  let isSrc := match j.get? "cb" with | some (.str "string") => true | _ => false
  if !isSrc then return pure total
  let src ← predSrcOfJ (← j.get "pred")
  let names ← strsOfJ (← j.get "columns")
  match t.idxsOf (t.subNames names) with
  | .error _ => return pure total          -- the KeyError is raised by the operation itself
  | .ok sel =>
    match (rowsOf dfl (selectCols sel t.cols)).mapM src with
    | .error e => return throw e
    | .ok _ => return pure fun r => match src r with | .ok b => b | .error _ => false

/-- function language for `with_new_column` callbacks -/
def fnSum (r : List Cell) : Cell :=
  let anyFloat := r.any fun c => match c with | .float _ => true | _ => false
  let tot : Rat := r.foldl (fun acc c => match isNum c with | some q => acc + q | none => acc) 0
  if anyFloat then .float tot else .int tot.num

def fnConcat (r : List Cell) : Cell :=
  .str (r.foldl (fun acc c => match c with | .str s => acc ++ s | _ => acc) "")

def fnNMissing (r : List Cell) : Cell := .int (r.filter (· = .missing)).length

def fnOfJ (j : J) : Except String (List Cell → Cell) := do
  let l ← j.toList
  let tag ← (l.headD .null).toStr
  if tag = "const" then
    let c ← cellOfJ (l.getD 1 .null)
    pure (fun _ => c)
  else if tag = "sum" then pure fnSum
  else if tag = "concat" then pure fnConcat
  else if tag = "nmissing" then pure fnNMissing
  else throw "bad function"

def rowsToJ (rs : List (List (List Char))) : J :=
  .arr (rs.map fun r => .arr (r.map fun f => .str (String.ofList f)))

def rowsOfJ (j : J) : Except String (List (List (List Char))) :=
  j.toListOf (J.toListOf fun f => do pure (← f.toStr).toList)

def delimOfJ (j : J) : Except String Char := do
  match (← (← j.get "delim").toStr).toList with
  | [c] => pure c
  | _ => throw "delimiter must be one character"

/-- a `columns=`-style argument: null | "name" | [names] | {"tuple": [names]} -/
def pvOfJ : J → Except String TableArgs.PV
  | .null => pure .none
  | .str s => pure (.str s)
  | j@(.obj _) => do pure (.tup (← strsOfJ (← j.get "tuple")))
  | j => do pure (.list (← strsOfJ j))

def optPvOfJ (j : J) (k : String) : Except String TableArgs.PV :=
  match j.get? k with
  | some x => pvOfJ x
  | none => pure .none

/-- `inner_join(other, columns_self, columns_other, use_index, col_prefix)` with the key columns resolved by the
TRANSLATED statements of the method (`Gen.C20Args.joinKeys`) -/
def innerJoinArgs (t u : Table) (cs co : TableArgs.PV) (useIndex : Bool) (pre : String) (hand : Bool := false) :
    Except String Table := do
  let (ks, ko, mask) ←
    if hand then TableArgs.joinKeysH t.header u.header t.index u.index cs co useIndex
    else (Gen.C20Args.joinKeys t.header u.header t.index u.index cs co useIndex).map fun r => (r.1.iter, r.2.1.iter, r.2.2)
  let r ← t.innerJoin u ks ko pre
  -- `output_mask` of the translated statements = the columns the table model keeps
  if r.header ≠ t.header ++ mask.map (pre ++ ·) then throw "output_mask differs from the model's kept columns"
  pure r

def argOf (c : TableArgs.MethodCall) (k : String) : Option TableArgs.Arg := (c.kw.find? (·.1 == k)).map (·.2)

def handle (cmd : String) (j : J) : Except String J :=
  match cmd with
  | "csv_write" => do
    let d : Csv.Dialect := { delim := ← delimOfJ j, lt := (← (← j.get "lt").toStr).toList }
    pure (.str (String.ofList (Csv.csvWrite d (← rowsOfJ (← j.get "rows")))))
  | "csv_read" => do
    pure (exJ rowsToJ (Csv.csvRead (← delimOfJ j) (← (← j.get "text").toStr).toList))
  | "table_write" => do
    let d : Csv.Dialect := { delim := ← delimOfJ j, lt := ['\n'] }
    let hdr := (← strsOfJ (← j.get "header")).map String.toList
    pure (.str (String.ofList (Csv.tableWrite d (← (← j.get "title").toStr).toList hdr
      (← rowsOfJ (← j.get "rows")) (← (← j.get "legend").toStr).toList)))
  | "load_delimited" => do
    -- the csv reader model, then the row logic GENERATED from the source of parse/table.py::load_delimited
    -- (`"hand": true`: the HAND model `loadRowsH` instead — the failing-input search)
    let hdrArg ← match j.get? "header" with
      | some (.bool b) => pure b | none => pure Gen.C20Load.defaultHeader | _ => throw "header must be a bool"
    let limit ← match j.get? "limit" with
      | some .null => pure none | none => pure Gen.C20Load.defaultLimit | some v => do pure (some (← v.toInt))
    let hand := match j.get? "hand" with | some (.bool true) => true | _ => false
    let wt ← (← j.get "with_title").toBool
    let wl ← (← j.get "with_legend").toBool
    let r := (Csv.csvRead (← delimOfJ j) (← (← j.get "text").toStr).toList).bind fun recs =>
      if hand then TableLoad.loadRowsH recs hdrArg wt wl limit
      else Gen.C20Load.loadDelimitedRows recs hdrArg wt wl limit
    pure (exJ (fun (h, rows, title, legend) =>
      .obj [("header", match h with | none => .null | some h => .arr (h.map fun f => .str (String.ofList f))),
            ("rows", rowsToJ rows),
            ("title", .str (String.ofList title)), ("legend", .str (String.ofList legend))]) r)
  | "op" => do
    let t ← tableOfJ (← j.get "t")
    match ← (← j.get "op").toStr with
    | "inner_join" => do
      let u ← tableOfJ (← j.get "u")
      pure (resJ (t.innerJoin u (← strsOfJ (← j.get "ks")) (← strsOfJ (← j.get "ko"))))
    | "natural_join" => do
      let u ← tableOfJ (← j.get "u")
      let (ks, ko) := t.naturalKeys u
      pure (resJ (t.innerJoin u ks ko))
    | "cross_join" => do
      let u ← tableOfJ (← j.get "u")
      pure (resJ (pure (t.crossJoin u)))
    | "get_columns" =>
      pure (resJ (t.getColumns (← strsOfJ (← j.get "columns")) (← (← j.get "with_index").toBool)))
    | "row_indices" => do
      let cb ← callbackOfJ t j
      pure (exJ (fun l => .arr (l.map .bool))
        (do t.rowIndices (← cb) (← strsOfJ (← j.get "columns")) (← (← j.get "negate").toBool)))
    | "count" => do
      let cb ← callbackOfJ t j
      pure (exJ (fun n => .num n)
        (do if nrows t.cols = 0 then pure 0 else t.count (← cb) (← strsOfJ (← j.get "columns"))))
    | "filtered_by_column" => do
      let p ← cpredOfJ (← j.get "cpred")
      pure (resJ (pure (t.filteredByColumn p)))
    | "getitem" => do
      let rows ← rowSelOfJ (← j.get "rows")
      let cs ← colSelOfJ (← j.get "cols")
      pure (resJ (do t.getItem rows (← cs.toNames t.header)))
    | "filtered" => do
      let cb ← callbackOfJ t j
      pure (resJ (do if nrows t.cols = 0 then pure t else t.filtered (← cb) (← strsOfJ (← j.get "columns"))))
    | "count_unique" => do
      pure (exJ (fun l => .arr (l.map fun (k, n) => .arr [.arr (k.map keyToJ), .num n]))
        (t.countUnique (← strsOfJ (← j.get "columns"))))
    | "distinct_values" => do
      pure (exJ (fun l => .arr (l.map fun k => .arr (k.map keyToJ)))
        (t.distinctValues (← strsOfJ (← j.get "columns"))))
    | "with_new_column" => do
      let f ← fnOfJ (← j.get "fn")
      pure (resJ (t.withNewColumn (← (← j.get "new").toStr) f (← strsOfJ (← j.get "columns"))))
    | "appended" => do
      let others ← (← j.get "others").toListOf tableOfJ
      let nc ← match ← j.get "new" with
        | .null => pure none
        | x => do pure (some (← x.toStr))
      pure (resJ (t.appended nc others))
    | "transposed" => do
      let sel ← match ← j.get "select" with
        | .null => pure none
        | x => do pure (some (← x.toStr))
      pure (resJ (t.transposed (← (← j.get "new").toStr) sel))
    | "sorted_args" => do
      -- the key columns / reversed columns as the TRANSLATED statements of `Table.sorted` resolve them
      let hand := match j.get? "hand" with | some (.bool true) => true | _ => false
      let c ← optPvOfJ j "columns"
      let r ← optPvOfJ j "reverse"
      -- (`"hand": true`: the HAND model `sortArgs` instead of the translated statements — the failing-input search)
      let res := if hand then .ok (TableArgs.PV.list (TableArgs.sortArgs t.header c r).1, (TableArgs.sortArgs t.header c r).2)
                 else Gen.C20Args.sortedColumns t.header [] c r
      match res with
      | .error e => pure (.obj [("err", .str e)])
      | .ok (cols, rev) => pure (resJ (t.sorted (some cols.iter) rev.iter))
    | "inner_join_args" => do
      let u ← tableOfJ (← j.get "u")
      let ui ← match j.get? "use_index" with | some b => b.toBool | none => pure Gen.C20Args.joinKeysDefaultUseIndex
      let pre ← match j.get? "col_prefix" with | some (.str p) => pure p | _ => pure "right_"
      let hand := match j.get? "hand" with | some (.bool true) => true | _ => false
      pure (resJ (innerJoinArgs t u (← optPvOfJ j "cs") (← optPvOfJ j "co") ui pre hand))
    | "joined_args" => do
      let hand := match j.get? "hand" with | some (.bool true) => true | _ => false
      let u ← tableOfJ (← j.get "u")
      let ij ← match j.get? "inner" with | some b => b.toBool | none => pure Gen.C20Args.joinedCallDefaultInnerJoin
      let pre ← match j.get? "col_prefix" with | some (.str p) => pure p | _ => pure Gen.C20Args.joinedCallDefaultColPrefix
      let jcs ← optPvOfJ j "cs"
      let jco ← optPvOfJ j "co"
      let call := if hand then TableArgs.joinedCallH jcs jco ij pre else Gen.C20Args.joinedCall jcs jco ij pre
      match call with
      | .error e => pure (.obj [("err", .str e)])
      | .ok call =>
        if call.name == "cross_join" then
          let p := match argOf call "col_prefix" with | some (.str p) => p | _ => "right_"
          pure (resJ (pure (t.crossJoin u p)))
        else if call.name == "inner_join" then
          match argOf call "columns_self", argOf call "columns_other", argOf call "use_index", argOf call "col_prefix" with
          | some (.pv cs), some (.pv co), some (.bool ui), some (.str p) => pure (resJ (innerJoinArgs t u cs co ui p hand))
          | _, _, _, _ => throw "joined: unexpected arguments of the forwarded inner_join"
        else throw s!"joined forwards to {call.name}"
    | "sorted" => do
      let r := t.sorted (← optStrsOfJ (← j.get "columns")) (← strsOfJ (← j.get "reverse"))
      -- also return the (transformed) key sequence so that tie order need not be compared
      pure (resJ r)
    | o => throw s!"unknown op {o}"
  | "to_csv" => do
    let d : Csv.Dialect := { delim := ← delimOfJ j, lt := ['\n'] }
    let hdr := (← strsOfJ (← j.get "header")).map String.toList
    pure (.str (String.ofList (Csv.toCsvText d hdr (← rowsOfJ (← j.get "rows")))))
  | "cast" => do
    -- the loader's decision on one column of cell texts: int / float / text
    let cells := (← strsOfJ (← j.get "cells")).map String.toList
    let pf : List Char → Option (List Char) := fun s => if CastStr.isFloatText s then some s else none
    match CastStr.castColumn pf cells with
    | .ints ns => pure (.obj [("kind", .str "int"), ("values", .arr (ns.map .num))])
    | .floats _ => pure (.obj [("kind", .str "float")])
    | .text _ => pure (.obj [("kind", .str "text")])
  | "lex_le" => do
    let a := (← (← j.get "a").toStr).toList.map Char.toNat
    let b := (← (← j.get "b").toStr).toList.map Char.toNat
    pure (.bool (natLexLe a b))
  | _ => throw s!"unknown command {cmd}"

def main : IO Unit := driverLoop handle
