import CogentModel.Json
import CogentModel.Model.Composable
/-! JSON codec for the Composable model (shared by drv_c14 and drv_c19) -/
open CogentModel CogentModel.Composable

namespace C14Codec

def optNat (j : J) : Except String (Option Nat) :=
  match j with
  | .null => pure none
  | _ => do pure (some (← j.toNat))

def ofOptNat : Option Nat → J
  | none => .null
  | some n => .num n

def ncTypeStr : NCType → String
  | .error => "ERROR" | .bug => "BUG" | .fail => "FAIL"

def msgJ : Msg → J
  | .noneIn => .arr [.str "none_in"]
  | .noneOut => .arr [.str "none_out"]
  | .exc t => .arr [.str "exc", .num t]
  | .badType t => .arr [.str "bad_type", .num t]
  | .user t => .arr [.str "user", .num t]

def valJ : Val → J
  | .ok v => .obj [("ok", .arr [.num v.ty, .num v.val, ofOptNat v.src])]
  | .nc n => .obj [("nc", .arr [.str (ncTypeStr n.type), .num n.origin, msgJ n.msg, ofOptNat n.source])]

def parseNCType (s : String) : Except String NCType :=
  match s with
  | "ERROR" => pure .error | "BUG" => pure .bug | "FAIL" => pure .fail
  | _ => throw s!"bad nc type {s}"

def parseMsg (j : J) : Except String Msg := do
  match ← j.toList with
  | [.str "none_in"] => pure .noneIn
  | [.str "none_out"] => pure .noneOut
  | [.str "exc", t] => pure (.exc (← t.toInt))
  | [.str "bad_type", t] => pure (.badType (← t.toNat))
  | [.str "user", t] => pure (.user (← t.toInt))
  | _ => throw "bad msg"

def parseVal (j : J) : Except String Val := do
  match j.get? "ok" with
  | some a =>
    match ← a.toList with
    | [ty, v, s] => pure (.ok ⟨← ty.toNat, ← v.toInt, ← optNat s⟩)
    | _ => throw "bad ok"
  | none =>
    match ← (← j.get "nc").toList with
    | [t, o, m, s] => pure (.nc ⟨← parseNCType (← t.toStr), ← o.toNat, ← parseMsg m, ← optNat s⟩)
    | _ => throw "bad nc"

/-- rule of a generated step: what `main` does with a payload -/
inductive Rule where
  | ret (ty : Nat) (delta : Int)       -- new value of class `ty`, payload + delta, source kept
  | retNoSrc (ty : Nat) (delta : Int)  -- same but the source is dropped
  | raise (tag : Int)
  | none
  | nc (tag : Int)                     -- main returns NotCompleted("FAIL", …) itself

def parseRule (j : J) : Except String Rule := do
  match ← j.toList with
  | [.str "ret", ty, d] => pure (.ret (← ty.toNat) (← d.toInt))
  | [.str "retnosrc", ty, d] => pure (.retNoSrc (← ty.toNat) (← d.toInt))
  | [.str "raise", t] => pure (.raise (← t.toInt))
  | [.str "none"] => pure .none
  | [.str "nc", t] => pure (.nc (← t.toInt))
  | _ => throw "bad rule"

def applyRule (name : Nat) (r : Rule) (v : Val) : Out :=
  match r, v with
  | .ret ty d, .ok x => .ret ⟨ty, x.val + d, x.src⟩
  | .retNoSrc ty d, .ok x => .ret ⟨ty, x.val + d, none⟩
  | .ret ty d, .nc n => .ret ⟨ty, d, n.source⟩
  | .retNoSrc ty d, .nc _ => .ret ⟨ty, d, none⟩
  | .raise t, _ => .raise t
  | .none, _ => .retNone
  | .nc t, v => .retNC ⟨.fail, name, .user t, v.source⟩

def parseKind (s : String) : Except String Kind :=
  match s with
  | "loader" => pure .loader | "generic" => pure .generic | "writer" => pure .writer
  | _ => throw s!"bad kind {s}"

def parseStep (j : J) : Except String Step := do
  let name ← (← j.get "name").toNat
  let rules ← (← j.get "rules").toListOf (J.toPairOf J.toInt parseRule)
  let dflt ← parseRule (← j.get "default")
  pure { name := name, kind := ← parseKind (← (← j.get "kind").toStr), skipNC := ← (← j.get "skip").toBool,
         accepts := ← (← j.get "accepts").toListOf J.toNat,
         main := fun v =>
           let r := match v with
             | .ok x => ((rules.find? (·.1 == x.val)).map (·.2)).getD dflt
             | .nc _ => dflt
           applyRule name r v }

def storeJ (s : Store) : J := .arr (s.map fun e => .arr [.num e.1, valJ e.2])

def parseStore (j : J) : Except String Store := j.toListOf (J.toPairOf J.toNat parseVal)

/-- `apply`: ids, steps (outermost first, without the writer), store, inputs, order -/
def handleApply (j : J) : Except String J := do
  let ids ← (← j.get "ids").toListOf (J.toPairOf J.toNat J.toNat)
  let steps ← (← j.get "steps").toListOf parseStep
  let store ← parseStore (← j.get "store")
  let inputs ← (← j.get "inputs").toListOf J.toNat
  let order ← (← j.get "order").toListOf J.toNat
  let identTy ← (← j.get "ident_ty").toNat
  let idOf := fun m => ((ids.find? (·.1 == m)).map (·.2)).getD m
  let app := fun (m : Nat) => callChain steps (some (.ok ⟨identTy, (m : Int), some m⟩))
  -- "contains": "ok" (directory store: only completed records count, the default) | "any" (SQLite store)
  let anyRec := match j.get? "contains" with
    | some (.str "any") => true
    | _ => false
  match (if anyRec then applyToBy hasAny idOf app store inputs order else applyTo idOf app store inputs order) with
  | none => pure (.obj [("err", .str "ValueError")])
  | some s => pure (.obj [("store", storeJ s)])

def handleCall (j : J) : Except String J := do
  let steps ← (← j.get "steps").toListOf parseStep
  let inp ← match ← j.get "input" with
    | .null => pure none
    | x => do pure (some (← parseVal x))
  pure (valJ (callChain steps inp))

end C14Codec
