import CogentModel.Json
import Driver.PruneCmds
import Driver.C11Cmds
open CogentModel

def handle (cmd : String) (j : J) : Except String J :=
  match C11Cmds.handle? cmd j with
  | some r => r
  | none => PruneCmds.handle cmd j

def main : IO Unit := driverLoop handle
