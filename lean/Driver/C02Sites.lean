import CogentModel.Json
import CogentModel.Model.PruneSites
import CogentModel.Model.PruneFixed
import CogentModel.Model.PruneGap
import Driver.PruneCmds
/-! JSON commands for the second part of C02 (`Model/PruneSites.lean`): the site-class HMM and several loci. -/
open CogentModel CogentModel.Prune CogentModel.PruneSites CogentModel.PruneFixed

namespace C02Sites

def natList (j : J) : Except String (List Nat) := j.toListOf J.toNat

/-- `hmm`: `bprobs` (bin probabilities), `switch`, `lhs[b][u]` (likelihood of unique column `u` under bin `b`),
`index` (column → unique column).  Returns
* `code`  — `siteHmm` (PatchSiteDistribution + SiteClassTransitionMatrix + the loop of log_dot_reduce as written:
  `dot(state_probs, switch_probs)`),
* `old`   — `siteHmmOld`: the loop as it was before fix 6668db777 (`dot(switch_probs, state_probs)`), so that a regression
  to that side can be named,
* `spec`  — `bruteHmm`: the sum over all `2^n` patch paths (only when `brute` is true),
* `bin`   — the forward recursion over the BINS with `binMatrix` (theorem `site_hmm_eq_bin_forward`: equals `code`),
* `binspec` — `bruteHmm` over all `nb^n` BIN paths (the published definition; when `brute` and `nb^n ≤ 4096`),
* `pprobs`, `cond`, `matrix`, `emis` — the intermediate quantities (compared with the real object's attributes) -/
def cmdHmm (j : J) : Except String J := do
  let bprobs ← (← j.get "bprobs").toListOf J.toRat
  let switch ← (← j.get "switch").toRat
  let lhs ← (← j.get "lhs").toListOf (fun x => x.toListOf J.toRat)
  let index ← natList (← j.get "index")
  let brute := match j.get? "brute" with
    | some (J.bool b) => b
    | _ => false
  let pp := patchProbs bprobs
  let M := switchMatrix switch pp
  let npatch := npatch bprobs.length
  let emis : List (List Rat) := index.map fun u =>
    (List.range npatch).map (patchEmission bprobs fun b => (lhs.getD b []).getD u 0)
  let es : List (Nat → Rat) := emis.map fun v => fun a => v.getD a 0
  let code := siteHmm bprobs switch lhs index
  let old := siteHmmOld bprobs switch lhs index
  let spec := if brute then J.ofRat (bruteHmm npatch pp M es) else J.null
  let nb := bprobs.length
  let bp : Nat → Rat := fun b => bprobs.getD b 0
  let bes := binEmissions lhs index
  let binf := forward nb (binMatrix bprobs switch) bp bes
  let binspec := if brute && nb ^ index.length ≤ 4096 then J.ofRat (bruteHmm nb bp (binMatrix bprobs switch) bes) else J.null
  return J.obj [("code", J.ofRat code), ("old", J.ofRat old), ("spec", spec), ("bin", J.ofRat binf), ("binspec", binspec),
                ("npaths", J.ofNat (if brute then (paths npatch es.length).length else 0)),
                ("pprobs", J.arr ((List.range npatch).map fun a => J.ofRat (pp a))),
                ("alloc", J.arr ((List.range bprobs.length).map fun b => J.ofNat (alloc bprobs.length b))),
                ("cond", J.arr ((List.range bprobs.length).map fun b => J.ofRat (condProbs bprobs b))),
                ("matrix", J.arr ((List.range npatch).map fun a => J.arr ((List.range npatch).map fun b => J.ofRat (M a b))))]

/-- `loci`: lists of integer keys per locus; `g key = -(first component)` as in `wls`: returns `lnLLoci` and the plain
sum over loci and columns -/
def cmdLoci (j : J) : Except String J := do
  let loci ← (← j.get "loci").toListOf (fun l => l.toListOf (fun x => x.toListOf J.toInt))
  let g : List Int → Int := fun k => - k.headD 0
  let total := lnLLoci (loci.map fun cols => (g, cols))
  let plain := (loci.map fun cols => (cols.map g).sum).sum
  return J.obj [("total", J.ofInt total), ("plain", J.ofInt plain),
                ("per_locus", J.arr (loci.map fun cols => J.ofInt (lnLCompressed g cols)))]

/-- `lfpin`: the request of `lf` plus `path` (child positions from the root to an internal node).  Returns, for every
state `s < m`, the likelihood of every unique column with `fixed_motif = s` on that node (`lhFixed`,
PartialLikelihoodProductDefnFixedMotif; with several bins the bprobs-weighted sum of the per-bin values, as `lhColumn`),
and whether the path ends at an internal node -/
def cmdLfPin (j : J) : Except String J := do
  let m ← (← j.get "m").toNat
  let symbols := (← (← j.get "symbols").toListOf PruneCmds.ratVec).toArray
  let cols ← (← j.get "cols").toListOf natList
  let bprobs ← (← j.get "bprobs").toListOf J.toRat
  let path ← natList (← j.get "path")
  let binsJ ← (← j.get "bins").toList
  let bins ← binsJ.mapM fun b => do
    let P := (← (← b.get "P").toListOf PruneCmds.ratMat).toArray
    let pi ← PruneCmds.ratVec (← b.get "pi")
    let t ← PruneCmds.parseTree P (← j.get "tree")
    return (PruneCmds.vecFn pi, t)
  let ix := indexed cols
  let profOf (col : List Nat) : Nat → Nat → Rat := fun a => PruneCmds.vecFn (symbols.getD (col.getD a 0) #[])
  let fixedCol (s : Nat) (col : List Nat) : Rat :=
    match bins with
    | [(pi, t)] => lhFixed m pi (profOf col) s path t
    | _ => weightedSum bprobs (bins.map fun (pi, t) => lhFixed m pi (profOf col) s path t)
  let internal := match bins with
    | (_, t) :: _ => isInternalAt path t
    | [] => false
  return J.obj [("uniq", J.arr (ix.uniq.map fun c => J.arr (c.map J.ofNat))),
                ("index", J.arr (ix.index.map J.ofNat)),
                ("internal", J.bool internal),
                ("fixed", J.arr ((List.range m).map fun s => J.arr (ix.uniq.map fun col => J.ofRat (fixedCol s col))))]

/-- `edgeinit`: `_LikelihoodTreeEdge.__init__` (branch `alignment is None`) at the level of the index arrays: `children` =
list of `{index, nuniq}` (a child's column → unique-column array and `len(child.uniq)`).  Returns `uniq` / `counts` / `index`
with the appended gap row (`indexedGap (gapKey …)`), the transposed `indexes`, and `wls` / `full` = `lnLCompressedGap` /
`fullLengthGap` with the integer-valued `g key = -(first component)` (the harness gives the real kernels likelihoods `2^g`) -/
def cmdEdgeInit (j : J) : Except String J := do
  let kids ← (← j.get "children").toListOf fun c => do
    return (← natList (← c.get "index"), ← (← c.get "nuniq").toNat)
  let n := (kids.map fun k => k.1.length).foldl min ((kids.head?.map fun k => k.1.length).getD 0)
  let values : List (List Nat) := (List.range n).map fun col => kids.map fun k => k.1.getD col 0
  let gap := gapKey (kids.map (·.2))
  let ix := indexedGap gap values
  let g : List Nat → Int := fun k => - (k.headD 0 : Int)
  return J.obj [("uniq", J.arr (ix.uniq.map fun c => J.arr (c.map J.ofNat))),
                ("counts", J.arr (ix.counts.map J.ofNat)),
                ("index", J.arr (ix.index.map J.ofNat)),
                ("indexes", J.arr ((List.range kids.length).map fun a => J.arr (ix.uniq.map fun row => J.ofNat (row.getD a 0)))),
                ("wls", J.ofInt (lnLCompressedGap g gap values)),
                ("plain", J.ofInt ((values.map g).sum)),
                ("full", J.arr ((fullLengthGap g gap values).map J.ofInt))]

def handle (cmd : String) (j : J) : Option (Except String J) :=
  match cmd with
  | "hmm" => some (cmdHmm j)
  | "loci" => some (cmdLoci j)
  | "lfpin" => some (cmdLfPin j)
  | "edgeinit" => some (cmdEdgeInit j)
  | _ => none

end C02Sites
