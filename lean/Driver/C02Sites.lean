import CogentModel.Json
import CogentModel.Model.PruneSites
/-! JSON commands for the second part of C02 (`Model/PruneSites.lean`): the site-class HMM and several loci. -/
open CogentModel CogentModel.Prune CogentModel.PruneSites

namespace C02Sites

def natList (j : J) : Except String (List Nat) := j.toListOf J.toNat

/-- `hmm`: `bprobs` (bin probabilities), `switch`, `lhs[b][u]` (likelihood of unique column `u` under bin `b`),
`index` (column → unique column).  Returns
* `code`  — `siteHmm` (PatchSiteDistribution + SiteClassTransitionMatrix + the loop of log_dot_reduce as written),
* `fixed` — the same loop with the matrix acting from the right (`transpose`),
* `spec`  — `bruteHmm`: the sum over all `2^n` patch paths (only when `brute` is true),
* `pprobs`, `cond`, `matrix`, `emis` — the intermediate quantities (compared with the real object's attributes) -/
def cmdHmm (j : J) : Except String J := do
  let bprobs ← (← j.get "bprobs").toListOf J.toRat
  let switch ← (← j.get "switch").toRat
  let lhs ← (← j.get "lhs").toListOf (fun x => x.toListOf J.toRat)
  let index ← natList (← j.get "index")
  let brute := match j.get? "brute" with
    | some (J.bool b) => b
    | _ => false
  let pp := patchProbs bprobs
  let M := switchMatrix switch pp
  let npatch := alloc bprobs.length (bprobs.length - 1) + 1
  let emis : List (List Rat) := index.map fun u =>
    (List.range npatch).map (patchEmission bprobs fun b => (lhs.getD b []).getD u 0)
  let es : List (Nat → Rat) := emis.map fun v => fun a => v.getD a 0
  let code := siteHmm bprobs switch lhs index
  let fixed := forward npatch (transpose M) pp es
  let spec := if brute then J.ofRat (bruteHmm npatch pp M es) else J.null
  return J.obj [("code", J.ofRat code), ("fixed", J.ofRat fixed), ("spec", spec),
                ("npaths", J.ofNat (if brute then (paths npatch es.length).length else 0)),
                ("pprobs", J.arr ((List.range npatch).map fun a => J.ofRat (pp a))),
                ("alloc", J.arr ((List.range bprobs.length).map fun b => J.ofNat (alloc bprobs.length b))),
                ("cond", J.arr ((List.range bprobs.length).map fun b => J.ofRat (condProbs bprobs b))),
                ("matrix", J.arr ((List.range npatch).map fun a => J.arr ((List.range npatch).map fun b => J.ofRat (M a b))))]

/-- `loci`: lists of integer keys per locus; `g key = -(first component)` as in `wls`: returns `lnLLoci` and the plain
sum over loci and columns -/
def cmdLoci (j : J) : Except String J := do
  let loci ← (← j.get "loci").toListOf (fun l => l.toListOf (fun x => x.toListOf J.toInt))
  let g : List Int → Int := fun k => - k.headD 0
  let total := lnLLoci (loci.map fun cols => (g, cols))
  let plain := (loci.map fun cols => (cols.map g).sum).sum
  return J.obj [("total", J.ofInt total), ("plain", J.ofInt plain),
                ("per_locus", J.arr (loci.map fun cols => J.ofInt (lnLCompressed g cols)))]

def handle (cmd : String) (j : J) : Option (Except String J) :=
  match cmd with
  | "hmm" => some (cmdHmm j)
  | "loci" => some (cmdLoci j)
  | _ => none

end C02Sites
