import CogentModel.Json
import CogentModel.Model.AtomicWrite
import CogentModel.Model.Composable
import CogentModel.Model.StoreWrite
import CogentModel.Model.AtomicProg
import CogentModel.Gen.C19Program
import CogentModel.Model.AtomicSite
import CogentModel.Gen.C19Writers
import Driver.C14Codec
open CogentModel CogentModel.AtomicWrite

def dataJ (d : Data) : J := .arr (d.map fun (n : Nat) => .num (n : Int))

def nodeJ : Option Node → J
  | none => .obj [("kind", .str "absent")]
  | some .dir => .obj [("kind", .str "dir")]
  | some (.file d) => .obj [("kind", .str "file"), ("data", dataJ d)]
  | some (.archive ms torn) =>
    .obj [("kind", .str "archive"), ("torn", .bool torn),
          ("members", .arr (ms.map fun m => .arr [.num m.1, dataJ m.2]))]

def parseNode (j : J) : Except String (Option Node) := do
  match ← (← j.get "kind").toStr with
  | "absent" => pure none
  | "file" => pure (some (.file (← (← j.get "data").toListOf J.toNat)))
  | "archive" =>
    let ms ← (← j.get "members").toListOf (J.toPairOf J.toNat (J.toListOf J.toNat))
    pure (some (.archive ms false))
  | k => throw s!"bad node kind {k}"

def parseCfg (j : J) : Except String Cfg := do
  let commit ← match ← (← j.get "commit").toStr with
    | "unlink_rename" => pure Commit.unlinkRename
    | "replace" => pure Commit.replace
    | s => throw s!"bad commit {s}"
  let zm ← match ← j.get "zip_member" with
    | .null => pure none
    | x => do pure (some (← x.toNat))
  pure { commit := commit, guarded := ← (← j.get "guarded").toBool, withBlock := ← (← j.get "with_block").toBool,
         bodyUnlink := ← (← j.get "body_unlink").toBool, closeInBody := ← (← j.get "close_in_body").toBool,
         dir := [0], name := 1, t := 2, u := 3,
         chunks := ← (← j.get "chunks").toListOf (J.toListOf J.toNat), zipMember := zm }

def role (c : Cfg) (p : Path) : String :=
  if p = c.dest then "dest" else if p = c.tmpdir then "tmpdir" else if p = c.tmpfile then "tmpfile"
  else if p = c.dir then "dir" else "other"

def callJ (c : Cfg) : Call → J
  | .mkdir d => .arr [.str "mkdir", .str (role c d)]
  | .openW p => .arr [.str "open_w", .str (role c p)]
  | .write p ch => .arr [.str "write", .str (role c p), dataJ ch]
  | .close p => .arr [.str "close", .str (role c p)]
  | .unlink p => .arr [.str "unlink", .str (role c p)]
  | .rename s d => .arr [.str "rename", .str (role c s), .str (role c d)]
  | .rmtree d => .arr [.str "rmtree", .str (role c d)]
  | .zipData z _ s => .arr [.str "zip_data", .str (role c z), .str (role c s)]
  | .zipDir z => .arr [.str "zip_dir", .str (role c z)]
  | .zipTrunc z => .arr [.str "zip_trunc", .str (role c z)]

def initFS (c : Cfg) (dest : Option Node) : FS :=
  upd (upd (fun _ => none) c.dir (some .dir)) c.dest dest

def stateJ (c : Cfg) (fs : FS) : J :=
  .obj [("dest", nodeJ (fs c.dest)), ("tmpdir", .bool ((fs c.tmpdir).isSome)),
        ("tmpfile", nodeJ (fs c.tmpfile))]

def handle (cmd : String) (j : J) : Except String J :=
  match cmd with
  | "prog" => do
    let c ← parseCfg j
    pure (.arr ((program c).map fun i => callJ c i.call))
  | "crash" => do
    let c ← parseCfg (← j.get "cfg")
    let fs := initFS c (← parseNode (← j.get "dest"))
    let k ← (← j.get "k").toNat
    pure (stateJ c (crashState c fs k))
  | "fault" => do
    let c ← parseCfg (← j.get "cfg")
    let fs := initFS c (← parseNode (← j.get "dest"))
    let k ← (← j.get "k").toNat
    pure (.obj [("state", stateJ c (faultState c fs k)),
                ("trace", .arr ((faultTrace c k).map fun i => callJ c i.call))])
  | "prog_tmp" => do
    -- atomic_write(path, tmpdir=D): D = c.tmpdir exists and holds an unrelated file
    let c ← parseCfg (← j.get "cfg")
    let cl ← match ← (← j.get "cleanup").toStr with
      | "rmtree_dir" => pure TmpCleanup.rmtreeDir
      | "unlink_file" => pure TmpCleanup.unlinkFile
      | s => throw s!"bad cleanup {s}"
    let precious : Path := c.tmpdir ++ [7]
    let fs := upd (upd (initFS c (← parseNode (← j.get "dest"))) c.tmpdir (some .dir)) precious (some (.file [1]))
    let r := exec fs (programTmp c cl)
    pure (.obj [("prog", .arr ((programTmp c cl).map fun i => callJ c i.call)), ("dest", nodeJ (r.1 c.dest)),
                ("caller_file_kept", .bool ((r.1 precious).isSome)), ("error", .bool r.2.isSome)])
  | "crash_tmp" | "fault_tmp" => do
    -- atomic_write(path, tmpdir=D) killed just before call k / with call k raising: D = c.tmpdir exists and holds an unrelated file
    let c ← parseCfg (← j.get "cfg")
    let k ← (← j.get "k").toNat
    let precious : Path := c.tmpdir ++ [7]
    let fs := upd (upd (initFS c (← parseNode (← j.get "dest"))) c.tmpdir (some .dir)) precious (some (.file [1]))
    let st := if cmd == "crash_tmp" then AtomicSite.crashStateTmp c fs k else AtomicSite.faultStateTmp c fs k
    let tr := if cmd == "crash_tmp" then (programTmp c .unlinkFile).take k else AtomicSite.faultTraceTmp c k
    pure (.obj [("dest", nodeJ (st c.dest)), ("tmpfile", .bool ((st c.tmpfile).isSome)), ("caller_dir", .bool ((st c.tmpdir).isSome)),
                ("caller_file_kept", .bool ((st precious).isSome)), ("trace", .arr (tr.map fun i => callJ c i.call))])
  | "gen_bare" => do
    -- the translated methods driven as a bare object: aw = atomic_write(p); aw.write(ch)*; aw.close(); k = null: no fault
    let c ← parseCfg (← j.get "cfg")
    let fs := initFS c (← parseNode (← j.get "dest"))
    let f ← match ← j.get "k" with
      | .null => pure none
      | x => do pure (some (← x.toNat))
    let g : AtomicSite.BareCode := ⟨Gen.C19Program.init, Gen.C19Program.bareWrite, Gen.C19Program.bareClose⟩
    let r := AtomicSite.runBare g c true f
    -- the state: the calls issued, the failing one (position k) without effect
    let eff := match f with
      | none => r.trace
      | some k => r.trace.take k ++ r.trace.drop (k + 1)
    pure (.obj [("trace", .arr (r.trace.map fun i => callJ c i.call)), ("raised", .bool r.raised),
                ("state", stateJ c (exec fs eff).1)])
  | "sites" => do
    let protoS : AtomicSite.Protocol → String := fun
      | .withBlock => "withBlock" | .returned => "returned" | .bareObject => "bareObject"
    pure (.arr (Gen.C19Writers.sites.map fun s =>
      .obj [("file", .str s.file), ("func", .str s.func), ("protocol", .str (protoS s.protocol)), ("tmpdir_arg", .bool s.tmpdirArg),
            ("in_zip_arg", .bool s.inZipArg), ("covered", .bool s.covered), ("mode", .str s.mode)]))
  | "gen_run" => do
    -- the program TRANSLATED from util/io.py (Gen/C19Program.lean) under Python's with-statement protocol:
    -- own = false: the tmpdir= route; k = null: no fault, k = n: call n raises
    let c ← parseCfg (← j.get "cfg")
    let own ← (← j.get "own").toBool
    let f ← match ← j.get "k" with
      | .null => pure none
      | x => do pure (some (← x.toNat))
    let r := AtomicProg.runWith Gen.C19Program.code c own f
    pure (.obj [("trace", .arr (r.trace.map fun i => callJ c i.call)), ("raised", .bool r.raised)])
  | "gen_fmtfail" => do
    -- the translated program when the writer's own code raises after n chunks (no failing call)
    let c ← parseCfg (← j.get "cfg")
    let n ← (← j.get "n").toNat
    let fs := initFS c (← parseNode (← j.get "dest"))
    let r := AtomicProg.runWithBody Gen.C19Program.code c true (AtomicProg.fmtFailBody c n) none
    pure (.obj [("trace", .arr (r.trace.map fun i => callJ c i.call)), ("raised", .bool r.raised),
                ("state", stateJ c (exec fs r.trace).1)])
  | "fine" => do
    -- record-granular resume: inputs [[m, ok?]], crash point (j, p); cells after the crash, after the re-run, uninterrupted
    let var ← match ← (← j.get "variant").toStr with
      | "in_place" => pure StoreWrite.Variant.inPlace
      | "atomic_md5_first" => pure StoreWrite.Variant.atomicMd5First
      | s => throw s!"bad variant {s}"
    let inputs ← (← j.get "inputs").toListOf (J.toPairOf J.toNat J.toBool)
    let ms := inputs.map (·.1)
    let app : Nat → Composable.Val := fun m =>
      if ((inputs.find? (·.1 == m)).map (·.2)).getD true then .ok ⟨1, m, some m⟩ else .nc ⟨.error, 1, .exc 1, some m⟩
    let idOf : Nat → Nat := fun m => m
    let s0 : StoreWrite.FStore := fun _ => StoreWrite.Cell.none
    let cj ← (← j.get "j").toNat
    let cp ← (← j.get "p").toNat
    let s1 := StoreWrite.exec s0 (StoreWrite.crashOps var idOf app s0 ms cj cp)
    let s2 := StoreWrite.resumed var idOf app s0 ms cj cp
    let s3 := StoreWrite.uninterrupted var idOf app s0 ms
    let slot : StoreWrite.Slot → J := fun
      | .absent => .str "absent" | .empty => .str "empty" | .full _ => .str "full"
    let cells : StoreWrite.FStore → J := fun s => .arr (ms.map fun (m : Nat) => .arr [.num (m : Int), slot (s m).data, slot (s m).nc, slot (s m).md5])
    -- does the write list translated from DataStoreDirectory._write give this variant's file operations (both kinds of result)?
    let vs : List Composable.Val := [.ok ⟨1, 0, some 0⟩, .nc ⟨.error, 1, .exc 1, some 0⟩]
    let genIs := vs.all fun v => StoreWrite.blockOfWrites v Gen.C19Program.storeWrites == some (StoreWrite.block var v)
    pure (.obj [("crash", cells s1), ("resumed", cells s2), ("uninterrupted", cells s3), ("gen_is_variant", .bool genIs)])
  | "apply" => C14Codec.handleApply j
  | _ => throw s!"unknown command {cmd}"

def main : IO Unit := driverLoop handle
