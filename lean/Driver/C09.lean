import CogentModel.Json
import CogentModel.Model.PhyloTree
import CogentModel.Model.PhyloNewick
import CogentModel.Model.PhyloTreeDist
import CogentModel.Model.PhyloMidpoint
import CogentModel.Model.PhyloNewickStr
import CogentModel.Model.PhyloNames
import CogentModel.Gen.C09Newick
import CogentModel.Spec.PhyloSplits
open CogentModel CogentModel.Phylo

abbrev T := PTree Rat

partial def treeOfJ (j : J) : Except String T := do
  match ← j.toList with
  | [n, l, cs] =>
    let name ← n.toStr
    let len ← match l with
      | J.null => pure none
      | x => do pure (some (← x.toRat))
    let kids ← (← cs.toList).mapM treeOfJ
    pure (.node name len kids)
  | _ => throw "bad tree"

partial def treeToJ : T → J
  | .node n l cs => J.arr [J.str n, (match l with | none => J.null | some q => J.ofRat q), J.arr (cs.map treeToJ)]

def errStr : TErr → String
  | .treeError => "TreeError"
  | .valueError => "ValueError"
  | .attributeError => "AttributeError"
  | .typeError => "TypeError"

def errJ (e : TErr) : J := J.obj [("err", J.str (errStr e))]

def strsOfJ (j : J) : Except String (List String) := j.toListOf J.toStr

/-- observation of one tree: the ordered nested form, tips, the distance dict as written by
`_get_distances`, and the specification distance for every ordered pair of distinct tips -/
def observe (t : T) (withSpec : Bool) : J :=
  let ts := tips t
  let d := getDistances (1 : Rat) t
  let spec : List J :=
    if withSpec then
      ts.flatMap fun a => ts.filterMap fun b =>
        if a = b then none else some (J.arr [J.str a, J.str b, J.ofRat (distSpec (1 : Rat) a b t)])
    else []
  J.obj [("tree", treeToJ t), ("tips", J.arr (ts.map J.str)),
         ("dist", J.arr (d.map fun e => J.arr [J.str e.1.1, J.str e.1.2, J.ofRat e.2])),
         ("spec", J.arr spec)]

def applyOp (t : T) (op : J) : Except String (Except TErr T) := do
  match ← op.toList with
  | [J.str "rooted_at", n] => pure (rootedAt t (← n.toStr))
  | [J.str "rooted_with_tip", n] => pure (rootedWithTip t (← n.toStr))
  | [J.str "reroot_path", p] =>
    let path ← p.toListOf J.toNat
    pure (match rerootAt t path with | some r => .ok r | none => .error .treeError)
  | [J.str "unrooted"] => pure (.ok (unrooted t))
  | [J.str "copy"] => pure (.ok t)
  | [J.str "sorted", o] => pure (.ok (sorted t (← strsOfJ o)))
  | [J.str "subtree", ns, im, kr, to] =>
    pure (getSubTree t (← strsOfJ ns) (← im.toBool) (← kr.toBool) (← to.toBool))
  | [J.str "midpoint"] => pure (rootAtMidpoint t)
  | _ => throw "bad op"

def runOps (withSpec : Bool) : T → List J → Except String (List J)
  | _, [] => pure []
  | t, op :: ops => do
    match ← applyOp t op with
    | .ok r => do
      let rest ← runOps withSpec r ops
      pure (observe r withSpec :: rest)
    | .error e => pure [errJ e]

def tokJ : Tok Rat → J
  | .lp => J.str "(" | .rp => J.str ")" | .comma => J.str "," | .colon => J.str ":" | .semi => J.str ";"
  | .label s => J.arr [J.str s]
  | .num k => J.obj [("num", J.ofRat k)]

def tokOfJ : J → Except String (Tok Rat)
  | J.str "(" => pure .lp | J.str ")" => pure .rp | J.str "," => pure .comma
  | J.str ":" => pure .colon | J.str ";" => pure .semi
  | J.arr [J.str s] => pure (.label s)
  | J.obj [("num", q)] => do pure (.num (← q.toRat))
  | _ => throw "bad token"

def natRes : Except TErr Nat → J
  | .ok n => J.num n
  | .error e => errJ e

def handle (cmd : String) (j : J) : Except String J :=
  match cmd with
  | "ops" => do
    let t ← treeOfJ (← j.get "tree")
    let ws ← (← j.get "spec").toBool
    let rest ← runOps ws t (← (← j.get "ops").toList)
    pure (J.arr (observe t ws :: rest))
  | "newick" => do
    let t ← treeOfJ (← j.get "tree")
    let w ← (← j.get "with_len").toBool
    let ts := newickToks w t
    pure (J.obj [("toks", J.arr (ts.map tokJ)),
                 ("reparsed", match parseToks ts with | some r => treeToJ r | none => J.null)])
  | "parse" => do
    let ts ← (← j.get "toks").toListOf tokOfJ
    pure (match parseToks ts with | some r => treeToJ r | none => errJ .valueError)
  | "treedist" => do
    let a ← treeOfJ (← j.get "a")
    let b ← treeOfJ (← j.get "b")
    let T := tips a
    pure (J.obj [("rf", natRes (treeDistanceRF a b)), ("rrf", natRes (rootedRF a b)),
                 ("urf", natRes (unrootedRF a b)),
                 ("spec_urf", J.num (symDiffBip T (clusters a) (clusters b)))])
  | "lex" => do
    let text ← (← j.get "text").toStr
    pure (J.arr ((lex text.toList).map fun r => J.str (String.ofList r.str)))
  | "tokenise" => do
    let text ← (← j.get "text").toStr
    pure (match tokenise text.toList with
      | none => errJ .valueError
      | some ts => J.arr (ts.map fun t => match t with
          | .lab s => J.arr [J.str (String.ofList s)]
          | .pun c => J.str (String.ofList [c])))
  | "parsestr" => do
    let text ← (← j.get "text").toStr
    let tbl ← (← j.get "nums").toListOf (J.toPairOf J.toStr J.toRat)
    let rd : List Char → Option Rat := fun s => (tbl.find? (·.1 = String.ofList s)).map (·.2)
    pure (match parseString rd text.toList with
      | some r => treeToJ r
      | none => errJ .valueError)
  | "printstr" => do
    let t ← treeOfJ (← j.get "tree")
    pure (J.str (String.ofList (newickStr t)))
  | "rtname" => do
    -- the decidable class of names and the modelled round trip of one name beside a plain tip
    let n := (← (← j.get "name").toStr).toList
    pure (J.obj [("ok", J.bool (roundTrips n)),
                 ("back", match nameRoundTrip n with | some m => J.str m | none => J.null),
                 ("written", J.str (String.ofList (escapeName n)))])
  | "names" => do
    -- TreeBuilder naming of a label list in creation order (null = no label)
    let ls ← (← j.get "labels").toList
    let labels ← ls.mapM fun x => match x with
      | J.null => pure none
      | y => do pure (some (← y.toStr))
    pure (J.obj [("builder", J.arr ((assignNames labels).map J.str)),
                 ("make_tree", J.arr ((makeTreeNames labels).map J.str))])
  | "gen_unique" => do
    -- wave 3: the TRANSLATED `_unique_name` (Gen/C09Newick.lean) run on an arbitrary dict state, a list of calls in sequence
    let used ← (← j.get "used").toListOf (J.toPairOf J.toStr J.toInt)
    let ls ← (← j.get "labels").toList
    let labels ← ls.mapM fun x => match x with
      | J.null => pure none
      | y => do pure (some (← y.toStr))
    let used := if (← (← j.get "init").toBool) then CogentModel.Gen.C09Newick.usedNamesInit else used
    let (u, names) := labels.foldl (fun (acc : Used × List String) l =>
      let r := CogentModel.Gen.C09Newick.uniqueName acc.1 l; (r.1, acc.2 ++ [r.2])) (used, [])
    pure (J.obj [("names", J.arr (names.map J.str)),
                 ("used", J.arr (u.map fun kv => J.arr [J.str kv.1, J.num kv.2]))])
  | "spaces" => do
    -- every code point the model's `pySpace` accepts (compared with str.isspace over all of Unicode)
    let hi ← (← j.get "upto").toNat
    pure (J.arr (((List.range hi).filter fun n => (n < 0xD800 || 0xDFFF < n) && pySpace (Char.ofNat n)).map fun n => J.num (Int.ofNat n)))
  | _ => throw s!"unknown command {cmd}"

def main : IO Unit := driverLoop handle
