import CogentModel.Json
import CogentModel.Model.Optimiser
import CogentModel.Model.ScopedRules
import CogentModel.Model.OptimiserScopedProj
import CogentModel.Model.OptGenClamp
open CogentModel CogentModel.Optimiser

/-- objective values: extended rationals -/
inductive EY where
  | negInf | fin (q : Rat) | posInf
  deriving Inhabited, BEq

def EY.lt : EY → EY → Bool
  | .negInf, .negInf => false
  | .negInf, _ => true
  | .fin _, .negInf => false
  | .fin a, .fin b => decide (a < b)
  | .fin _, .posInf => true
  | .posInf, _ => false

def EY.isFin : EY → Bool
  | .fin _ => true
  | _ => false

def EY.toJ : EY → J
  | .negInf => J.str "-inf"
  | .posInf => J.str "+inf"
  | .fin q => J.ofRat q

def parseEY (j : J) : Except String EY :=
  match j with
  | J.str "-inf" => pure .negInf
  | J.str "+inf" => pure .posInf
  | J.null => throw "null value"
  | _ => do pure (.fin (← j.toRat))

def parseRes (j : J) : Except String (Res EY) :=
  match j with
  | J.str "oob" => pure .oob
  | J.str "arith" => pure .arith
  | J.str "fatal" => pure .fatal
  | J.str "nan" => pure .nan
  | _ => do pure (.val (← parseEY j))

def stopJ : Option Stop → J
  | none => J.null
  | some (.maxEvals n) => J.obj [("exc", J.str "MaximumEvaluationsReached"), ("n", J.num n)]
  | some .fatal => J.obj [("exc", J.str "fatal")]

/-- bound vectors: `null` = unbounded on that side -/
def parseBound (dflt : EY) (j : J) : Except String EY :=
  match j with
  | J.null => pure dflt
  | _ => parseEY j

def allLe (a b : List EY) : Bool := (a.zip b).all (fun p => !(EY.lt p.2 p.1))

def parseCell (j : J) : Except String Cell := do
  match ← j.toList with
  | [a, b] => pure ((← a.toNat), (← b.toNat))
  | _ => throw "bad cell"

def parseCoords (j : J) : Except String (Coords String) :=
  j.toListOf (J.toPairOf J.toStr (J.toListOf parseCell))

def errJ (e : MapErr) : J :=
  J.obj [("err", J.str (match e with
    | .assertion => "AssertionError" | .tie => "ValueError" | .noRef => "IndexError"))]

def rulesJ (rs : List (String × Rat)) : J := J.arr (rs.map fun r => J.arr [J.str r.1, J.ofRat r.2])


/-- a rule `{"par": s, "edges": null | [s…], "single": bool, "val": "n/d"}` -/
def parseRule (j : J) : Except String (ScopedRules.Rule String Rat) := do
  let edges ← match ← j.get "edges" with
    | J.null => pure none
    | e => do pure (some (← e.toListOf J.toStr))
  pure { par := ← (← j.get "par").toStr, edges := edges, single := ← (← j.get "single").toBool,
         val := ← (← j.get "val").toRat }

def ruleJ (r : ScopedRules.Rule String Rat) : J :=
  J.obj [("par", J.str r.par),
         ("edges", match r.edges with | none => J.null | some es => J.arr (es.map J.str)),
         ("single", J.bool r.single), ("val", J.ofRat r.val)]


def optRat (j : J) : Except String (Option Rat) :=
  match j with
  | J.null => pure none
  | _ => do pure (some (← j.toRat))

def optRatJ : Option Rat → J
  | none => J.null
  | some q => J.ofRat q

/-- `{"par","edges","single","is_constant","init","value"}` -/
def parsePRule (j : J) : Except String (ScopedProj.PRule String Rat) := do
  let edges ← match ← j.get "edges" with
    | J.null => pure none
    | e => do pure (some (← e.toListOf J.toStr))
  pure { par := ← (← j.get "par").toStr, edges := edges, single := ← (← j.get "single").toBool,
         isConst := ← (← j.get "is_constant").toBool, init := ← optRat (← j.get "init"),
         value := ← optRat (← j.get "value") }

def pruleJ (r : ScopedProj.PRule String Rat) : J :=
  J.obj [("par", J.str r.par),
         ("edges", match r.edges with | none => J.null | some es => J.arr (es.map J.str)),
         ("single", J.bool r.single), ("is_constant", J.bool r.isConst),
         ("init", optRatJ r.init), ("value", optRatJ r.value)]

/-- a `my_rules` entry: value may be null -/
def parseRuleOpt (j : J) : Except String (ScopedRules.Rule String (Option Rat)) := do
  let edges ← match ← j.get "edges" with
    | J.null => pure none
    | e => do pure (some (← e.toListOf J.toStr))
  pure { par := ← (← j.get "par").toStr, edges := edges, single := ← (← j.get "single").toBool,
         val := ← optRat (← j.get "val") }

def ruleOptJ (r : ScopedRules.Rule String (Option Rat)) : J :=
  J.obj [("par", J.str r.par),
         ("edges", match r.edges with | none => J.null | some es => J.arr (es.map J.str)),
         ("single", J.bool r.single), ("val", optRatJ r.val)]

def perrJ (e : ScopedProj.PErr) : J :=
  J.obj [("err", J.str (match e with | .keyError => "KeyError" | .noRef => "IndexError"))]

def handle (cmd : String) (j : J) : Except String J :=
  match cmd with
  | "maximise" => do
    -- points are numbered; pts[i] = coordinates, res[i] = what the objective does there
    let pts ← (← j.get "pts").toListOf (J.toListOf J.toRat)
    let res ← (← j.get "res").toListOf parseRes
    let n := pts.length
    let lo ← match j.get? "lower" with
      | some (J.arr l) => l.mapM (parseBound .negInf)
      | _ => pure []
    let hi ← match j.get? "upper" with
      | some (J.arr l) => l.mapM (parseBound .posInf)
      | _ => pure []
    let bounded ← (← j.get "bounded").toBool
    let coords (i : Nat) : List EY := (pts.getD i []).map EY.fin
    let maxE ← match j.get? "max_evaluations" with
      | some (J.num k) => pure (some k.toNat)
      | _ => pure none
    let c : Cfg Nat EY :=
      { f := fun i => if i < n then res.getD i .fatal else .fatal,
        inB := fun i => !bounded || (allLe lo (coords i) && allLe (coords i) hi),
        gt := fun a b => EY.lt b a, fin := EY.isFin, negInf := .negInf, maxEvals := maxE }
    let x0 ← (← j.get "x0").toNat
    let qs ← (← j.get "qs").toListOf J.toNat
    let r := maximise c x0 qs
    let fin : J := match r.final with
      | .valueError => J.obj [("kind", J.str "ValueError")]
      | .raised e => J.obj [("kind", J.str "raised"), ("exc", stopJ (some e))]
      | .noBest => J.obj [("kind", J.str "noBest")]
      | .done fv x ev exc => J.obj [("kind", J.str "done"), ("fval", fv.toJ), ("x", J.num x),
                                    ("evals", J.num ev), ("exc", stopJ exc)]
    pure (J.obj [("final", fin), ("calls", J.arr (r.st.calls.reverse.map fun (i : Nat) => J.num i)),
                 ("shown", J.arr (r.shown.map EY.toJ)), ("evals", J.num r.st.evals)])
  | "clamp" => do
    let xs ← (← j.get "x").toListOf J.toRat
    let lo ← (← j.get "lower").toListOf (parseBound .negInf)
    let hi ← (← j.get "upper").toListOf (parseBound .posInf)
    let rtol ← (← j.get "rtol").toRat
    let atol ← (← j.get "atol").toRat
    -- numpy.allclose(a, b): |a - b| <= atol + rtol * |b|, per coordinate, exact rationals
    let close (a b : EY) : Bool := match a, b with
      | .fin p, .fin q => decide ((if p - q < 0 then q - p else p - q) ≤ atol + rtol * (if q < 0 then -q else q))
      | _, _ => false
    let v : List (Coord EY) := (xs.zip (lo.zip hi)).map fun t => { x := .fin t.1, lo := t.2.1, hi := t.2.2 }
    let w := clampStart EY.lt close v
    -- `clampX` = the start vector of the TRANSLATED `Calculator.optimise` (Proofs/OptGen.lean: `calc_optimise_eq`), evaluated on
    -- the list environment whose array operations model numpy's boolean masks (Props/C16Clamp.lean: equal to `clampStart`)
    let env := OptGenClamp.listEnv EY.lt close (v.map (·.x)) (v.map (·.lo)) (v.map (·.hi))
    let genX : J := J.arr ((OptGenProofs.clampX env).rep.map EY.toJ)
    pure (J.obj [("x", J.arr (w.map fun c => c.x.toJ)), ("in_bounds", J.bool (inBounds EY.lt w)),
                 ("gen_x", genX)])
  | "mapping" => do
    let rich ← parseCoords (← j.get "rich")
    let simple ← parseCoords (← j.get "simple")
    let ref ← (← j.get "ref").toStr
    match paramMapping rich simple with
    | .error e => pure (errJ e)
    | .ok m => pure (J.obj [("map", J.arr (m.map fun p => J.arr [J.str p.1, J.arr (p.2.map J.str)])),
                            ("nested", J.bool (nestedSame ref rich simple))])
  | "project" => do
    let rich ← parseCoords (← j.get "rich")
    let simple ← parseCoords (← j.get "simple")
    let ref ← (← j.get "ref").toStr
    let passNames ← (← j.get "pass").toListOf J.toStr
    let rules ← (← j.get "rules").toListOf (J.toPairOf J.toStr J.toRat)
    let same ← (← j.get "same").toBool
    let pi ← (← j.get "pi").toListOf J.toRat
    if rich.length < simple.length then pure (errJ .assertion) else
    match chosenAll rich simple with
    | .error e => pure (errJ e)
    | .ok ch =>
      let pass := fun n => passNames.contains n
      if same then
        let pr := projectSame ref pass rich ch rules
        let cells := (cellsOf rich ++ cellsOf simple).eraseDups
        let keep := rules.filter (fun r => !(r.1 == ref))
        let agree := cells.all fun cell =>
          cellRate (· * ·) (1 : Rat) rich pr cell == cellRate (· * ·) (1 : Rat) simple keep cell
        pure (J.obj [("rules", rulesJ pr), ("rates_agree", J.bool agree)])
      else
        match projectNotSame (· * ·) (· / ·) (1 : Rat) (fun k => pi.getD k 0) ref pass rich ch rules with
        | .error e => pure (errJ e)
        | .ok pr => pure (J.obj [("rules", rulesJ pr)])
  | "scoped" => do
    let rich ← (← j.get "rich").toListOf parseRule
    let null ← (← j.get "null").toListOf parseRule
    let chars : String → List String := fun s => s.toList.map (fun c => String.singleton c)
    -- audit addition: the executable well-formedness test of `scoped_rules_preserve_values_checked`
    -- (`wfr`) and the original, stronger `WF.quirk` clause over ALL null rules (`quirk_all`)
    let kr := ScopedRules.keyed rich
    let kn := ScopedRules.keyed null
    let wf : List (String × J) :=
      [("wfr", J.bool (ScopedRules.wfrB chars kr kn)), ("quirk_all", J.bool (ScopedRules.quirkAllB chars kn))]
    match ScopedRules.updateScoped chars rich null with
    | .error _ => pure (J.obj ([("err", J.str "ValueError")] ++ wf))
    | .ok out =>
      -- the conclusion of the theorem, evaluated: every output rule, on every edge it names, carries
      -- the value of the (keyed) null rule of that parameter covering the edge
      let concl := out.all fun o => (o.edges.getD []).all fun e =>
        kn.all fun n => !(n.par == o.par && ScopedRules.covers n e) || o.val == n.val
      pure (J.obj ([("rules", J.arr (out.map ruleJ)), ("conclusion", J.bool concl)] ++ wf))
  | "project_scoped" => do
    -- update_param_rules on rules that carry their scope (+ optionally the whole initialise pipeline)
    let rich ← parseCoords (← j.get "rich")
    let simple ← parseCoords (← j.get "simple")
    let ref ← (← j.get "ref").toStr
    let passNames ← (← j.get "pass").toListOf J.toStr
    let rules ← (← j.get "rules").toListOf parsePRule
    let same ← (← j.get "same").toBool
    let pi ← (← j.get "pi").toListOf J.toRat
    let edgeNames ← (← j.get "edge_names").toListOf J.toStr
    let pass := fun n => passNames.contains n
    let chars : String → List String := fun s => s.toList.map (fun c => String.singleton c)
    if rich.length < simple.length then pure (errJ .assertion) else
    match chosenAll rich simple with
    | .error e => pure (errJ e)
    | .ok ch =>
      let hyp : List (String × J) :=
        [("one_per_edge", J.bool (ScopedProj.onePerEdgeB pass rules edgeNames)),
         ("nested", J.bool (nestedSame ref rich simple)),
         ("rich_names_distinct", J.bool ((ch.map (·.1)).eraseDups.length == ch.length))]
      if same then
        match ScopedProj.updateParamRulesSame ref pass rich ch rules with
        | .error e => pure (perrJ e)
        | .ok proj =>
          let cells := (cellsOf rich ++ cellsOf simple).eraseDups
          -- the conclusion of `projection_exact_scoped`, evaluated on every edge and cell
          let agree := edgeNames.all fun e => cells.all fun cell =>
            ScopedProj.edgeRate (· * ·) (1 : Rat) rich (ScopedProj.projectedPairs pass proj e) cell
              == ScopedProj.edgeRate (· * ·) (1 : Rat) simple (ScopedProj.nestedPairs pass rules e) cell
          let base := [("rules", J.arr (proj.map pruleJ)), ("edge_rates_agree", J.bool agree)] ++ hyp
          match j.get? "my" with
          | some myj => do
            let my ← myj.toListOf parseRuleOpt
            let nullR := proj.map ScopedProj.toRule
            let wfr := ScopedRules.wfrB chars (ScopedRules.keyed my) (ScopedRules.keyed nullR)
            match ScopedRules.updateScoped chars my nullR with
            | .error _ => pure (J.obj (base ++ [("final_err", J.str "ValueError"), ("wfr", J.bool wfr)]))
            | .ok fin => pure (J.obj (base ++ [("final", J.arr (fin.map ruleOptJ)), ("wfr", J.bool wfr)]))
          | none => pure (J.obj base)
      else
        match ScopedProj.updateParamRulesNotSame (· * ·) (· / ·) (1 : Rat) (fun k => pi.getD k 0) ref pass rich ch rules with
        | .error e => pure (perrJ e)
        | .ok proj => pure (J.obj ([("rules", J.arr (proj.map pruleJ))] ++ hyp))
  | _ => throw s!"unknown command {cmd}"

def main : IO Unit := driverLoop handle
