import CogentModel.Json
import CogentModel.Model.View
import CogentModel.Spec.PySlice
import CogentModel.Model.SeqWrap
import Driver.C01Seq
import Driver.C01Gen
open CogentModel CogentModel.View

def errStr : Err → String
  | .valueError => "ValueError"
  | .indexError => "IndexError"
  | .assertionError => "AssertionError"

def exJ {α} (f : α → J) : Except Err α → J
  | .ok a => f a
  | .error e => J.obj [("err", J.str (errStr e))]

def viewJ (v : View) : J :=
  J.obj [("start", J.num v.start), ("stop", J.num v.stop), ("step", J.num v.step),
         ("offset", J.num v.offset), ("seq_len", J.num v.seqLen), ("len", J.num (len v)),
         ("parent_start", exJ J.num (parentStart v)), ("parent_stop", exJ J.num (parentStop v)),
         ("rd", let (a, b) := richDictBounds v; J.arr [J.num a, J.num b])]

def parseFl (j : J) : Except String Flavour := do
  match ← j.toStr with
  | "seqview" => pure .seqView
  | "seqdataview" => pure .seqDataView
  | s => throw s!"bad flavour {s}"


/-- complement table from a JSON object `{"A":"T",…}`; characters not in the table are unchanged -/
def compOf (j : J) : Except String (Char → Char) := do
  match j with
  | J.obj kvs =>
    let tbl ← kvs.mapM fun (k, v) => do
      let vs ← v.toStr
      match k.toList, vs.toList with
      | [a], [b] => pure (a, b)
      | _, _ => throw "comp entries must be single characters"
    pure fun c => match tbl.find? (·.1 = c) with
      | some (_, b) => b
      | none => c
  | _ => throw "comp must be an object"

def seqJ (comp : Char → Char) (s : SeqWrap.Seq) : J :=
  J.obj [("str", J.str (String.ofList (SeqWrap.str comp s))), ("len", J.num (SeqWrap.length s)),
         ("start", J.num s.v.start), ("stop", J.num s.v.stop), ("step", J.num s.v.step),
         ("seq_len", J.num s.v.seqLen), ("parent", J.str (String.ofList s.parent))]

def parseSOp (op : J) : Except String SeqWrap.SOp := do
  match ← op.toList with
  | [J.str "s", a, b, c] => pure (.slice (← a.toOptInt) (← b.toOptInt) (← c.toOptInt))
  | [J.str "i", k] => pure (.index (← k.toInt))
  | [J.str "rc"] => pure .rc
  | _ => throw "bad op"

/-- run a chain of ops; stops at the first error; returns the list of states -/
def runChain (fl : Flavour) : View → List J → Except String (List J)
  | _, [] => pure []
  | v, op :: ops => do
    let l ← op.toList
    let r : Except Err View ← match l with
      | [J.str "s", a, b, c] => do pure (getitemSlice fl v (← a.toOptInt) (← b.toOptInt) (← c.toOptInt))
      | [J.str "i", k] => do pure (getitemInt v (← k.toInt))
      | _ => throw "bad op"
    match r with
    | .ok w => do
      let rest ← runChain fl w ops
      pure (viewJ w :: rest)
    | .error e => pure [J.obj [("err", J.str (errStr e))]]

def handle (cmd : String) (j : J) : Except String J :=
  match cmd with
  | "mk" => do
    let r := mk (← (← j.get "n").toInt) (← (← j.get "start").toOptInt) (← (← j.get "stop").toOptInt)
      (← (← j.get "step").toOptInt) (← (← j.get "offset").toInt)
    pure (exJ viewJ r)
  | "chain" => do
    let fl ← parseFl (← j.get "fl")
    let r := mk (← (← j.get "n").toInt) (← (← j.get "start").toOptInt) (← (← j.get "stop").toOptInt)
      (← (← j.get "step").toOptInt) (← (← j.get "offset").toInt)
    match r with
    | .error e => pure (J.arr [J.obj [("err", J.str (errStr e))]])
    | .ok v => do
      let rest ← runChain fl v (← (← j.get "ops").toList)
      pure (J.arr (viewJ v :: rest))
  | "pos" => do
    -- absolute / relative position on an explicit view
    let v : View := { start := ← (← j.get "start").toInt, stop := ← (← j.get "stop").toInt,
                      step := ← (← j.get "step").toInt, offset := ← (← j.get "offset").toInt,
                      seqLen := ← (← j.get "seq_len").toInt }
    let x ← (← j.get "x").toInt
    let b ← (← j.get "flag").toBool
    match ← (← j.get "which").toStr with
    | "abs" => pure (exJ J.num (absolutePosition v x b))
    | "rel" => pure (exJ J.num (relativePosition v x b))
    | "idx" => pure (exJ (fun (a, b, c) => J.arr [J.num a, J.num b, J.num c]) (getIndex v x b))
    | w => throw s!"bad which {w}"
  | "pyslice" => do
    -- spec validation against CPython: positions selected by [a:b:c] on length n
    let n ← (← j.get "n").toNat
    let c ← (← j.get "c").toInt
    if c = 0 then throw "step 0"
    pure (J.arr ((PySlice.sliceIdx n (← (← j.get "a").toOptInt) (← (← j.get "b").toOptInt) c).map J.num))
  | "seqchain" => do
    -- the Sequence wrapper model on a real parent string with the real complement table
    let parent ← (← j.get "parent").toStr
    let nucleic ← (← j.get "nucleic").toBool
    let comp ← compOf (← j.get "comp")
    let ops ← (← (← j.get "ops").toList).mapM parseSOp
    let s0 := SeqWrap.ofString parent.toList nucleic
    let tr := SeqWrap.trace s0 ops
    pure (J.arr (seqJ comp s0 :: tr.map fun r => match r with
      | .ok s => seqJ comp s
      | .error e => J.obj [("err", J.str (errStr e))]))
  | "pyindex" => do
    -- spec validation against CPython: `s[i]` on a plain string (`none` = IndexError)
    let s ← (← j.get "s").toStr
    match PySlice.index s.toList (← (← j.get "i").toInt) with
    | some ch => pure (J.str (String.ofList [ch]))
    | none => pure (J.obj [("err", J.str "IndexError")])
  | "specchain" => do
    -- spec validation against CPython: the plain-string side of `seq_chain_spec`
    -- (`SeqWrap.specRun`: slices, indexing, reverse complement on a `str`)
    let t ← (← j.get "parent").toStr
    let nucleic ← (← j.get "nucleic").toBool
    let comp ← compOf (← j.get "comp")
    let ops ← (← (← j.get "ops").toList).mapM parseSOp
    match SeqWrap.specRun comp nucleic t.toList ops with
    | some r => pure (J.str (String.ofList r))
    | none => pure (J.obj [("err", J.str "IndexError")])
  | "gen" => C01Gen.handleGen j   -- translator self-test (generated definitions)
  | _ => C01Seq.handleSeq cmd j

def main : IO Unit := driverLoop handle
