import CogentModel.Json
import CogentModel.Model.KV
import CogentModel.Model.DataStore
import CogentModel.Model.DataStoreSqlite
import CogentModel.Spec.DataStoreDict
import CogentModel.Spec.DataStoreSqlSafe
import CogentModel.Gen.C13Fmt
import CogentModel.Model.DataStoreZip
import CogentModel.Gen.C13Sql
open CogentModel CogentModel.KV CogentModel.DataStore

/-! line protocol of the C13 driver: data travel as strings, the checksum function is the
identity (the harness compares the real md5 with the md5 of the payload the model stored). -/

def S (s : Str) : J := J.str (String.ofList s)
def optS : Option Str → J
  | none => J.null
  | some s => S s
def optD : Option String → J
  | none => J.null
  | some s => J.str s

def errName : Err → String
  | .ioError => "OSError"
  | .fileNotFound => "FileNotFoundError"
  | .osError => "OSError"
  | .integrity => "IntegrityError"
  | .operational => "OperationalError"

def resJ : Res → J
  | .done none => J.null
  | .done (some m) => S m
  | .err e => J.obj [("err", J.str (errName e))]

def parseMode (j : J) : Except String Mode := do
  match ← j.toStr with
  | "r" => pure .r
  | "w" => pure .w
  | "a" => pure .a
  | m => throw s!"bad mode {m}"

def parseOp (j : J) : Except String (Op String) := do
  match ← j.toList with
  | [J.str "w", J.str id, J.str d] => pure (.write id.toList d)
  | [J.str "nc", J.str id, J.str d] => pure (.writeNc id.toList d)
  | [J.str "log", J.str id, J.str d] => pure (.writeLog id.toList d)
  | [J.str "drop", J.str id] => pure (.drop id.toList)
  | [J.str "reopen", m] => do pure (.reopen (← parseMode m))
  | [J.str "obs"] => pure .observe
  | [J.str "unlock"] => pure .unlock
  | _ => throw "bad op"

def isObs : Op String → Bool
  | .observe => true
  | _ => false

def mobsJ (m : MObs String) : J := J.arr [S m.name, optD m.content, optD m.md5]

def dirObs (s : Dir String) : J :=
  J.obj [("c", J.arr ((obsCompleted s).map mobsJ)), ("nc", J.arr ((obsNotCompleted s).map mobsJ)),
         ("logs", J.arr ((obsLogs s).map fun p => J.arr [S p.1, J.str p.2])),
         ("dirs", J.arr [J.bool s.ncDir, J.bool s.logsDir]),
         ("validate", let v := validateDir id s
            J.arr [J.num v.correct, J.num v.incorrect, J.num v.missing, J.bool v.hasLog])]

def runDir (cfg : Cfg) : Dir String → List (Op String) → List J
  | _, [] => []
  | s, op :: ops =>
    let (s1, r) := step cfg id s op
    let o := if isObs op then [("obs", dirObs s1)] else []
    J.obj (("r", resJ r) :: ("d", J.arr [J.bool s1.ncDir, J.bool s1.logsDir]) :: o) :: runDir cfg s1 ops

open CogentModel.DataStoreSqlite in
def sqlObs (s : Sql String) : J :=
  let row (n : Str) : J :=
    match get s.rows n with
    | some r => J.arr [S n, J.str r.data, J.str r.md5]
    | none => J.arr [S n, J.null, J.null]
  J.obj [("c", J.arr (s.cCache.map row)), ("nc", J.arr (s.ncCache.map row)),
         -- `read('logs/<name>')` selects by log_name and takes the first row
         ("logs", J.arr (s.logRows.filterMap fun r =>
            match r.name with
            | some n =>
              let first := s.logRows.find? (fun q => q.name == some n)
              some (J.arr [S n, optD (match first with | some q => q.data | none => none)])
            | none => none))]

open CogentModel.DataStoreSqlite in
def runSql : Sql String → List (Op String) → List J
  | _, [] => []
  | s, op :: ops =>
    let (s1, r) := DataStoreSqlite.step id s op
    let ok := match r with
      | .err _ => false
      | _ => true
    let o := if isObs op && ok then [("obs", sqlObs s1)] else []
    J.obj (("r", resJ r) :: o) :: runSql s1 ops

open CogentModel.DataStoreDict in
def dictObs (d : Dict String) : J :=
  let kv (m : KV String) : J := J.arr (m.map fun p => J.arr [S p.1, J.str p.2])
  J.obj [("c", kv d.completed), ("nc", kv d.notCompleted), ("logs", kv d.logs)]

open CogentModel.DataStoreDict in
def runSpec (k : Kind) (sfx : Str) : Dict String → List (Op String) → List J
  | _, [] => []
  | d, op :: ops =>
    let rej := rejects k sfx d op
    let d1 := specStep k sfx d op
    let o := if isObs op then [("obs", dictObs d1)] else []
    J.obj (("rej", J.bool rej) :: o) :: runSpec k sfx d1 ops

def optStrJ (o : Option Str) : J := optS o

def handle (cmd : String) (j : J) : Except String J :=
  match cmd with
  | "dir" => do
    let sfx := (← (← j.get "sfx").toStr).toList
    let mode ← parseMode (← j.get "mode")
    let ops ← (← j.get "ops").toListOf parseOp
    let cfg : Cfg := { roOpenNoMkdir := ← (← j.get "ro_open").toBool, roWriteNoMkdir := ← (← j.get "ro_write").toBool,
                       md5First := ← (← j.get "md5_first").toBool }
    pure (J.arr (runDir cfg (Dir.create mode sfx) ops))
  | "sql" => do
    let mode ← parseMode (← j.get "mode")
    let ops ← (← j.get "ops").toListOf parseOp
    pure (J.arr (runSql (DataStoreSqlite.Sql.create mode) ops))
  | "spec" => do
    let k ← match ← (← j.get "kind").toStr with
      | "dir" => pure DataStoreDict.Kind.directory
      | "sql" => pure DataStoreDict.Kind.sqlite
      | s => throw s!"bad kind {s}"
    let sfx := (← (← j.get "sfx").toStr).toList
    let mode ← parseMode (← j.get "mode")
    let ops ← (← j.get "ops").toListOf parseOp
    pure (J.arr (runSpec k sfx (DataStoreDict.Dict.empty mode) ops))
  | "safe" => do
    -- hypotheses of `store_refines_dict_partial` on a concrete history
    let sfx := (← (← j.get "sfx").toStr).toList
    let mode ← parseMode (← j.get "mode")
    let ids := (← (← j.get "ids").toListOf J.toStr).map String.toList
    let ops ← (← j.get "ops").toListOf parseOp
    pure (J.obj [("hyg", J.bool (DataStoreDict.hyg sfx ids)),
                 ("safe", J.bool (DataStoreDict.safeHist sfx ids (DataStoreDict.Dict.empty mode) ops))])
  | "safe_sql" => do
    -- hypotheses of `sqlite_store_refines_dict_partial` on a concrete history
    let mode ← parseMode (← j.get "mode")
    let ops ← (← j.get "ops").toListOf parseOp
    pure (J.obj [("safe", J.bool (DataStoreSqlite.safeHistS id (DataStoreSqlite.Sql.create mode)
      (DataStoreDict.Dict.empty mode) ops))])
  | "names" => do
    -- the naming layer on one identifier
    let sfx := (← (← j.get "sfx").toStr).toList
    let suffix := (← (← j.get "suffix").toStr).toList
    let uid := (← (← j.get "uid").toStr).toList
    let n := resolve sfx suffix uid
    let fs := getFormatSuffixes uid
    pure (J.obj [("chk1", S n.chk1), ("file", S n.file), ("chk2", S n.chk2), ("md5", S n.md5),
      ("dropkey", S (dropKey sfx uid)), ("dropmd5", S (dropMd5 uid)), ("md5lookup", S (md5Lookup sfx (pathName uid))),
      ("stem", S (pathStem uid)), ("fs", J.arr [optS fs.1, optS fs.2]),
      ("suffixes", J.arr ((pathSuffixes uid).map S)), ("special", J.bool (special uid)),
      ("infix", J.bool (isInfix sfx uid)), ("ends", J.bool (endsWith uid sfx)),
      ("replace", S (replaceAll uid sfx suffix))])
  | "fmt" => do
    -- the TRANSLATED get_format_suffixes and the pathlib primitives it is written with; the translated sqlite identifier rewriting
    let uid := (← (← j.get "uid").toStr).toList
    let fs := match Gen.C13Fmt.get_format_suffixes uid with
      | none => J.str "IndexError"
      | some r => J.arr [optS r.1, optS r.2]
    pure (J.obj [("fs", fs), ("suffix", S (pathSuffixDot uid)), ("suffixes", J.arr ((pathSuffixesDot uid).map S)),
      ("lower", S (lower uid)), ("nodot", S (reSubLeadDot [] uid)),
      ("sqlids", J.arr [S (Gen.C13Sql.write_id uid), S (Gen.C13Sql.write_nc_id uid), S (Gen.C13Sql.write_log_id uid)])])
  | "zip" => do
    -- ReadOnlyDataStoreZipped: the three listings of an archive with the given entry names (in namelist order)
    let sfx := (← (← j.get "sfx").toStr).toList
    let top := (← (← j.get "top").toStr).toList
    let names := (← (← j.get "names").toListOf J.toStr).map String.toList
    pure (J.obj [("c", J.arr ((DataStoreZip.zCompleted sfx names).map S)), ("nc", J.arr ((DataStoreZip.zNotCompleted names).map S)),
      ("logs", J.arr ((DataStoreZip.zLogs names).map S)), ("ctop", J.arr ((DataStoreZip.zCompletedTop top sfx names).map S))])
  | _ => throw s!"unknown command {cmd}"

def main : IO Unit := driverLoop handle
