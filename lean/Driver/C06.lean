import CogentModel.Json
import CogentModel.Model.Splitlines
import CogentModel.Model.SeqFormats
import CogentModel.Spec.FastaText
import CogentModel.Model.Suffixes
import CogentModel.Gen.C06Dispatch
import CogentModel.Model.GenBankLoc
import CogentModel.Spec.SeqRecords
import CogentModel.Model.Clustal
import CogentModel.Spec.ClustalRecords
import CogentModel.Spec.ClustalDecoratedCheck
open CogentModel CogentModel.Splitlines CogentModel.SeqFormats

def errStr : Err → String
  | .recordError => "RecordError"
  | .valueError => "ValueError"
  | .attributeError => "AttributeError"
  | .indexError => "IndexError"
  | .typeError => "TypeError"

def strJ (s : List Char) : J := J.str (String.ofList s)
def linesJ (ls : List (List Char)) : J := J.arr (ls.map strJ)
def recsJ (rs : List Rec) : J := J.arr (rs.map fun r => J.arr [strJ r.1, strJ r.2])
def exJ {α} (f : α → J) : Except Err α → J
  | .ok a => f a
  | .error e => J.obj [("err", J.str (errStr e))]

def getStr (j : J) (k : String) : Except String (List Char) := do return (← (← j.get k).toStr).toList
def getLines (j : J) (k : String) : Except String (List (List Char)) := do
  return (← (← j.get k).toListOf J.toStr).map String.toList
def getRecs (j : J) (k : String) : Except String (List Rec) := do
  let xs ← (← j.get k).toListOf (J.toPairOf J.toStr J.toStr)
  return xs.map fun (a, b) => (a.toList, b.toList)

def handle (cmd : String) (j : J) : Except String J :=
  match cmd with
  | "splitlines" => do pure (linesJ (pySplitlines (← getStr j "text")))
  | "iter" => do pure (linesJ (iterSplitlines (← getLines j "chunks")))
  | "gb_location" => do
    -- parse_location_line: parts (start, stop+1, strand), get_coordinates(), strand
    match GenBank.parseLocation (← getStr j "text") with
    | .error e => pure (J.obj [("err", J.str (errStr e))])
    | .ok parts =>
      pure (J.obj [("parts", J.arr (parts.map fun s => J.arr [J.num (s.first - 1), J.num s.second, J.num s.strand])),
                   ("coords", J.arr ((GenBank.getCoordinates parts).map fun p => J.arr [J.num p.1, J.num p.2])),
                   ("strand", exJ J.num (GenBank.listStrand parts))])
  | "gb_records" => do
    pure (exJ recsJ (GenBank.gbRecords (← getStr j "text")))
  | "suffixes" => do
    let name ← getStr j "name"
    let u ← getStr j "uuid"
    let hs ← (← j.get "has_suffix").toBool
    let sx := Suffixes.suffixesOf name
    let optJ : Option (List Char) → J := fun o => match o with
      | none => J.null
      | some x => strJ x
    let fmt := Suffixes.formatSuffixes Gen.C06Dispatch.compressionSuffixes hs sx
    pure (J.obj [("suffixes", linesJ sx), ("tmp", strJ (Suffixes.tmpName u name)),
                 ("format", match fmt with
                    | .ok (a, b) => J.arr [optJ a, optJ b]
                    | .error _ => J.obj [("err", J.str "IndexError")]),
                 ("codec", match fmt with
                    | .ok (_, b) => optJ (Suffixes.codecOf Gen.C06Dispatch.codecTable b)
                    | .error _ => J.null)])
  | "general" => do
    -- Spec/FastaText: the text, well-formedness and expected records of a structured general FASTA file
    let parseTerm (t : String) : Except String FastaText.Term :=
      match t with
      | "lf" => pure .lf
      | "crlf" => pure .crlf
      | "eof" => pure .eof
      | x => throw s!"bad term {x}"
    let gs ← (← j.get "recs").toListOf fun r => do
      let body ← (← r.get "body").toListOf fun l => do
        match ← l.toList with
        | [c, t] => pure ({ content := (← c.toStr).toList, term := ← parseTerm (← t.toStr) } : FastaText.GLine)
        | _ => throw "bad line"
      pure ({ pre := (← (← r.get "pre").toStr).toList, name := (← (← r.get "name").toStr).toList,
              post := (← (← r.get "post").toStr).toList, crlf := ← (← r.get "crlf").toBool, body := body } : FastaText.GRec)
    let t := FastaText.fileRaw gs
    pure (J.obj [("text", strJ t), ("wf", J.bool (FastaText.wfFile gs)), ("records", recsJ (FastaText.records gs)),
                 ("strict", exJ recsJ (fastaStrict t)), ("faster", recsJ (fastaFaster t)), ("bytes", recsJ (fastaBytes t))])
  | "streamed" => do
    -- the composition parser ∘ iter_splitlines (LineBasedParser) on the recorded reads of one file
    let ls := iterSplitlines (← getLines j "chunks")
    match ← (← j.get "parser").toStr with
    | "fasta_strict" => pure (exJ recsJ (strictParser ['>'] ls))
    | "fasta_faster" => pure (recsJ (fasterParser ['>'] ls))
    | "gde" => pure (exJ recsJ (strictParser ['%', '#'] ls))
    | "paml" => pure (exJ recsJ (pamlParser ls))
    | "phylip" => pure (exJ recsJ (phylipParser ls))
    | "aln" => pure (exJ recsJ (Clustal.clustalParser true ls))
    | p => throw s!"unknown parser {p}"
  | "fasta_format" => do
    -- recs: [[name, [line, ...]], ...] (lines as produced by the external textwrap.wrap)
    let xs ← (← j.get "recs").toListOf (J.toPairOf J.toStr (J.toListOf J.toStr))
    pure (strJ (fastaFormat (xs.map fun (n, ls) => (n.toList, ls.map String.toList))))
  | "fasta_format_chunk" => do
    pure (strJ (fastaFormatW (chunkWrap (← (← j.get "bs").toNat)) (← getRecs j "recs")))
  | "chunk_wrap" => do pure (linesJ (chunkWrap (← (← j.get "bs").toNat) (← getStr j "s")))
  | "gde_format" => do pure (strJ (gdeFormat (← (← j.get "bs").toNat) (← getRecs j "recs")))
  | "paml_format" => do pure (exJ strJ (pamlFormat (← (← j.get "bs").toNat) (← getRecs j "recs")))
  | "phylip_format" => do pure (exJ strJ (phylipFormat (← (← j.get "bs").toNat) (← getRecs j "recs")))
  | "strict" => do
    let lc ← getStr j "lc"
    pure (exJ recsJ (strictParser lc (← getLines j "lines")))
  | "faster" => do
    let lc ← getStr j "lc"
    pure (recsJ (fasterParser lc (← getLines j "lines")))
  | "fasta_bytes" => do pure (recsJ (fastaBytes (← getStr j "text")))
  | "fasta_text" => do
    -- all three FASTA parsers on the text of one file
    let t ← getStr j "text"
    pure (J.obj [("strict", exJ recsJ (fastaStrict t)), ("faster", recsJ (fastaFaster t)),
                 ("bytes", recsJ (fastaBytes t))])
  | "gde_text" => do pure (exJ recsJ (gdeStrict (← getStr j "text")))
  | "paml" => do pure (exJ recsJ (pamlParser (← getLines j "lines")))
  | "phylip" => do pure (exJ recsJ (phylipParser (← getLines j "lines")))
  | "strip" => do pure (J.arr [strJ (strip (← getStr j "s")), strJ (bstrip (← getStr j "s")),
                                J.arr ((splitWs (← getStr j "s")).map strJ)])
  | "int" => do pure (exJ J.num (pyInt (← getStr j "s")))
  | "digits" => do pure (strJ (natDigits (← (← j.get "n").toNat)))
  | "spec" => do
    -- the specification side (Spec/SeqRecords.lean): well-formedness predicates used as theorem hypotheses, `truncName`
    let s ← getStr j "s"
    let lc ← getStr j "lc"
    pure (J.obj [("wfName", J.bool (SeqSpec.wfName s)), ("wfSeq", J.bool (SeqSpec.wfSeq lc s)),
                 ("noLower", J.bool (SeqSpec.noLower s)), ("truncName", strJ (SeqSpec.truncName s))])
  | "clustal_format" => do
    -- clustal_from_alignment(dict(recs), wrap) with the records in output order (the code sorts a dict's keys)
    let wrap ← (← j.get "wrap").toOptInt
    pure (exJ strJ (Clustal.clustalFormat (wrap.map Int.toNat) (← getRecs j "recs")))
  | "clustal_parse" => do
    pure (exJ recsJ (Clustal.clustalParser (← (← j.get "strict").toBool) (← getLines j "lines")))
  | "clustal_line" => do
    -- the line level pieces of parse/clustal.py
    let l ← getStr j "line"
    pure (J.obj [("is_seq_line", J.bool (Clustal.isSeqLine l)), ("delete_trailing_number", strJ (Clustal.deleteTrailingNumber l)),
                 ("last_space", linesJ (Clustal.lastSpace (Clustal.rstrip l)))])
  | "clustal_spec" => do
    let s ← getStr j "s"
    pure (J.obj [("clustalName", J.bool (ClustalSpec.clustalName s)), ("clustalSeq", J.bool (ClustalSpec.clustalSeq s))])
  | "decor_check" => do
    -- the executable recogniser of the decorated-file shape (Props/C06Decor.lean checkDecorated_sound)
    pure (J.bool (ClustalSpec.checkDecorated (← getRecs j "pairs") (← getLines j "lines")))
  | _ => throw s!"unknown command {cmd}"

def main : IO Unit := driverLoop handle
