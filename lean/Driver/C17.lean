import CogentModel.Json
import CogentModel.Model.AnnotDb
import CogentModel.Model.AnnotDbRoundTrip
import CogentModel.Model.AnnotDbX
import CogentModel.Model.AnnotDbHist
import CogentModel.Spec.AnnotDbX
open CogentModel CogentModel.AnnotDb CogentModel.AnnotDbSpec CogentModel.Gen.C17Sql

def optStr : J → Except String (Option String)
  | .null => pure none
  | .str s => pure (some s)
  | _ => throw "not a string/null"

def getOpt (j : J) (k : String) : J := (j.get? k).getD .null

def parseSpans (j : J) : Except String (List (Int × Int)) := j.toListOf (J.toPairOf J.toInt J.toInt)

def parseRec (j : J) : Except String Rec := do
  pure { seqid := ← optStr (getOpt j "seqid"), biotype := ← optStr (getOpt j "biotype"),
         name := ← optStr (getOpt j "name"), strand := ← optStr (getOpt j "strand"),
         attrs := ← optStr (getOpt j "attrs"), spans := ← parseSpans (← j.get "spans"),
         start := ← (← j.get "start").toInt, stop := ← (← j.get "stop").toInt }

def ofOptStr : Option String → J
  | none => .null
  | some s => .str s

def spansJ (s : List (Int × Int)) : J := J.arr (s.map fun p => J.arr [J.num p.1, J.num p.2])

def recJ (r : Rec) : J :=
  J.obj [("seqid", ofOptStr r.seqid), ("biotype", ofOptStr r.biotype), ("name", ofOptStr r.name),
         ("strand", ofOptStr r.strand), ("attrs", ofOptStr r.attrs), ("spans", spansJ r.spans),
         ("start", J.num r.start), ("stop", J.num r.stop)]

def parseQuery (j : J) : Except String Query := do
  pure { biotype := ← optStr (getOpt j "biotype"), seqid := ← optStr (getOpt j "seqid"),
         name := ← optStr (getOpt j "name"), strand := ← optStr (getOpt j "strand"),
         attributes := ← optStr (getOpt j "attributes"),
         start := ← (getOpt j "start").toOptInt, stop := ← (getOpt j "stop").toOptInt,
         allowPartial := ← match getOpt j "allow_partial" with | .null => pure false | b => b.toBool }

def parseKind (j : J) : Except String Kind := do
  match ← j.toStr with
  | "basic" => pure .basic
  | "gff" => pure .gff
  | "genbank" => pure .genbank
  | s => throw s!"bad kind {s}"

def kindStr : Kind → String
  | .basic => "basic" | .gff => "gff" | .genbank => "genbank"

/-- db JSON: {"kind": .., "tables": {"user": [rec..], "gff": [..]}} (missing table = empty) -/
def parseDb (j : J) : Except String Db := do
  let k ← parseKind (← j.get "kind")
  let tj := getOpt j "tables"
  let tables ← (tableNames k).mapM fun n => do
    match tj.get? n with
    | none => pure (n, ([] : List Rec))
    | some rs => pure (n, ← rs.toListOf parseRec)
  pure { kind := k, tables := tables }

def dbJ (db : Db) : J :=
  J.obj [("kind", J.str (kindStr db.kind)),
         ("tables", J.obj (db.tables.map fun t => (t.1, J.arr (t.2.map recJ))))]

def errStr : Err → String
  | .typeError => "TypeError"
  | .operationalError => "OperationalError"

def parseCondVal (j : J) : Except String (Option CondVal) :=
  match j with
  | .null => pure none
  | .str s => pure (some (.one s))
  | .arr xs => do pure (some (.many (← xs.mapM J.toStr)))
  | _ => throw "bad seqids"

partial def parseLoc (j : J) : Except String Loc := do
  match ← j.toList with
  | [J.str "seg", a, b] => pure (.seg (← a.toInt) (← b.toInt))
  | [J.str "join", J.arr xs] => do pure (.join (← xs.mapM parseLoc))
  | [J.str "complement", x] => do pure (.complement (← parseLoc x))
  | _ => throw "bad loc"

def parseRow (j : J) : Except String GffRow := do
  pure { id := ← optStr (getOpt j "id"), seqid := ← (← j.get "seqid").toStr,
         biotype := ← (← j.get "biotype").toStr, strand := ← (← j.get "strand").toStr,
         attrs := ← (← j.get "attrs").toStr, start := ← (← j.get "start").toInt,
         stop := ← (← j.get "stop").toInt }

/-- one python call of a history, as the model's `Op` -/
def parseOp (op : J) : Except String Op := do
  match ← op.toList with
  | [J.str "new", k] => pure (.new (← parseKind k))
  | [J.str "add", i, r] => pure (.add (← i.toNat) (← parseRec r))
  | [J.str "addtable", i, t, r] => pure (.addTable (← i.toNat) (← t.toStr) (← parseRec r))
  | [J.str "update", i, k, s] => pure (.update (← i.toNat) (← k.toNat) (← parseCondVal s))
  | [J.str "union", i, k] => pure (.union (← i.toNat) (← k.toNat))
  | [J.str "subset", i, q] => pure (.subset (← i.toNat) (← parseQuery q))
  | [J.str "copy", i] => pure (.copy (← i.toNat))
  | [J.str "copy", i, J.str "json"] => pure (.copyJson (← i.toNat))
  | [J.str "copy", i, _] => pure (.copy (← i.toNat))
  | _ => throw "bad op"

/-- op machine over a register of dbs = `stepOp` of `Model/AnnotDbHist.lean`, call by call; returns every db
at the end, or the error that stopped it (the register is then as before the failing call) -/
def runOps : List Db → List J → Except String (List Db × Option String)
  | dbs, [] => pure (dbs, none)
  | dbs, oj :: ops => do
    let op ← parseOp oj
    if !op.inRange dbs.length then throw "bad db index"
    match stepOp dbs op with
    | .ok dbs' => runOps dbs' ops
    | .error e => pure (dbs, some (errStr e))

/-! extended model: rows without location, on_alignment, GenBank record loading, children / parent -/

def optBool : J → Except String (Option Bool)
  | .null => pure none
  | b => do pure (some (← b.toBool))

def parseXRec (j : J) : Except String XRec := do
  let located ← (← j.get "located").toBool
  let row : Rec ← if located then parseRec j else
    pure { seqid := ← optStr (getOpt j "seqid"), biotype := ← optStr (getOpt j "biotype"),
           name := ← optStr (getOpt j "name"), strand := ← optStr (getOpt j "strand"),
           attrs := ← optStr (getOpt j "attrs"), spans := [], start := 0, stop := 0 }
  pure { row := row, located := located, onAln := ← optBool (getOpt j "on_alignment") }

def xrecJ (r : XRec) : J :=
  J.obj [("seqid", ofOptStr r.row.seqid), ("biotype", ofOptStr r.row.biotype), ("name", ofOptStr r.row.name),
         ("strand", ofOptStr r.row.strand), ("attrs", ofOptStr r.row.attrs),
         ("spans", if r.located then spansJ r.row.spans else .null),
         ("start", if r.located then J.num r.row.start else .null),
         ("stop", if r.located then J.num r.row.stop else .null),
         ("located", J.bool r.located),
         ("on_alignment", match r.onAln with | none => .null | some b => J.bool b)]

def parseXDb (j : J) : Except String XDb := do
  pure { kind := ← parseKind (← j.get "kind"), main := ← (← j.get "main").toListOf parseXRec,
         user := ← (← j.get "user").toListOf parseXRec }

def xdbJ (db : XDb) : J :=
  J.obj [("kind", J.str (kindStr db.kind)), ("main", J.arr (db.main.map xrecJ)), ("user", J.arr (db.user.map xrecJ))]

def exceptJ {α} (f : α → J) : Except Err α → J
  | .ok a => f a
  | .error e => J.str ("raised " ++ errStr e)

def parseFeature (j : J) : Except String GbFeature := do
  let loc ← match getOpt j "loc" with | .null => pure none | l => do pure (some (← parseLoc l))
  let names ← match getOpt j "names" with | .null => pure none | l => do pure (some (← l.toListOf J.toStr))
  pure { biotype := ← (← j.get "biotype").toStr, loc := loc, names := names, attrs := "" }

/-- a sequence of `GenbankAnnotationDb(data=.., seqid=.., db=db)` (new instance: the made-up-name counter
starts at 0) and `db.add_records(.., seqid)` (same instance: the counter runs on) calls -/
def runGbCalls : Nat → List J → Except String (List XRec)
  | _, [] => pure []
  | n, c :: cs => do
    let fresh ← (← c.get "new").toBool
    let feats ← (← c.get "feats").toListOf parseFeature
    let (rows, n') := gbAddRecords (← (← c.get "seqid").toStr) (if fresh then 0 else n) feats
    pure (rows ++ (← runGbCalls n' cs))

def handle (cmd : String) (j : J) : Except String J :=
  match cmd with
  | "xq" => do
    let db ← parseXDb (← j.get "db")
    let qs ← (← j.get "qs").toList
    let out ← qs.mapM fun qj => do
      let q ← parseQuery qj
      let oa ← optBool (getOpt qj "on_alignment")
      pure (J.obj [("features", exceptJ (fun l => J.arr (l.map xrecJ)) (getFeaturesMatchingX db q oa)),
                   ("records", exceptJ (fun l => J.arr (l.map xrecJ)) (getRecordsMatchingX db q oa)),
                   ("num", exceptJ (fun (n : Nat) => J.num n) (numMatchesX db q oa)),
                   ("subset", xdbJ (subsetX db q)),
                   -- the rows the features route selects (accepted instead of the mirrored TypeError of the open no-location finding)
                   ("scan", J.arr ((selectFeaturesX db q oa).map xrecJ)),
                   ("scan_num", J.num (selectFeaturesX db { q with start := none, stop := none } oa).length)])
    pure (J.arr out)
  | "pchildren" => do
    -- get_feature_children of GffAnnotationDb / BasicAnnotationDb: rows of every table in table_names order, with parent_id
    let rows ← (← j.get "rows").toListOf fun r => do
      pure ({ x := ← parseXRec r, parent := ← optStr (getOpt r "parent") } : PRec)
    let ps ← (← j.get "probes").toList
    let out ← ps.mapM fun p => do
      pure (exceptJ (fun (l : List PRec) => J.arr (l.map fun r => xrecJ r.x))
        (mixinChildren rows (← (← p.get "name").toStr) (← optStr (getOpt p "biotype"))))
    pure (J.arr out)
  | "xjson" => do
    -- deserialise_object(db.to_json()) of an in-memory db, rows without location included
    pure (xdbJ (jsonRoundTripX (← parseXDb (← j.get "db"))))
  | "gbadd" => do
    pure (J.arr ((← runGbCalls 0 (← (← j.get "calls").toList)).map xrecJ))
  | "family" => do
    let db ← parseXDb (← j.get "db")
    let ps ← (← j.get "probes").toList
    let out ← ps.mapM fun p => do
      let name ← (← p.get "name").toStr
      let a ← (← p.get "start").toInt
      let b ← (← p.get "stop").toInt
      let excl ← optStr (getOpt p "exclude_biotype")
      -- `alt`: the answer when rows without location are simply not candidates (accepted instead of a mirrored
      -- TypeError of the open finding)
      let dbl : XDb := { db with main := db.main.filter (·.located), user := db.user.filter (·.located) }
      let f := fun l => J.arr (l.map xrecJ)
      match ← (← p.get "method").toStr with
      | "children" => do
        let bt ← optStr (getOpt p "biotype")
        pure (J.obj [("res", exceptJ f (gbChildrenX db name bt excl a b)), ("alt", exceptJ f (gbChildrenX dbl name bt excl a b))])
      | _ => pure (J.obj [("res", exceptJ f (gbParentX db name excl a b)), ("alt", exceptJ f (gbParentX dbl name excl a b))])
    pure (J.arr out)
  | "sql" => do
    let s ← (← j.get "s").toInt; let e ← (← j.get "e").toInt
    let a ← (← j.get "a").toInt; let b ← (← j.get "b").toInt
    pure (J.arr [J.bool (matchPartial s e a b), J.bool (matchWithin s e a b),
                 J.bool (matchStartOnly s e a), J.bool (matchStopOnly s e b)])
  | "queries" => do
    let db ← parseDb (← j.get "db")
    let qs ← (← j.get "qs").toListOf parseQuery
    pure (J.arr (qs.map fun q => J.arr ((getMatching db q).map recJ)))
  | "nummatches" => do
    let db ← parseDb (← j.get "db")
    let qs ← (← j.get "qs").toListOf parseQuery
    pure (J.arr (qs.map fun q => J.num (numMatches db q)))
  | "norm" => do
    let spans ← parseSpans (← j.get "spans")
    let r := mkUserRec "s" "b" "n" none none spans
    pure (J.obj [("spans", spansJ r.spans), ("start", J.num r.start), ("stop", J.num r.stop)])
  | "gff" => do
    let (s, e) := gffCoords (← (← j.get "first").toInt) (← (← j.get "last").toInt)
    pure (J.arr [J.num s, J.num e])
  | "gb" => do
    let l ← parseLoc (← j.get "loc")
    pure (J.obj [("spans", spansJ (gbCoords l)), ("strand", ofOptStr (gbStrand l))])
  | "like" => do
    pure (J.bool (likeMatch (← (← j.get "p").toStr).toList (← (← j.get "t").toStr).toList))
  | "gffload" => do
    let blocks ← (← j.get "blocks").toListOf (J.toListOf parseRow)
    pure (J.arr ((loadGffBlocks blocks).map recJ))
  | "roundtrip" => do
    -- serialisation routes on the record-list model
    let db ← parseDb (← j.get "db")
    let fb ← (← j.get "file_backed").toBool
    match ← (← j.get "route").toStr with
    | "json" => pure (dbJ (jsonRoundTrip db fb))
    | "deepcopy" => pure (dbJ (deepcopyDb db fb))
    | "pickle" => pure (dbJ (deepcopyDb db fb))
    | "write" => pure (dbJ (writeLoad db))
    | r => throw s!"bad route {r}"
  | "ops" => do
    let (dbs, err) ← runOps [] (← (← j.get "ops").toList)
    pure (J.obj [("dbs", J.arr (dbs.map dbJ)), ("err", ofOptStr err)])
  | _ => throw s!"unknown command {cmd}"

def main : IO Unit := driverLoop handle
