import CogentModel.Json
import CogentModel.Model.CallRich
import CogentModel.Gen.C14Call
/-! JSON codec for the rich call model (drv_c14): evaluates BOTH the hand model (`chainR`, `addR`) and the definitions
translated from the current source (`Gen.C14Call.call`, `.add`, `.getDefaultChunksize`). -/
open CogentModel CogentModel.Composable CogentModel.CallPrims CogentModel.CallRich

namespace C14Rich

def optNat (j : J) : Except String (Option Nat) :=
  match j with
  | .null => pure none
  | _ => do pure (some (← j.toNat))

def ofOptNat : Option Nat → J
  | none => .null
  | some n => .num n

def partJ : Part → J
  | .lit s => .arr [.str "lit", .str s]
  | .cls t => .arr [.str "cls", .num t]
  | .types ts => .arr [.str "types", .arr (ts.map fun (t : Nat) => .num t)]
  | .tb t => .arr [.str "tb", .num t]
  | .num t => .arr [.str "num", .num t]

def parsePart (j : J) : Except String Part := do
  match ← j.toList with
  | [.str "lit", .str s] => pure (.lit s)
  | [.str "cls", t] => pure (.cls (← t.toNat))
  | [.str "types", ts] => pure (.types (← ts.toListOf J.toNat))
  | [.str "tb", t] => pure (.tb (← t.toInt))
  | [.str "num", t] => pure (.num (← t.toInt))
  | _ => throw "bad part"

def vJ (v : V) : J := .arr [.num v.ty, .num v.val, ofOptNat v.src]

def parseV (j : J) : Except String V := do
  match ← j.toList with
  | [ty, v, s] => pure ⟨← ty.toNat, ← v.toInt, ← optNat s⟩
  | _ => throw "bad obj"

def pvJ : PV → J
  | .none => .null
  | .bool b => .obj [("bool", .bool b)]
  | .nc n => .obj [("nc", .arr [.str n.type, .num n.origin, .arr (n.msg.map partJ), ofOptNat n.source])]
  | .obj v => .obj [("obj", vJ v)]
  | .seq c items => .obj [("seq", .arr [.num c, .arr (items.map vJ)])]
  | .proxy o s => .obj [("proxy", .arr [pvJ o, ofOptNat s])]

partial def parsePV (j : J) : Except String PV := do
  match j with
  | .null => pure .none
  | _ =>
    match j.get? "obj" with
    | some a => pure (.obj (← parseV a))
    | none =>
    match j.get? "nc" with
    | some a =>
      match ← a.toList with
      | [.str t, o, m, s] => pure (.nc ⟨t, ← o.toNat, ← m.toListOf parsePart, ← optNat s⟩)
      | _ => throw "bad nc"
    | none =>
    match j.get? "seq" with
    | some a =>
      match ← a.toList with
      | [c, items] => pure (.seq (← c.toNat) (← items.toListOf parseV))
      | _ => throw "bad seq"
    | none =>
    match j.get? "proxy" with
    | some a =>
      match ← a.toList with
      | [o, s] => pure (.proxy (← parsePV o) (← optNat s))
      | _ => throw "bad proxy"
    | none =>
    match j.get? "bool" with
    | some (.bool b) => pure (.bool b)
    | _ => throw "bad python value"

inductive Rule where
  | ret (ty : Nat) (delta : Int)
  | retNoSrc (ty : Nat) (delta : Int)
  | raise (tag : Int)
  | none
  | nc (tag : Int)

def parseRule (j : J) : Except String Rule := do
  match ← j.toList with
  | [.str "ret", ty, d] => pure (.ret (← ty.toNat) (← d.toInt))
  | [.str "retnosrc", ty, d] => pure (.retNoSrc (← ty.toNat) (← d.toInt))
  | [.str "raise", t] => pure (.raise (← t.toInt))
  | [.str "none"] => pure .none
  | [.str "nc", t] => pure (.nc (← t.toInt))
  | _ => throw "bad rule"

/-- what the generated steps of harness/c14_apps.py do: payload, the source the step sees, the source of the whole argument -/
def applyRule (name : Nat) (r : Rule) (val : Int) (src : Option Id) (argSrc : Option Id) : ROut :=
  match r with
  | .ret ty d => .ret (.obj ⟨ty, val + d, src⟩)
  | .retNoSrc ty d => .ret (.obj ⟨ty, val + d, Option.none⟩)
  | .raise t => .raise t
  | .none => .ret .none
  | .nc t => .ret (.nc ⟨"FAIL", name, [.lit "user", .num t], argSrc⟩)

def parseKind (s : String) : Except String Kind :=
  match s with
  | "loader" => pure .loader | "generic" => pure .generic | "writer" => pure .writer
  | _ => throw s!"bad kind {s}"

def parseStep (j : J) : Except String RStep := do
  let name ← (← j.get "name").toNat
  let rules ← (← j.get "rules").toListOf (J.toPairOf J.toInt parseRule)
  let dflt ← parseRule (← j.get "default")
  let kind ← parseKind (← (← j.get "kind").toStr)
  let look := fun (x : Int) => ((rules.find? (·.1 == x)).map (·.2)).getD dflt
  pure { name := name, kind := kind, skipNC := ← (← j.get "skip").toBool,
         dataTypes := ← (← j.get "data_types").toListOf J.toNat,
         returnTypes := ← (← j.get "return_types").toListOf J.toNat,
         main := fun pv =>
           match pv with
           | .obj x => applyRule name (look x.val) x.val x.src x.src
           | .nc n => applyRule name dflt 0 n.source n.source
           | .seq _ items => .ret (.obj ⟨2, items.length, (items.head?).bind (·.src)⟩)
           | .proxy (.obj x) s =>
             if kind == .loader then applyRule name (look x.val) x.val x.src s
             else applyRule name (look x.val) x.val s s
           | .proxy (.seq _ items) s => .ret (.obj ⟨2, items.length, s⟩)
           | _ => .raise 0 }

/-- composition from the TRANSLATED `_call` -/
def genChain : List RStep → PV → PV
  | [], v => v
  | s :: rest, v => Gen.C14Call.call s (if rest.isEmpty then none else some (genChain rest)) v

def handleCallRich (j : J) : Except String J := do
  let steps ← (← j.get "steps").toListOf parseStep
  let inp ← parsePV (← j.get "input")
  pure (.obj [("hand", pvJ (chainR steps inp)), ("gen", pvJ (genChain steps inp))])

def parseAppType (j : J) : Except String (Option AppType) :=
  match j with
  | .str "loader" => pure (some .loader)
  | .str "writer" => pure (some .writer)
  | .str "generic" => pure (some .generic)
  | .str "non_composable" => pure (some .nonComposable)
  | .null => pure none
  | _ => throw "bad app type"

def parseSig (j : J) : Except String AppSig := do
  pure { appType := ← parseAppType (← j.get "app_type"), hasInput := ← (← j.get "has_input").toBool,
         dataTypes := ← (← j.get "data_types").toListOf J.toNat, returnTypes := ← (← j.get "return_types").toListOf J.toNat }

def addJ : AddResult → J
  | .connected => .arr [.str "connected"]
  | .raised e k => .arr [.str "raised", .str e, .num k]
  | .fellThrough => .arr [.str "fell_through"]

def handleAdd (j : J) : Except String J := do
  let a ← parseSig (← j.get "self")
  let b ← parseSig (← j.get "other")
  let same ← (← j.get "same").toBool
  pure (.obj [("hand", addJ (addR a b same)), ("gen", addJ (Gen.C14Call.add a b same))])

/-- `a0 + a1 + …` left to right: index of the first `+` that raises (with what), or connected -/
def handleCompose (j : J) : Except String J := do
  let sigs ← (← j.get "sigs").toListOf parseSig
  match sigs with
  | [] => throw "empty"
  | first :: rest =>
    let rec go (cur : AppSig) (l : List AppSig) (k : Nat) : J :=
      match l with
      | [] => .arr [.str "connected"]
      | o :: r =>
        match addR cur o false with
        | .connected => go { o with hasInput := true } r (k + 1)
        | res => .arr [.str "failed_at", .num k, addJ res]
    pure (.obj [("hand", go first rest 0), ("composeFrom", .bool (composeFrom first rest))])

end C14Rich
