import CogentModel.Json
import CogentModel.Model.View
import CogentModel.Spec.PySlice
