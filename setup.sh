#!/bin/bash
# MANIFEST.setup_cmd: build, offline and from files on disk only, everything the
# registered checks need (proof modules + native drivers of the claimed properties).
set -e
cd "$(dirname "$0")"
export PYTHONPATH="$PWD"
targets=$(/venv/bin/python - <<'PY'
import json, importlib
man = json.load(open("MANIFEST.json"))
t = []
for c in man["checks"]:
    m = importlib.import_module("harness." + c["property_id"].lower())
    t += list(getattr(m, "LEAN_TARGETS", []))
    if getattr(m, "DRIVER", None):
        t.append(m.DRIVER)
print(" ".join(dict.fromkeys(t)))
PY
)
cd lean
echo "building: $targets"
lake build $targets
