#!/bin/bash
# MANIFEST.setup_cmd: build, offline and from files on disk only, everything the
# registered checks need (proof modules + native drivers of the claimed properties).
#
# 1. the translated model parts (lean/CogentModel/Gen/*.lean) are regenerated from
#    /repo's CURRENT source first, so that the build never depends on whatever copy
#    of a generated file happens to be committed;
# 2. a proof that does not check is NOT a setup failure: every check rebuilds its own
#    targets and reports a broken proof itself (VIOLATION … no-failing-input-found or
#    a concrete failing input), so setup only warms the build and exits 0 as long as
#    the toolchain runs.
cd "$(dirname "$0")"
export PYTHONPATH="$PWD"
export PYTHONDONTWRITEBYTECODE=1
targets=$(/venv/bin/python -W ignore - <<'PY'
import json, importlib, sys, traceback
from harness import common
man = json.load(open("MANIFEST.json"))
t = []
for c in man["checks"]:
    m = importlib.import_module("harness." + c["property_id"].lower())
    if hasattr(m, "generate"):
        ctx = common.Ctx(c["property_id"], "quick", 0)
        try:
            probs = m.generate(ctx)
            if probs:
                print(f"setup: translator problems for {c['property_id']}: {probs}", file=sys.stderr)
        except Exception:
            traceback.print_exc()
        finally:
            ctx.cleanup()
    t += list(getattr(m, "LEAN_TARGETS", []))
    if getattr(m, "DRIVER", None):
        t.append(m.DRIVER)
print(" ".join(dict.fromkeys(t)))
PY
)
command -v lake >/dev/null || { echo "setup: lake not on PATH" >&2; exit 1; }
cd lean
echo "building: $targets"
if ! lake build $targets; then
    echo "setup: WARNING some Lean targets did not build; the checks of the affected properties will report it" >&2
fi
exit 0
