#!/bin/bash
# tools_seedtest.sh <PROP> <patch.diff> [tier]  -- run a check against a scratch worktree of /repo with a seeded change applied
# (evidence and replays of such runs go to /tmp so the committed evidence is not disturbed)
prop=$1; patch=$(realpath "$2"); tier=${3:-quick}
wt=/tmp/wt_seed_$$_$RANDOM
git -C /repo worktree add -q "$wt" HEAD || exit 3
if ! git -C "$wt" apply "$patch"; then echo "PATCH-DOES-NOT-APPLY $patch"; git -C /repo worktree remove --force "$wt"; exit 3; fi
mkdir -p /tmp/seed_ev /tmp/seed_replays
cd "${VERIF_HOME:-/verif}"
VERIF_REPO=$wt PYTHONPATH=$wt/src VERIF_EVIDENCE_DIR=/tmp/seed_ev VERIF_REPLAY_DIR=/tmp/seed_replays ./check "$prop" --tier "$tier" 2>&1 | grep -v "^KNOWN-FINDING" | tail -3 | cut -c1-400
rc=${PIPESTATUS[0]}
git -C /repo worktree remove --force "$wt"
# generated model parts were re-translated from the mutated worktree: restore the committed copies
# (re-translate from the UNCHANGED /repo rather than `git checkout`, so that a builder's uncommitted translator work is kept)
( cd "${VERIF_HOME:-/verif}" && PYTHONPATH="${VERIF_HOME:-/verif}" PYTHONDONTWRITEBYTECODE=1 /venv/bin/python -W ignore - "$prop" <<'PY'
import importlib, sys
from harness import common
m = importlib.import_module("harness." + sys.argv[1].lower())
if hasattr(m, "generate"):
    ctx = common.Ctx(sys.argv[1], "quick", 0)
    try:
        m.generate(ctx)
    finally:
        ctx.cleanup()
PY
) >/dev/null 2>&1
echo "seedtest prop=$prop patch=$patch rc=$rc"
exit $rc
