#!/usr/bin/env python3
"""Regenerates MANIFEST.json from the table below (single source of truth)."""
import json
from pathlib import Path

HERE = Path(__file__).resolve().parent
ALL = [f"C{i:02d}" for i in range(1, 21)]

# id -> dict(text, note, technique, design_ref)
CLAIMED = {}

for _f in sorted((HERE / "manifest.d").glob("C*.json")):
    CLAIMED[_f.stem] = json.loads(_f.read_text())

NOT_YET = "machinery for this property is not built yet in this snapshot; it will be claimed once its Lean model, theorems and correspondence check pass on the unchanged tree"


def main():
    checks = []
    for pid in ALL:
        if pid not in CLAIMED:
            continue
        c = CLAIMED[pid]
        checks.append(
            dict(
                property_id=pid,
                quick_cmd=f"./check {pid} --tier quick",
                thorough_cmd=f"./check {pid} --tier thorough",
                evidence_file=f"/verif/evidence/{pid}.json",
                replay_cmd_template=f"./check {pid} --replay {{path}}",
                engine="lean4+correspondence",
                level_claimed=dict(category="proof", text=c["text"], design_ref=c.get("design_ref", "6")),
                level_note=c["note"],
                technique=c["technique"],
            )
        )
    man = dict(
        version=1,
        setup_cmd="cd /verif && ./setup.sh",
        hooks=dict(
            guard="COGENT3_VERIF",
            enable="no source hooks are needed: every observation point is reached from the harness process (public API, module constants, audit hooks)",
            baseline_off_cmd="cd /repo && /venv/bin/python -m pytest -ra -q -p no:cacheprovider --timeout=900 --continue-on-collection-errors",
            source_commits=[],
            add_only=True,
        ),
        engines=[
            dict(
                name="lean4+correspondence",
                path="/verif/check",
                serves_properties=[c["property_id"] for c in checks],
                kind_free_text="Lean 4 (lake project /verif/lean: models, specs, property theorems, native drivers) + Python differential harness (/verif/harness) run with /venv/bin/python against /repo/src",
            )
        ],
        checks=checks,
        notes="Fix commits in /repo are listed in known_findings.json (status=fixed). See DESIGN.md.",
        not_applicable=[dict(property_id=p, reason=NOT_YET) for p in ALL if p not in CLAIMED],
    )
    (HERE / "MANIFEST.json").write_text(json.dumps(man, indent=1) + "\n")


if __name__ == "__main__":
    main()
