"""Python -> Lean translator for the optimiser wrapper stack of cogent3 (C16).

On every run this re-reads, with ``ast`` only (nothing of cogent3 is imported or executed),

    maths/optimisers.py            limited_use (wrapped_f, get_best), bounded_function (_wrapper),
                                   bounds_exception_catching_function (_wrapper), maximise
    recalculation/calculation.py   Calculator.optimise
    recalculation/scope.py         ParameterController.optimise

and emits ``lean/CogentModel/Gen/C16Opt.lean``: one Lean ``do`` block per function, in the monad ``PM`` of
``Model/OptGenPrelude.lean`` (mutable state that survives a raise, exceptions, try/except, try/finally).
The output is a pure function of the source text, so an unchanged source gives a byte-identical file.
``Props/C16Gen.lean`` proves every generated definition equal to the hand model ``Model/Optimiser.lean`` /
``Model/OptimiserLf.lean`` for ALL arguments, so a semantic edit of one of these functions breaks a proof.

Supported fragment (anything else is a *translation problem*, never skipped):
  * statements: assignment (names, tuple targets, closure cells ``cell[0]``, ``x[mask] = v``, ``self.optimised``),
    ``cell[0] += e``, ``if/elif/else``, ``try/except (A, B) as e/finally``, ``raise E(...) [from e]``, ``return``,
    ``pass``, expression statements that are calls, nested function definitions of the three wrapper factories,
    the keyword forwarding loop ``for n in [<names>]: kw[n] = locals()[n]`` (evaluated statically);
  * expressions: names, ``None/True/False``, ``numpy.inf`` / ``-numpy.inf`` (typed by context), ``is None`` /
    ``is not None``, ``and/or/not`` (Python truthiness of bool / Optional[bool]), ``>=`` / ``>`` between an evaluation count and
    the limit, ``> >= < <=`` between floats, ``==`` between strings, ``numpy.all(numpy.logical_and(a <= b, c <= d))``,
    masks ``a > b`` / ``a < b``, ``a[mask]``, ``numpy.allclose/isfinite/isneginf/atleast_1d/squeeze/array``,
    ``x.copy()``, ``x.shape != ()``, calls of the wrapped objective, of ``get_best``, of the factories, of ``maximise``,
    of ``<optimiser>.maximise(f, x, ...)`` (an adversary: a list of query points), ``lc.optimise(**kw)``,
    ``self.make_calculator()``, ``self.update_from_calculator(lc)``, ``kw.pop(name, default)``, ``detail.args[0]``.

Conventions (stated in the generated header as well):
  B1 names that only feed progress display, check-pointing, tolerances, message texts or exception arguments other
     than ``MaximumEvaluationsReached(n)`` are dead for the model: their (side-effect free) assignments are dropped.
     The test is syntactic: every load of the name sits in such a position or in the right-hand side of another
     dropped assignment;
  B2 ``numpy.array(v, float)`` / ``numpy.array(v)`` / ``v.copy()`` are the identity on array values;
  B3 a ``None`` used where an array is required raises ``TypeError`` (= ``Exc.fatal``) at the point where it is bound;
  B4 a local that is first assigned inside an ``if``/``try`` block and read after it is declared before the block with
     a placeholder (``PyF.nan`` / ``0``); Python would raise ``UnboundLocalError`` on a path that skips the assignment;
  B5 ``warnings.warn(...)`` only increments the state's ``warned`` counter.
"""
from __future__ import annotations

import ast
from pathlib import Path


class TranslationError(Exception):
    pass


LEAN_TY = {
    "X": "X", "OptX": "Option X", "Nat": "Nat", "OptNat": "Option Nat", "NatInf": "NatInf", "Bool": "Bool",
    "OptBool": "Option Bool", "PyF": "PyF Y", "Fn": "X → PM X Y (PyF Y)", "Str": "String",
    "Bounds": "Option (Option X × Option X)", "GetBest": "PM X Y (PyF Y × Option X × Nat)", "Exc": "Exc",
    "OptKind": "OptKind", "Unit": "Unit", "MaxRet": "X × Option Nat",
}
PLACEHOLDER = {"PyF": "PyF.nan", "Nat": "0", "Bool": "false", "OptKind": "OptKind.local_"}
RENAME = {"local": "local_", "end": "end_", "from": "from_", "at": "at_", "open": "open_", "fun": "fun_"}
EXC = {"ValueError": "valueError", "ArithmeticError": "arith", "ParameterOutOfBoundsError": "oob",
       "MaximumEvaluationsReached": "maxEvals"}
EXC_KIND = {"ArithmeticError": "ExcK.arith", "ParameterOutOfBoundsError": "ExcK.oob",
            "MaximumEvaluationsReached": "ExcK.maxEvals", "ValueError": "ExcK.valueError"}

# ---- per function: Lean name, Lean parameters (python name, type), python names typed, return type ---------------
SPECS = {
    "limited_use.wrapped_f": dict(
        lean="limited_use.wrapped_f", outer=[("f", "Fn"), ("max_evaluations", "OptNat")], params=[("x", "X")],
        locals={"fval": "PyF"}, ret="PyF"),
    "limited_use.get_best": dict(
        lean="limited_use.get_best", outer=[("f", "Fn"), ("max_evaluations", "OptNat")], params=[], locals={},
        ret="GetBestT"),
    "bounded_function._wrapper": dict(
        lean="bounded_function._wrapper", outer=[("f", "Fn"), ("lower_bounds", "X"), ("upper_bounds", "X")],
        params=[("x", "X")], locals={}, ret="PyF"),
    "bounds_exception_catching_function._wrapper": dict(
        lean="bounds_exception_catching_function._wrapper", outer=[("f", "Fn")], params=[("x", "X")],
        locals={"result": "PyF", "out_of_bounds_value": "PyF"}, ret="PyF"),
    "maximise": dict(
        lean="maximise", outer=[],
        params=[("f", "Fn"), ("xinit", "X"), ("bounds", "Bounds"), ("local", "OptBool"), ("max_evaluations", "OptNat"),
                ("return_eval_count", "Bool"), ("warn", "Bool")],
        locals={"x": "X", "fval": "PyF", "upper": "OptX", "lower": "OptX", "evals": "Nat", "do_global": "Bool",
                "do_local": "Bool", "multidimensional_input": "Bool", "opt": "OptKind", "get_best": "GetBest"},
        ret="MaxRet"),
    "Calculator.optimise": dict(
        lean="Calculator.optimise", outer=[], params=[("local", "OptBool"), ("max_evaluations", "OptNat")],
        locals={"x": "X", "low": "X", "high": "X"}, ret="Unit", kw_keys=["local", "max_evaluations"]),
    "ParameterController.optimise": dict(
        lean="ParameterController.optimise", outer=[],
        params=[("local", "OptBool"), ("limit_action", "Str"), ("max_evaluations", "OptNat"),
                ("kw_return_calculator", "OptBool")],
        locals={"return_calculator": "Bool"}, ret="RetCalc"),
}
FACTORY_CELLS = {"limited_use": {"evals": "Nat", "best_fval": "PyF", "best_x": "OptX"}}
PURE_CALLS = {"unsteadyProgressIndicator"}


def _is_numpy(node, name=None):
    return (isinstance(node, ast.Attribute) and isinstance(node.value, ast.Name) and node.value.id == "numpy"
            and (name is None or node.attr == name))


def _src(node):
    try:
        return ast.unparse(node)
    except Exception:
        return type(node).__name__


class FnTranslator:
    def __init__(self, key, fn, spec, mod_info, factory_consts=None, factory_pre=None, cells=None):
        self.key = key
        self.fn = fn
        self.spec = spec
        self.mod = mod_info
        self.cells = cells or {}
        self.consts = factory_consts or {}  # name -> ast expr (aliases / constants of the enclosing factory)
        self.pre = factory_pre or []  # statements of the factory to replay at the top (parameter normalisation)
        self.types = {}
        for n, t in spec["outer"] + spec["params"]:
            self.types[n] = t
        self.types.update(spec["locals"])
        self.declared = set(n for n, _ in spec["outer"] + spec["params"])
        self.order = [n for n, _ in spec["outer"] + spec["params"]]
        self.pieces = []
        self.mut = set()
        self.fwd = None  # names forwarded through kw (ParameterController.optimise)
        self.tmp = 0
        self.parents = {}
        for stmt in self.pre + list(fn.body):
            for node in ast.walk(stmt):
                for ch in ast.iter_child_nodes(node):
                    self.parents[id(ch)] = node
        self.body = self.pre + [s for s in fn.body if not self._is_doc(s)]
        self.opt_kind = {}
        self._analyse()

    # ------------------------------------------------------------------ analysis
    @staticmethod
    def _is_doc(s):
        return isinstance(s, ast.Expr) and isinstance(s.value, ast.Constant) and isinstance(s.value.value, str)

    def err(self, node, msg):
        raise TranslationError(f"{self.key} line {getattr(node, 'lineno', '?')}: {msg}: `{_src(node)[:90]}`")

    def _walk_no_nested(self, stmts):
        stack = list(stmts)
        while stack:
            n = stack.pop()
            yield n
            for ch in ast.iter_child_nodes(n):
                if isinstance(ch, (ast.FunctionDef, ast.Lambda, ast.ClassDef)):
                    continue
                stack.append(ch)

    def _ignored_roots(self):
        """sub-trees whose name loads do not count as uses (B1)"""
        roots = []
        for n in self._walk_no_nested(self.body):
            if isinstance(n, ast.Call):
                f = n.func
                if isinstance(f, ast.Attribute) and f.attr == "maximise" and isinstance(f.value, ast.Name):
                    roots += n.args[2:] + [k.value for k in n.keywords]
                elif isinstance(f, ast.Name) and f.id in ("GlobalOptimiser", "LocalOptimiser"):
                    roots += n.args + [k.value for k in n.keywords]
                elif isinstance(f, ast.Attribute) and f.attr == "warn" and isinstance(f.value, ast.Name) \
                        and f.value.id == "warnings":
                    roots += n.args + [k.value for k in n.keywords]
                elif isinstance(f, ast.Name) and self.types.get(f.id) == "Fn":
                    roots += [k.value for k in n.keywords if k.arg is None]  # **kw
            elif isinstance(n, ast.Raise):
                if n.cause is not None:
                    roots.append(n.cause)
                if isinstance(n.exc, ast.Call):
                    nm = n.exc.func.id if isinstance(n.exc.func, ast.Name) else None
                    if nm != "MaximumEvaluationsReached":
                        roots += n.exc.args + [k.value for k in n.exc.keywords]
        return roots

    def _pure(self, e):
        for n in ast.walk(e):
            if isinstance(n, ast.Call):
                f = n.func
                if isinstance(f, ast.Name) and f.id in PURE_CALLS:
                    continue
                if _is_numpy(f):
                    continue
                return False
            if isinstance(n, (ast.Await, ast.Yield, ast.YieldFrom, ast.NamedExpr, ast.Lambda)):
                return False
        return True

    def _analyse(self):
        ignored = set()
        for r in self._ignored_roots():
            for n in ast.walk(r):
                ignored.add(id(n))
        assigns = []  # (stmt, [target names])
        for n in self._walk_no_nested(self.body):
            if isinstance(n, ast.Assign) and all(isinstance(t, ast.Name) for t in n.targets):
                assigns.append((n, [t.id for t in n.targets]))
        loads = {}
        for n in self._walk_no_nested(self.body):
            if isinstance(n, ast.Name) and isinstance(n.ctx, ast.Load):
                loads.setdefault(n.id, []).append(n)
        # names whose handler binding `except E as name` counts as a definition
        dead = set()
        changed = True
        while changed:
            changed = False
            dead_rhs = set()
            for st, names in assigns:
                if all(nm in dead for nm in names):
                    for n in ast.walk(st.value):
                        dead_rhs.add(id(n))
            cand = set(nm for _, names in assigns for nm in names)
            for nm in cand:
                if nm in dead or nm in self.cells:
                    continue
                if any(nm == p for p, _ in self.spec["outer"] + self.spec["params"]):
                    continue
                if nm in self.spec["locals"]:
                    continue
                if all(id(l) in ignored or id(l) in dead_rhs for l in loads.get(nm, [])):
                    # every assignment of it must be side-effect free
                    if all(self._pure(st.value) for st, names in assigns if nm in names):
                        dead.add(nm)
                        changed = True
        self.dead = dead
        self.ignored = ignored
        # B4: hoisting
        self.hoist = []
        first = {}
        for n in self._ordered(self.body):
            if isinstance(n, ast.Name) and isinstance(n.ctx, ast.Store) and n.id not in first:
                first[n.id] = n
        for nm, node in first.items():
            if nm in self.declared or nm in dead or nm in self.cells:
                continue
            top = self._outer_compound(node)
            if top is None:
                continue
            inside = set(id(x) for x in ast.walk(top))
            if any(id(l) not in inside and id(l) not in ignored for l in loads.get(nm, [])):
                self.hoist.append(nm)
        self.assigned = set(first)

    def _ordered(self, stmts):
        for s in stmts:
            if isinstance(s, (ast.FunctionDef, ast.ClassDef)):
                continue
            yield from self._ordered_node(s)

    def _ordered_node(self, n):
        yield n
        for ch in ast.iter_child_nodes(n):
            if isinstance(ch, (ast.FunctionDef, ast.Lambda, ast.ClassDef)):
                continue
            yield from self._ordered_node(ch)

    def _outer_compound(self, node):
        top = None
        cur = node
        while id(cur) in self.parents:
            cur = self.parents[id(cur)]
            if isinstance(cur, (ast.If, ast.Try, ast.For, ast.While, ast.With)):
                return cur  # innermost enclosing compound statement
        return top

    def _assigned_names(self, stmts):
        out = []
        for n in self._ordered(stmts):
            if isinstance(n, ast.Name) and isinstance(n.ctx, ast.Store) and n.id not in out and n.id not in self.dead:
                out.append(n.id)
            if isinstance(n, ast.Subscript) and isinstance(n.ctx, ast.Store) and isinstance(n.value, ast.Name) \
                    and n.value.id not in self.cells and n.value.id not in out and n.value.id != "kw":
                out.append(n.value.id)
        return out

    # ------------------------------------------------------------------ names / types
    def nm(self, n):
        return RENAME.get(n, n)

    def ty(self, name, node=None):
        if name in self.types:
            return self.types[name]
        self.err(node, f"no type known for name `{name}`")

    def fresh(self, base):
        self.tmp += 1
        return f"{base}__{self.tmp}"

    def coerce(self, text, have, want, node):
        if want is None or have == want:
            return text
        if have == "X" and want == "OptX":
            return f"(some {text})"
        if have == "OptX" and want == "X":
            return f"(← unwrapX {text})"  # B3
        if have == "Bool" and want == "OptBool":
            return f"(some {text})"
        if have == "Nat" and want == "OptNat":
            return f"(some {text})"
        self.err(node, f"type {have} where {want} is required")

    # ------------------------------------------------------------------ expressions
    def truthy(self, node, lam=None):
        t, ty = self.expr(node, lam=lam)
        if ty == "Bool":
            return t
        if ty == "OptBool":
            return f"(truthyOB {t})"
        self.err(node, f"truthiness of a value of type {ty}")

    def mask_all(self, node):
        """numpy.all(<mask expression>) as a Lean Bool"""
        if isinstance(node, ast.Call) and _is_numpy(node.func, "logical_and") and len(node.args) == 2 and not node.keywords:
            return f"({self.mask_all(node.args[0])} && {self.mask_all(node.args[1])})"
        if isinstance(node, ast.Compare) and len(node.ops) == 1:
            a, ta = self.expr(node.left)
            b, tb = self.expr(node.comparators[0])
            a, b = self.coerce(a, ta, "X", node), self.coerce(b, tb, "X", node)
            op = node.ops[0]
            if isinstance(op, ast.LtE):
                return f"env.vle {a} {b}"
            if isinstance(op, ast.GtE):
                return f"env.vle {b} {a}"
        self.err(node, "unsupported mask under numpy.all")

    def expr(self, node, want=None, lam=None):
        """-> (lean text, type).  `lam`: name of the state variable inside a `modifySt fun s => ...` body"""
        if isinstance(node, ast.Name):
            if node.id in self.consts:
                return self.expr(self.consts[node.id], want=want, lam=lam)
            if node.id in self.dead:
                self.err(node, "a name treated as dead (B1) is used")
            return self.nm(node.id), self.ty(node.id, node)
        if isinstance(node, ast.Constant):
            v = node.value
            if v is None:
                if want in ("OptX", "OptNat", "OptBool", "Bounds"):
                    return "none", want
                self.err(node, "None without an optional type in context")
            if v is True or v is False:
                return ("true" if v else "false"), "Bool"
            if isinstance(v, int):
                return str(v), "Nat"
            if isinstance(v, str):
                return '"' + v.replace("\\", "\\\\").replace('"', '\\"') + '"', "Str"
            self.err(node, "unsupported constant")
        if _is_numpy(node, "inf"):
            if want == "NatInf":
                return "NatInf.inf", "NatInf"
            if want in ("X", "OptX"):
                return self.coerce("env.posInfX", "X", want, node), want
            self.err(node, f"numpy.inf where a {want} is expected")
        if isinstance(node, ast.UnaryOp) and isinstance(node.op, ast.USub) and _is_numpy(node.operand, "inf"):
            if want == "PyF":
                return "(PyF.val env.negInf)", "PyF"
            if want in ("X", "OptX"):
                return self.coerce("env.negInfX", "X", want, node), want
            self.err(node, f"-numpy.inf where a {want} is expected")
        if isinstance(node, ast.UnaryOp) and isinstance(node.op, ast.Not):
            return f"(!{self.truthy(node.operand, lam)})", "Bool"
        if isinstance(node, ast.BoolOp):
            op = " && " if isinstance(node.op, ast.And) else " || "
            return "(" + op.join(self.truthy(v, lam) for v in node.values) + ")", "Bool"
        if isinstance(node, ast.Subscript):
            v = node.value
            if isinstance(v, ast.Name) and v.id in self.cells:
                if not (isinstance(node.slice, ast.Constant) and node.slice.value == 0):
                    self.err(node, "closure cell indexed by something else than 0")
                return (f"{lam}.{v.id}" if lam else f"(← getSt).{v.id}"), self.cells[v.id]
            if isinstance(v, ast.Attribute) and v.attr == "args" and isinstance(v.value, ast.Name) \
                    and self.types.get(v.value.id) == "Exc" and isinstance(node.slice, ast.Constant) and node.slice.value == 0:
                return f"(Exc.arg0 {self.nm(v.value.id)})", "Nat"
            a, ta = self.expr(v, lam=lam)
            if ta == "X":
                m, tm = self.expr(node.slice, lam=lam)
                if tm == "Mask":
                    return f"(env.sel {a} {m})", "X"
            self.err(node, "unsupported subscript")
        if isinstance(node, ast.Compare) and len(node.ops) == 1:
            op, l, r = node.ops[0], node.left, node.comparators[0]
            if isinstance(op, (ast.Is, ast.IsNot)) and isinstance(r, ast.Constant) and r.value is None:
                a, ta = self.expr(l, lam=lam)
                if not ta.startswith("Opt") and ta != "Bounds":
                    self.err(node, f"`is None` test on a value of type {ta}")
                return f"{a}.{'isNone' if isinstance(op, ast.Is) else 'isSome'}", "Bool"
            if isinstance(op, ast.NotEq) and isinstance(l, ast.Attribute) and l.attr == "shape" \
                    and isinstance(r, ast.Tuple) and not r.elts:
                a, ta = self.expr(l.value, lam=lam)
                return f"(env.multi {self.coerce(a, ta, 'X', node)})", "Bool"
            a, ta = self.expr(l, lam=lam)
            b, tb = self.expr(r, lam=lam)
            if isinstance(op, ast.GtE) and ta == "Nat" and tb == "NatInf":
                return f"(natGe {a} {b})", "Bool"
            if ta == "PyF" and tb == "PyF" and isinstance(op, (ast.Gt, ast.GtE, ast.Lt, ast.LtE)):
                fn_ = "pyGt" if isinstance(op, (ast.Gt, ast.Lt)) else "pyGe"
                if isinstance(op, (ast.Lt, ast.LtE)):
                    a, b = b, a
                return f"({fn_} env {a} {b})", "Bool"
            if ta == "Nat" and tb == "NatInf" and isinstance(op, ast.Gt):
                return f"(natGt {a} {b})", "Bool"
            if isinstance(op, ast.Eq) and ta == "Str" and tb == "Str":
                return f"({a} == {b})", "Bool"
            if ta == "X" and tb == "X":
                if isinstance(op, ast.Gt):
                    return f"(env.maskGt {a} {b})", "Mask"
                if isinstance(op, ast.Lt):
                    return f"(env.maskLt {a} {b})", "Mask"
            self.err(node, f"unsupported comparison between {ta} and {tb}")
        if isinstance(node, ast.Tuple):
            if want == "Bounds" and len(node.elts) == 2:
                parts = []
                for e in node.elts:
                    t, ty = self.expr(e, want="OptX", lam=lam)
                    parts.append(self.coerce(t, ty, "OptX", e))
                return f"(some ({parts[0]}, {parts[1]}))", "Bounds"
            parts = [self.expr(e, lam=lam) for e in node.elts]
            return "(" + ", ".join(p[0] for p in parts) + ")", "Tuple:" + ",".join(p[1] for p in parts)
        if isinstance(node, ast.Call):
            return self.call(node, want, lam)
        self.err(node, "unsupported expression")

    def call(self, node, want, lam):
        f = node.func
        if isinstance(f, ast.Name) and f.id in self.consts:
            # alias of a function (e.g. acceptable_inf = numpy.isneginf)
            node2 = ast.Call(func=self.consts[f.id], args=node.args, keywords=node.keywords)
            ast.copy_location(node2, node)
            return self.call(node2, want, lam)
        # wrapped objective
        if isinstance(f, ast.Name) and self.types.get(f.id) == "Fn":
            if lam:
                self.err(node, "call inside a cell update")
            if len(node.args) != 1 or any(k.arg is not None for k in node.keywords):
                self.err(node, "the objective is called with one positional argument (and **kw)")
            a, ta = self.expr(node.args[0])
            return f"(← {self.nm(f.id)} {self.coerce(a, ta, 'X', node)})", "PyF"
        if isinstance(f, ast.Name) and self.types.get(f.id) == "GetBest":
            if node.args or node.keywords:
                self.err(node, "get_best takes no argument")
            return f"(← {self.nm(f.id)})", "Tuple:PyF,OptX,Nat"
        if isinstance(f, ast.Attribute) and f.attr == "copy" and not node.args and not node.keywords:
            return self.expr(f.value, want=want, lam=lam)  # B2
        if _is_numpy(f):
            nm = f.attr
            if nm == "array" and node.args and all(k.arg == "dtype" for k in node.keywords):
                if len(node.args) == 2 and not (isinstance(node.args[1], ast.Name) and node.args[1].id == "float"):
                    self.err(node, "numpy.array with a dtype other than float")
                return self.expr(node.args[0], want=want, lam=lam)  # B2
            if nm in ("isfinite", "isneginf") and len(node.args) == 1 and not node.keywords:
                a, ta = self.expr(node.args[0], lam=lam)
                if ta != "PyF":
                    self.err(node, f"numpy.{nm} of a {ta}")
                return f"({'pyIsFinite' if nm == 'isfinite' else 'pyIsNegInf'} env {a})", "Bool"
            if nm == "all" and len(node.args) == 1 and not node.keywords:
                return "(" + self.mask_all(node.args[0]) + ")", "Bool"
            if nm == "allclose" and len(node.args) == 2 and not node.keywords:
                a, ta = self.expr(node.args[0], lam=lam)
                b, tb = self.expr(node.args[1], lam=lam)
                if ta != "X" or tb != "X":
                    self.err(node, "numpy.allclose of non-arrays")
                return f"(env.allclose {a} {b})", "Bool"
            if nm in ("atleast_1d", "squeeze") and len(node.args) == 1 and not node.keywords:
                a, ta = self.expr(node.args[0], lam=lam)
                a = self.coerce(a, ta, "X", node)
                return f"(env.{'atleast1d' if nm == 'atleast_1d' else 'squeeze'} {a})", "X"
            self.err(node, "unsupported numpy call")
        if isinstance(f, ast.Attribute) and isinstance(f.value, ast.Name) and f.value.id == "self":
            if f.attr == "get_value_array" and not node.args and not node.keywords:
                return "env.valueArray", "X"
            if f.attr == "get_bounds_vectors" and not node.args and not node.keywords:
                return "(env.boundsLow, env.boundsHigh)", "Tuple:X,X"
            if f.attr == "make_calculator" and not node.args and not node.keywords:
                return "()", "Calc"
            if f.attr == "update_from_calculator" and len(node.args) == 1 and self._is_calc(node.args[0]):
                return "(← updateFromCalculator)", "Unit"
            self.err(node, "unsupported method of self")
        if isinstance(f, ast.Attribute) and f.attr == "optimise" and isinstance(f.value, ast.Name) \
                and self.types.get(f.value.id) == "Calc":
            if node.args or len(node.keywords) != 1 or node.keywords[0].arg is not None \
                    or not (isinstance(node.keywords[0].value, ast.Name) and node.keywords[0].value.id == "kw"):
                self.err(node, "the calculator's optimise is called as lc.optimise(**kw)")
            if self.fwd is None:
                self.err(node, "keyword forwarding loop not seen before lc.optimise(**kw)")
            args = []
            for key, ty in SPECS["Calculator.optimise"]["params"]:
                if key in self.fwd:
                    a, ta = self.expr(ast.Name(id=key, ctx=ast.Load()))
                    args.append(self.coerce(a, ta, ty, node))
                else:
                    args.append(self.mod["maximise_default"](key, ty))
            return f"(← Calculator.optimise env {' '.join(args)})", "Unit"
        if isinstance(f, ast.Attribute) and f.attr == "maximise" and isinstance(f.value, ast.Name) \
                and self.types.get(f.value.id) == "OptKind":
            if len(node.args) < 2:
                self.err(node, "optimiser.maximise(f, x, ...) expected")
            fn_, tf = self.expr(node.args[0])
            x_, tx = self.expr(node.args[1])
            if tf != "Fn":
                self.err(node, "first argument of optimiser.maximise is not the wrapped objective")
            return f"(← runOpt {self.nm(f.value.id)} env {fn_} {self.coerce(x_, tx, 'X', node)})", "X"
        if isinstance(f, ast.Name) and f.id in ("GlobalOptimiser", "LocalOptimiser"):
            return ("OptKind.global_" if f.id == "GlobalOptimiser" else "OptKind.local_"), "OptKind"
        if isinstance(f, ast.Name) and f.id == "maximise":
            return self.call_maximise(node)
        if isinstance(f, ast.Name) and f.id == "bounded_function":
            sig = self.mod["factory_sig"]("bounded_function")
            b = self.bind_args(node, sig, {})
            fx, tf = self.expr(b["f"])
            lo, tl = self.expr(b["lower_bounds"], want="X")
            hi, th = self.expr(b["upper_bounds"], want="X")
            if tf != "Fn":
                self.err(node, "bounded_function of a non-function")
            return (f"(bounded_function._wrapper env {fx} {self.coerce(lo, tl, 'X', node)} "
                    f"{self.coerce(hi, th, 'X', node)})"), "Fn"
        if isinstance(f, ast.Name) and f.id == "bounds_exception_catching_function":
            sig = self.mod["factory_sig"]("bounds_exception_catching_function")
            b = self.bind_args(node, sig, {})
            fx, tf = self.expr(b["f"])
            if tf != "Fn":
                self.err(node, "bounds_exception_catching_function of a non-function")
            return f"(bounds_exception_catching_function._wrapper env {fx})", "Fn"
        if isinstance(f, ast.Attribute) and f.attr == "pop" and isinstance(f.value, ast.Name) and f.value.id == "kw" \
                and len(node.args) == 2 and isinstance(node.args[0], ast.Constant) and not node.keywords:
            key = node.args[0].value
            if ("kw_" + str(key), "OptBool") not in self.spec["params"]:
                self.err(node, "kw.pop of an unknown key")
            d, td = self.expr(node.args[1])
            if td != "Bool":
                self.err(node, "kw.pop default is not a bool")
            return f"(kw_{key}.getD {d})", "Bool"
        self.err(node, "unsupported call")

    def _is_calc(self, n):
        return isinstance(n, ast.Name) and self.types.get(n.id) == "Calc"

    def bind_args(self, call, sig, defaults):
        """python argument binding against a signature [(name, default ast or None)]"""
        names = [n for n, _ in sig]
        out = {}
        if len(call.args) > len(names):
            self.err(call, "too many positional arguments")
        for n, a in zip(names, call.args):
            if isinstance(a, ast.Starred):
                self.err(call, "starred argument")
            out[n] = a
        for k in call.keywords:
            if k.arg is None:
                continue
            if k.arg not in names or k.arg in out:
                self.err(call, f"bad keyword {k.arg}")
            out[k.arg] = k.value
        for n, d in sig:
            if n not in out:
                if d is None and n not in defaults:
                    self.err(call, f"argument {n} missing")
                out[n] = defaults.get(n, d)
        return out

    def call_maximise(self, node):
        sig = self.mod["maximise_sig"]
        star_kw = [k for k in node.keywords if k.arg is None]
        for k in star_kw:
            if not (isinstance(k.value, ast.Name) and k.value.id == "kw"):
                self.err(node, "unsupported ** argument")
        b = self.bind_args(node, sig, {})
        args = []
        for key, ty in SPECS["maximise"]["params"]:
            a = b[key]
            supplied = any(a is x for x in node.args) or any(a is k.value for k in node.keywords)
            if not supplied and star_kw and key in self.spec.get("kw_keys", []):
                t, th = self.expr(ast.Name(id=key, ctx=ast.Load()))
                args.append(self.coerce(t, th, ty, node))
                continue
            if key == "f":
                if isinstance(a, ast.Name) and a.id == "self":
                    args.append("(callObj env)")
                    continue
                t, th = self.expr(a)
                if th != "Fn":
                    self.err(node, "maximise of a non-function")
                args.append(t)
                continue
            t, th = self.expr(a, want=ty)
            args.append(self.coerce(t, th, ty, node))
        return f"(← maximise env {' '.join(args)})", "MaxRet"

    # ------------------------------------------------------------------ statements
    def decl(self, name, text, ty, node, monadic=False):
        """assignment to a python local"""
        self.types.setdefault(name, ty)
        want = self.types[name]
        if want == "GetBest" or ty == "Fn" or want == "Fn":
            pass
        text = self.coerce(text, ty, want, node) if not ty.startswith("Tuple") else text
        n = self.nm(name)
        if name in self.declared:
            return f"{n} := {text}"
        self.declared.add(name)
        if name not in self.order:
            self.order.append(name)
        return f"let mut {n} := {text}"

    def stmts(self, body, ind):
        out = []
        for s in body:
            out += self.stmt(s, ind)
        if not out:
            out = [ind + "pure ()"]
        return out

    def stmt(self, s, ind):
        if self._is_doc(s) or isinstance(s, (ast.FunctionDef,)):
            return []
        if isinstance(s, ast.Pass):
            return [ind + "pure ()"]
        if isinstance(s, ast.Assign):
            return self.assign(s, ind)
        if isinstance(s, ast.AugAssign):
            t = s.target
            if isinstance(t, ast.Subscript) and isinstance(t.value, ast.Name) and t.value.id in self.cells \
                    and isinstance(t.slice, ast.Constant) and t.slice.value == 0 and isinstance(s.op, ast.Add):
                v, tv = self.expr(s.value, lam="s")
                if tv != self.cells[t.value.id] or tv != "Nat":
                    self.err(s, "augmented assignment to a non-counter cell")
                c = t.value.id
                return [ind + f"modifySt fun s => {{ s with {c} := s.{c} + {v} }}"]
            self.err(s, "unsupported augmented assignment")
        if isinstance(s, ast.If):
            c = self.truthy(s.test)
            out = [ind + f"if {c} then"] + self.stmts(s.body, ind + "  ")
            if s.orelse:
                out += [ind + "else"] + self.stmts(s.orelse, ind + "  ")
            return out
        if isinstance(s, ast.Raise):
            return [ind + self.raise_(s)]
        if isinstance(s, ast.Return):
            return [ind + self.ret(s)]
        if isinstance(s, ast.Expr):
            v = s.value
            if isinstance(v, ast.Call) and isinstance(v.func, ast.Attribute) and v.func.attr == "warn" \
                    and isinstance(v.func.value, ast.Name) and v.func.value.id == "warnings":
                return [ind + "pyWarn"]  # B5
            if isinstance(v, ast.Call):
                t, ty = self.expr(v)
                if t.startswith("(← ") and t.endswith(")"):
                    inner = t[3:-1]
                    return [ind + (inner if ty == "Unit" else f"let _ ← {inner}")]
                self.err(s, "expression statement without effect in the model")
            self.err(s, "unsupported expression statement")
        if isinstance(s, ast.Try):
            return self.try_(s, ind)
        if isinstance(s, ast.For):
            return self.for_(s, ind)
        self.err(s, f"unsupported statement {type(s).__name__}")

    def for_(self, s, ind):
        ok = (isinstance(s.target, ast.Name) and isinstance(s.iter, ast.List)
              and all(isinstance(e, ast.Constant) and isinstance(e.value, str) for e in s.iter.elts)
              and len(s.body) == 1 and not s.orelse and isinstance(s.body[0], ast.Assign))
        if ok:
            a = s.body[0]
            t = a.targets[0]
            v = a.value
            n = s.target.id
            ok = (len(a.targets) == 1 and isinstance(t, ast.Subscript) and isinstance(t.value, ast.Name)
                  and t.value.id == "kw" and isinstance(t.slice, ast.Name) and t.slice.id == n
                  and isinstance(v, ast.Subscript) and isinstance(v.value, ast.Call)
                  and isinstance(v.value.func, ast.Name) and v.value.func.id == "locals" and not v.value.args
                  and isinstance(v.slice, ast.Name) and v.slice.id == n)
        if not ok:
            self.err(s, "only the keyword forwarding loop `for n in [...]: kw[n] = locals()[n]` is supported")
        self.fwd = [e.value for e in s.iter.elts]
        return [ind + "-- kw forwards: " + ", ".join(self.fwd)]

    def assign(self, s, ind):
        if len(s.targets) != 1:
            self.err(s, "chained assignment")
        t = s.targets[0]
        if isinstance(t, ast.Name):
            if t.id in self.dead:
                return []
            if t.id in self.cells:
                self.err(s, "closure cell rebound")
            # `opt = GlobalOptimiser(...)`
            v, tv = self.expr(s.value, want=self.types.get(t.id))
            if tv == "Calc":
                self.types[t.id] = "Calc"
                return [ind + f"-- {t.id} = self.make_calculator()"]
            if tv.startswith("Tuple"):
                self.err(s, "tuple bound to one name")
            return [ind + self.decl(t.id, v, tv, s)]
        if isinstance(t, ast.Tuple) and all(isinstance(e, ast.Name) for e in t.elts):
            names = [e.id for e in t.elts]
            v = s.value
            # (get_best, f) = limited_use(f, max_evaluations)
            if isinstance(v, ast.Call) and isinstance(v.func, ast.Name) and v.func.id == "limited_use":
                sig = self.mod["factory_sig"]("limited_use")
                b = self.bind_args(v, sig, {})
                fx, tf = self.expr(b["f"])
                mx, tm = self.expr(b["max_evaluations"], want="OptNat")
                if tf != "Fn" or tm != "OptNat":
                    self.err(s, "limited_use(f, max_evaluations) with unexpected argument types")
                ret = self.mod["limited_use_returns"]
                if len(ret) != len(names):
                    self.err(s, "limited_use returns a tuple of another length")
                out = [ind + "limited_use.init env"]
                lines = {}
                for nm_, r in zip(names, ret):
                    if r == "get_best":
                        self.types[nm_] = "GetBest"
                        lines[nm_] = (0, self.decl(nm_, f"limited_use.get_best env {fx} {mx}", "GetBest", s))
                    elif r == "wrapped_f":
                        lines[nm_] = (1, self.decl(nm_, f"limited_use.wrapped_f env {fx} {mx}", "Fn", s))
                    else:
                        self.err(s, "limited_use returns something else than its two closures")
                # the right-hand side is evaluated before any target is bound: closures over the OLD f first
                for _, l in sorted(lines.values()):
                    out.append(ind + l)
                return out
            val, tv = self.expr(v)
            if tv == "Bounds":  # unpacking None raises TypeError (B3)
                val, tv = f"(← unwrapO {val})", "Tuple:OptX,OptX"
            if not tv.startswith("Tuple:"):
                self.err(s, f"tuple assignment from a value of type {tv}")
            tys = tv[6:].split(",")
            if len(tys) != len(names):
                self.err(s, "tuple assignment of another length")
            tmp = self.fresh("t")
            out = [ind + f"let {tmp} := {val}"]
            projs = [".1", ".2"] if len(names) == 2 else [".1", ".2.1", ".2.2"]
            if len(names) not in (2, 3):
                self.err(s, "tuple assignment of length other than 2 or 3")
            later = self._loads_after(s)
            for nm_, ty, pr in zip(names, tys, projs):
                if nm_ in self.dead or nm_ not in later:
                    continue  # value never read again
                out.append(ind + self.decl(nm_, tmp + pr, ty, s))
            return out
        if isinstance(t, ast.Subscript) and isinstance(t.value, ast.Name):
            c = t.value.id
            if c in self.cells:
                if not (isinstance(t.slice, ast.Constant) and t.slice.value == 0):
                    self.err(s, "closure cell indexed by something else than 0")
                v, tv = self.expr(s.value, want=self.cells[c])
                v = self.coerce(v, tv, self.cells[c], s)
                return [ind + f"modifySt fun s => {{ s with {c} := {v} }}"]
            if self.types.get(c) == "X":
                m, tm = self.expr(t.slice)
                v, tv = self.expr(s.value)
                if tm != "Mask" or tv != "X":
                    self.err(s, "masked assignment with unexpected types")
                return [ind + f"{self.nm(c)} := env.put {self.nm(c)} {m} {v}"]
        if isinstance(t, ast.Attribute) and isinstance(t.value, ast.Name) and t.value.id == "self" and t.attr == "optimised":
            v, tv = self.expr(s.value)
            if tv != "Bool":
                self.err(s, "self.optimised = non-bool")
            return [ind + f"modifySt fun s => {{ s with optimised := {v} }}"]
        self.err(s, "unsupported assignment target")

    def _loads_after(self, s):
        """names loaded (in a live position) anywhere after statement `s` in source order, or anywhere inside an
        enclosing loop-free function: conservative = every live load located after `s`"""
        after = set()
        seen = False
        for n in self._ordered(self.body):
            if n is s:
                seen = True
                continue
            if seen and isinstance(n, ast.Name) and isinstance(n.ctx, ast.Load) and id(n) not in self.ignored:
                # loads inside s itself come right after s in this order; exclude them
                if any(n is x for x in ast.walk(s)):
                    continue
                after.add(n.id)
        return after

    def raise_(self, s):
        e = s.exc
        if e is None:
            self.err(s, "bare raise")
        name = e.func.id if isinstance(e, ast.Call) and isinstance(e.func, ast.Name) else (e.id if isinstance(e, ast.Name) else None)
        if name is None:
            self.err(s, "unsupported raise")
        if name == "MaximumEvaluationsReached":
            if not (isinstance(e, ast.Call) and len(e.args) == 1):
                self.err(s, "MaximumEvaluationsReached takes the evaluation count")
            a, ta = self.expr(e.args[0])
            if ta != "Nat":
                self.err(s, "MaximumEvaluationsReached of a non-count")
            return f"throw (Exc.maxEvals {a})"
        return f"throw Exc.{EXC.get(name, 'fatal')}"

    def ret(self, s):
        r = self.spec["ret"]
        v = s.value
        if r == "PyF":
            t, ty = self.expr(v)
            if ty != "PyF":
                self.err(s, f"returns a {ty}")
            return f"return {t}"
        if r == "GetBestT":
            t, ty = self.expr(v)
            if ty != "Tuple:PyF,OptX,Nat":
                self.err(s, f"get_best returns {ty}")
            return f"return {t}"
        if r == "MaxRet":
            if isinstance(v, ast.Tuple) and len(v.elts) == 2:
                a, ta = self.expr(v.elts[0])
                b, tb = self.expr(v.elts[1])
                if ta != "X" or tb != "Nat":
                    self.err(s, f"maximise returns ({ta}, {tb})")
                return f"return ({a}, some {b})"
            a, ta = self.expr(v)
            if ta != "X":
                self.err(s, f"maximise returns a {ta}")
            return f"return ({a}, none)"
        if r == "RetCalc":
            if v is None:
                return "return false"
            if self._is_calc(v):
                return "return true"
            self.err(s, "returns something else than the calculator")
        if r == "Unit":
            if v is None:
                return "return ()"
        self.err(s, "unsupported return")

    def handlers(self, s, ind):
        """body of `catch exc__ =>`"""
        out = []
        cur = ind
        for h in s.handlers:
            if h.type is None:
                self.err(h, "bare except")
            names = [e.id for e in h.type.elts] if isinstance(h.type, ast.Tuple) else [h.type.id]
            for n in names:
                if n not in EXC_KIND:
                    self.err(h, f"except clause for {n}")
                if n == "ValueError":
                    pass
            ks = ", ".join(EXC_KIND[n] for n in names)
            out.append(cur + f"if Exc.isA exc__ [{ks}] then")
            if h.name:
                self.types[h.name] = "Exc"
                live = any(isinstance(n, ast.Name) and n.id == h.name and id(n) not in self.ignored
                           and not self._in_dead_assign(n) for st in h.body for n in ast.walk(st))
                if live:
                    out.append(cur + f"  let {self.nm(h.name)} := exc__")
            out += self.stmts(h.body, cur + "  ")
            out.append(cur + "else")
            cur += "  "
        out.append(cur + "throw exc__")
        return out

    def _in_dead_assign(self, n):
        cur = n
        while id(cur) in self.parents:
            cur = self.parents[id(cur)]
            if isinstance(cur, ast.Assign) and all(isinstance(t, ast.Name) and t.id in self.dead for t in cur.targets):
                return True
        return False

    def _unpack(self, tmp, names, ind):
        ls = []
        if not names:
            ls.append(ind + f"let _ := {tmp}")
        elif len(names) == 1:
            ls.append(ind + f"{self.nm(names[0])} := {tmp}")
        else:
            for i, n in enumerate(names):
                pr = ".2" * i + (".1" if i < len(names) - 1 else "")
                ls.append(ind + f"{self.nm(n)} := {tmp}{pr}")
        return ls

    def _block(self, names, outs, emit, ind, saved):
        """a nested `do` block: re-declares the outer variables it assigns, returns the tuple `outs`"""
        self.declared = set(saved)
        lines = [ind + f"let mut {self.nm(n)} := {self.nm(n)}" for n in names if n in saved]
        lines += emit(ind)
        lines.append(ind + "pure (" + ", ".join(self.nm(n) for n in outs) + "))")
        self.declared = set(saved)
        return lines

    def try_(self, s, ind):
        """Lean's own `try/catch/finally` keeps re-assigned variables in a StateT layer that is rolled back in the
        handler and drops assignments made in `finally`; Python does neither.  So every part becomes a nested `do`
        block that returns the variables it assigns."""
        if s.orelse:
            self.err(s, "try/else")
        for part in [s.body, s.finalbody] + [h.body for h in s.handlers]:
            for n in self._ordered(part):
                if isinstance(n, ast.Return):
                    self.err(n, "return inside try/except/finally")
        later = self._loads_after(s)
        saved = set(self.declared)
        i2 = ind + "    "
        if s.finalbody:
            inner = s.body
            if s.handlers:
                t2 = ast.Try(body=s.body, handlers=s.handlers, orelse=[], finalbody=[])
                ast.copy_location(t2, s)
                inner = [t2]
            b_names = self._assigned_names(s.body + [st for h in s.handlers for st in h.body])
            f_names = self._assigned_names(s.finalbody)
            for n in b_names + f_names:
                if n not in saved and n in later:
                    self.err(s, f"{n} is first assigned inside try/finally and used later")
            f_out = [n for n in f_names if n in saved and n in later]
            b_out = [n for n in b_names if n in saved and n in later and n not in f_out]
            if any(isinstance(n, ast.Name) and isinstance(n.ctx, ast.Load) and n.id in b_names and id(n) not in self.ignored
                   for st in s.finalbody for n in ast.walk(st)):
                self.err(s, "the finally block reads a variable assigned in the try block")
            bt, ft = self.fresh("b"), self.fresh("f")
            out = [ind + f"let ({bt}, {ft}) ← pyTryFinally (do"]
            out += self._block(b_names, b_out, lambda i: self.stmts(inner, i), i2, saved)
            out.append(ind + "  (do")
            out += self._block(f_names, f_out, lambda i: self.stmts(s.finalbody, i), i2, saved)
            return out + self._unpack(bt, b_out, ind) + self._unpack(ft, f_out, ind)
        # try / except
        b_names = self._assigned_names(s.body)
        h_names = self._assigned_names([st for h in s.handlers for st in h.body])
        live_after = lambda n: n in later or any(
            isinstance(x, ast.Name) and x.id == n and isinstance(x.ctx, ast.Load) for x in self._enclosing_loads(s))
        outs = [n for n in dict.fromkeys(b_names + h_names) if n in saved and live_after(n)]
        for n in b_names + h_names:
            if n not in saved and n in later:
                self.err(s, f"{n} is first assigned inside try/except and used later")
        for h in s.handlers:
            for n in ast.walk(ast.Module(body=h.body, type_ignores=[])):
                if isinstance(n, ast.Name) and isinstance(n.ctx, ast.Load) and n.id in b_names and id(n) not in self.ignored:
                    self.err(h, f"the handler reads `{n.id}`, which the try block assigns (its value at the raise is not tracked)")
            if not self._always_raises(h.body):
                top = set(self._assigned_names([st for st in h.body if isinstance(st, ast.Assign)]))
                for n in outs:
                    if n in b_names and n not in top:
                        self.err(h, f"`{n}` is assigned in the try block but not by this handler "
                                    "(its value at the raise is not tracked)")
        rt = self.fresh("r")
        out = [ind + f"let {rt} ← tryCatch (do"]
        out += self._block(b_names, outs, lambda i: self.stmts(s.body, i), i2, saved)
        out.append(ind + "  (fun exc__ => do")
        out += self._block(h_names + [n for n in outs if n not in h_names], outs, lambda i: self.handlers(s, i), i2, saved)
        return out + self._unpack(rt, outs, ind)

    def _enclosing_loads(self, s):
        return []

    def _always_raises(self, stmts):
        if not stmts:
            return False
        last = stmts[-1]
        if isinstance(last, ast.Raise):
            return True
        if isinstance(last, ast.If):
            return self._always_raises(last.body) and self._always_raises(last.orelse)
        return False

    # ------------------------------------------------------------------ whole function
    def translate(self):
        spec = self.spec
        params = spec["outer"] + spec["params"]
        sig = " ".join(f"({self.nm(n)} : {LEAN_TY[t]})" for n, t in params)
        ret = {"PyF": "PyF Y", "GetBestT": "PyF Y × Option X × Nat", "MaxRet": "X × Option Nat", "Unit": "Unit",
               "RetCalc": "Bool"}[spec["ret"]]
        head = f"def {spec['lean']} (env : Env X Y) {sig} : PM X Y ({ret}) := do".replace("  ", " ")
        ind = "  "
        lines = []
        # parameters that are re-bound
        pre_only = set()
        for st in self.pre:
            for n_ in ast.walk(st):
                if isinstance(n_, ast.Name) and isinstance(n_.ctx, ast.Store):
                    pre_only.add(n_.id)
        body_assigned = set(self._assigned_names([st for st in self.body if st not in self.pre]))
        for n, t in params:
            if n in body_assigned:
                lines.append(ind + f"let mut {self.nm(n)} := {self.nm(n)}")
        for n in self.hoist:
            t = self.types.get(n)
            if t not in PLACEHOLDER:
                raise TranslationError(f"{self.key}: `{n}` would need a placeholder of type {t} (B4)")
            lines.append(ind + f"let mut {self.nm(n)} : {LEAN_TY[t]} := {PLACEHOLDER[t]}")
            self.declared.add(n)
            self.order.append(n)
        body = []
        for k, s in enumerate(self.body):
            if s in self.pre:
                body += self.pre_stmt(s, ind)
            elif self._outlined(s):
                body += self.outline(s, k, ind)
            else:
                body += self.stmt(s, ind)
        lines += body
        if not self._terminates(self.body):
            lines.append(ind + {"Unit": "return ()", "RetCalc": "return false"}.get(spec["ret"], "") )
            if spec["ret"] not in ("Unit", "RetCalc"):
                raise TranslationError(f"{self.key}: falls off the end without a return")
        return head + "\n" + "\n".join(l for l in lines if l.strip()) + "\n"

    def _outlined(self, s):
        """a top-level if / try statement that re-assigns local variables becomes a definition of its own (Lean's `do`
        would otherwise copy the rest of the function into every branch)"""
        if not isinstance(s, (ast.If, ast.Try)):
            return False
        if any(isinstance(n, ast.Return) for n in self._ordered([s])):
            return False
        return any(n in self.declared for n in self._assigned_names([s]))

    def outline(self, s, k, ind):
        assigned = self._assigned_names([s])
        saved = set(self.declared)
        later = self._loads_after(s)
        loads = set()
        for n in ast.walk(s):
            if isinstance(n, ast.Name) and isinstance(n.ctx, ast.Load) and id(n) not in self.ignored \
                    and n.id not in self.dead and not self._in_dead_assign(n):
                loads.add(n.id)
        ins = [n for n in self.order if n in saved and (n in loads or n in assigned)]
        outs = [n for n in assigned if n in saved and n in later]
        name = f"{self.spec['lean']}.s{k}"
        for n in ins:
            if self.types.get(n) not in LEAN_TY:
                self.err(s, f"`{n}` of type {self.types.get(n)} crosses an outlined statement")
        sig = " ".join(f"({self.nm(n)} : {LEAN_TY[self.types[n]]})" for n in ins)
        ret = " × ".join(f"({LEAN_TY[self.types[n]]})" for n in outs) if outs else "Unit"
        lines = [f"/-- statement {k} of `{self.key}` (line {s.lineno}) -/",
                 f"def {name} (env : Env X Y) {sig} : PM X Y ({ret}) := do"]
        for n in assigned:
            if n in saved:
                lines.append("  " + f"let mut {self.nm(n)} := {self.nm(n)}")
        lines += self.stmt(s, "  ")
        lines.append("  return (" + ", ".join(self.nm(n) for n in outs) + ")")
        self.pieces.append("\n".join(lines) + "\n\n")
        self.declared = set(saved)
        call = f"{name} env " + " ".join(self.nm(n) for n in ins)
        if not outs:
            return [ind + call.rstrip()]
        tmp = self.fresh("s")
        return [ind + f"let {tmp} ← {call}".rstrip()] + self._unpack(tmp, outs, ind)

    def _terminates(self, stmts):
        if not stmts:
            return False
        last = stmts[-1]
        if isinstance(last, (ast.Return, ast.Raise)):
            return True
        if isinstance(last, ast.If):
            return self._terminates(last.body) and self._terminates(last.orelse)
        return False

    def pre_stmt(self, s, ind):
        """`if P is None: P = <expr>` of a factory, replayed at the top of each closure"""
        t = s.test
        p = t.left.id
        a = s.body[0]
        new_ty = {"OptNat": "NatInf"}.get(self.types[p])
        if new_ty is None:
            self.err(s, "parameter normalisation of an unsupported type")
        v, tv = self.expr(a.value, want=new_ty)
        old = self.nm(p)
        self.types[p] = new_ty
        return [ind + f"let {old} : NatInf := optNatOr {old} {v}"]


# ---------------------------------------------------------------------------------------------------------------
def _find(tree, name, cls=None):
    body = tree.body
    if cls:
        for n in body:
            if isinstance(n, ast.ClassDef) and n.name == cls:
                body = n.body
                break
        else:
            raise TranslationError(f"class {cls} not found")
    hits = [n for n in body if isinstance(n, ast.FunctionDef) and n.name == name]
    if len(hits) != 1:
        raise TranslationError(f"{cls + '.' if cls else ''}{name}: {len(hits)} definitions found")
    return hits[0]


def _sig(fn, skip_self=False):
    a = fn.args
    if a.posonlyargs or a.kwonlyargs or a.vararg:
        raise TranslationError(f"{fn.name}: unsupported parameter kinds")
    names = [x.arg for x in a.args]
    defaults = [None] * (len(names) - len(a.defaults)) + list(a.defaults)
    sig = list(zip(names, defaults))
    if skip_self:
        sig = sig[1:]
    return sig


def _imports(tree, name):
    for n in ast.walk(tree):
        if isinstance(n, ast.ImportFrom):
            for al in n.names:
                if (al.asname or al.name) == name:
                    return (n.module or ""), al.name
    return None


def _factory(tree, name, problems):
    """splits a wrapper factory into parameter normalisations, cells, constants, closures, returned closures"""
    fn = _find(tree, name)
    cells, consts, pre, closures, returned = {}, {}, [], {}, None
    params = [a.arg for a in fn.args.args]
    for s in fn.body:
        if isinstance(s, ast.Expr) and isinstance(s.value, ast.Constant) and isinstance(s.value.value, str):
            continue
        if isinstance(s, ast.FunctionDef):
            closures[s.name] = s
            continue
        if isinstance(s, ast.Return):
            v = s.value
            returned = [e.id for e in v.elts] if isinstance(v, ast.Tuple) else [v.id]
            continue
        if isinstance(s, ast.If) and isinstance(s.test, ast.Compare) and isinstance(s.test.left, ast.Name) \
                and s.test.left.id in params and len(s.test.ops) == 1 and isinstance(s.test.ops[0], ast.Is) \
                and isinstance(s.test.comparators[0], ast.Constant) and s.test.comparators[0].value is None \
                and len(s.body) == 1 and not s.orelse and isinstance(s.body[0], ast.Assign) \
                and len(s.body[0].targets) == 1 and isinstance(s.body[0].targets[0], ast.Name) \
                and s.body[0].targets[0].id == s.test.left.id:
            pre.append(s)
            continue
        if isinstance(s, ast.Assign) and len(s.targets) == 1 and isinstance(s.targets[0], ast.Name):
            t = s.targets[0].id
            if isinstance(s.value, ast.List) and len(s.value.elts) == 1:
                cells[t] = s.value.elts[0]
            else:
                consts[t] = s.value
            continue
        raise TranslationError(f"{name} line {s.lineno}: unsupported statement in a wrapper factory: `{_src(s)[:80]}`")
    if returned is None:
        raise TranslationError(f"{name}: no return")
    return fn, cells, consts, pre, closures, returned


def translate(src_root: Path):
    """-> (lean text or None, info dict, problems list)"""
    problems = []
    info = {}
    src_root = Path(src_root)
    files = {k: src_root / p for k, p in
             dict(opt="maths/optimisers.py", calc="recalculation/calculation.py", scope="recalculation/scope.py").items()}
    trees = {}
    for k, p in files.items():
        try:
            trees[k] = ast.parse(p.read_text())
        except (OSError, SyntaxError) as e:
            raise TranslationError(f"cannot parse {p}: {e}")
    opt = trees["opt"]
    # exception classes: direct subclasses of Exception (so that no except clause of the stack catches them by accident)
    for cname in ("ParameterOutOfBoundsError", "MaximumEvaluationsReached"):
        cls = [n for n in opt.body if isinstance(n, ast.ClassDef) and n.name == cname]
        if len(cls) != 1 or [(_src(b)) for b in cls[0].bases] != ["Exception"]:
            problems.append(f"{cname} is not declared as a direct subclass of Exception")
    # the names used by calculation.py / scope.py must be the translated ones
    imp = _imports(trees["calc"], "maximise")
    if not imp or not imp[0].endswith("maths.optimisers") or imp[1] != "maximise":
        problems.append(f"calculation.py: `maximise` is not imported from cogent3.maths.optimisers ({imp})")
    imp = _imports(trees["scope"], "MaximumEvaluationsReached")
    if not imp or not imp[0].endswith("maths.optimisers") or imp[1] != "MaximumEvaluationsReached":
        problems.append(f"scope.py: `MaximumEvaluationsReached` is not imported from cogent3.maths.optimisers ({imp})")
    for alias, target in (("GlobalOptimiser", "SimulatedAnnealing"), ("LocalOptimiser", "Powell")):
        ok = any(isinstance(n, ast.Assign) and len(n.targets) == 1 and isinstance(n.targets[0], ast.Name)
                 and n.targets[0].id == alias and isinstance(n.value, ast.Name) and n.value.id == target for n in opt.body)
        if not ok:
            problems.append(f"optimisers.py: {alias} is not {target}")

    max_fn = _find(opt, "maximise")
    max_sig = _sig(max_fn)
    factories = {}
    for name in ("limited_use", "bounded_function", "bounds_exception_catching_function"):
        factories[name] = _factory(opt, name, problems)

    def maximise_default(key, ty):
        for n, d in max_sig:
            if n == key:
                if isinstance(d, ast.Constant) and d.value is None and ty.startswith("Opt"):
                    return "none"
                if isinstance(d, ast.Constant) and isinstance(d.value, bool):
                    v = "true" if d.value else "false"
                    return f"(some {v})" if ty == "OptBool" else v
                if isinstance(d, ast.Constant) and isinstance(d.value, int) and ty == "OptNat":
                    return f"(some {d.value})"
        raise TranslationError(f"maximise: no usable default for {key}")

    mod = dict(
        maximise_sig=max_sig,
        maximise_default=maximise_default,
        factory_sig=lambda n: _sig(factories[n][0]),
        limited_use_returns=factories["limited_use"][5],
    )
    defs = []
    # ---- limited_use
    fn, cells, consts, pre, closures, returned = factories["limited_use"]
    want_cells = FACTORY_CELLS["limited_use"]
    if set(cells) != set(want_cells):
        raise TranslationError(f"limited_use: closure cells {sorted(cells)} (expected {sorted(want_cells)})")
    if set(closures) != {"wrapped_f", "get_best"} or set(returned) != {"wrapped_f", "get_best"}:
        raise TranslationError(f"limited_use: closures {sorted(closures)} returned {returned}")
    if consts:
        raise TranslationError(f"limited_use: unexpected locals {sorted(consts)}")
    # cell initialisation
    tr0 = FnTranslator("limited_use", ast.FunctionDef(name="init", args=fn.args, body=[ast.Pass()], decorator_list=[]),
                       dict(lean="limited_use.init", outer=[], params=[], locals={}, ret="Unit"), mod, cells=want_cells)
    init_lines = ["def limited_use.init (env : Env X Y) : PM X Y Unit := do"]
    for c in cells:  # source order
        v, tv = tr0.expr(cells[c], want=want_cells[c])
        v = tr0.coerce(v, tv, want_cells[c], cells[c])
        init_lines.append(f"  modifySt fun s => {{ s with {c} := {v} }}")
    defs.append("/-- `limited_use`: the closure cells as `limited_use(f, max_evaluations)` creates them -/\n"
                + "\n".join(init_lines) + "\n")
    for cname in ("wrapped_f", "get_best"):
        key = f"limited_use.{cname}"
        tr = FnTranslator(key, closures[cname], SPECS[key], mod, factory_consts=consts, factory_pre=pre, cells=want_cells)
        main = tr.translate()
        defs.append("".join(tr.pieces) + f"/-- `limited_use.{cname}` -/\n" + main)
    # ---- bounded_function / bounds_exception_catching_function
    for name in ("bounded_function", "bounds_exception_catching_function"):
        fn, cells, consts, pre, closures, returned = factories[name]
        if cells or pre or list(closures) != ["_wrapper"] or returned != ["_wrapper"]:
            raise TranslationError(f"{name}: unexpected shape (cells {sorted(cells)}, closures {sorted(closures)}, returns {returned})")
        key = f"{name}._wrapper"
        spec = SPECS[key]
        # a constant of the factory that is used as a value needs a type from the table
        tr = FnTranslator(key, closures["_wrapper"], spec, mod, factory_consts={}, factory_pre=[], cells={})
        # constants: aliases of functions are inlined, value constants become typed lets
        lets = []
        for cn, ce in consts.items():
            if isinstance(ce, ast.Attribute):  # alias of a function
                tr.consts[cn] = ce
            else:
                if cn not in spec["locals"]:
                    raise TranslationError(f"{name}: constant {cn} has no declared type")
                v, tv = tr.expr(ce, want=spec["locals"][cn])
                lets.append(f"  let {cn} : {LEAN_TY[spec['locals'][cn]]} := {v}")
                tr.declared.add(cn)
                tr.order.append(cn)
                tr.types[cn] = spec["locals"][cn]
        text = tr.translate()
        head, _, rest = text.partition("\n")
        defs.append("".join(tr.pieces) + f"/-- `{name}._wrapper` -/\n" + head + "\n" + ("\n".join(lets) + "\n" if lets else "") + rest)
    # ---- maximise
    tr = FnTranslator("maximise", max_fn, SPECS["maximise"], mod)
    main = tr.translate()
    defs.append("".join(tr.pieces) + "/-- `maximise` -/\n" + main)
    info["maximise_dead"] = sorted(tr.dead)
    # ---- Calculator.optimise
    fn = _find(trees["calc"], "optimise", cls="Calculator")
    if fn.args.kwarg is None or fn.args.kwarg.arg != "kw" or [a.arg for a in fn.args.args] != ["self"]:
        raise TranslationError("Calculator.optimise: signature is not (self, **kw)")
    tr = FnTranslator("Calculator.optimise", fn, SPECS["Calculator.optimise"], mod)
    main = tr.translate()
    defs.append("".join(tr.pieces) + "/-- `Calculator.optimise(**kw)`; `kw` carries `local` and `max_evaluations` -/\n" + main)
    # ---- ParameterController.optimise
    fn = _find(trees["scope"], "optimise", cls="ParameterController")
    psig = _sig(fn, skip_self=True)
    names = [n for n, _ in psig]
    for need in ("local", "limit_action", "max_evaluations"):
        if need not in names:
            raise TranslationError(f"ParameterController.optimise: parameter {need} missing")
    dflt = {n: d for n, d in psig}
    info["pc_defaults"] = {n: (_src(d) if d is not None else None) for n, d in psig}
    tr = FnTranslator("ParameterController.optimise", fn, SPECS["ParameterController.optimise"], mod)
    main = tr.translate()
    defs.append("".join(tr.pieces) + "/-- `ParameterController.optimise`; `kw_return_calculator` = the optional debug keyword -/\n" + main)
    info["pc_forwards"] = tr.fwd
    info["pc_dead"] = sorted(tr.dead)
    # declared defaults of the likelihood function's optimise, as data for the theorems
    def const(d, ty):
        if isinstance(d, ast.Constant):
            if d.value is None:
                return "none"
            if isinstance(d.value, bool):
                return f"(some {'true' if d.value else 'false'})" if ty == "OptBool" else ("true" if d.value else "false")
            if isinstance(d.value, str):
                return '"' + d.value + '"'
            if isinstance(d.value, int):
                return f"(some {d.value})"
        raise TranslationError("ParameterController.optimise: unsupported default")
    defs.append("/-- declared defaults of `ParameterController.optimise(local, limit_action, max_evaluations)` -/\n"
                f"def ParameterController.defaultLocal : Option Bool := {const(dflt['local'], 'OptBool')}\n"
                f"def ParameterController.defaultLimitAction : String := {const(dflt['limit_action'], 'Str')}\n"
                f"def ParameterController.defaultMaxEvaluations : Option Nat := {const(dflt['max_evaluations'], 'OptNat')}\n")
    header = (
        "import CogentModel.Model.OptGenPrelude\n"
        "/- GENERATED by translator/c16_opt2lean.py from cogent3/maths/optimisers.py (limited_use, bounded_function,\n"
        "   bounds_exception_catching_function, maximise), recalculation/calculation.py (Calculator.optimise) and\n"
        "   recalculation/scope.py (ParameterController.optimise) on every run -- do not edit.\n"
        "   Conventions B1-B5 of the translator's docstring apply (dead display/check-pointing names dropped, numpy.array and\n"
        "   .copy() are the identity, None where an array is required raises at the binding, hoisted locals, warnings counted). -/\n"
        "set_option linter.unusedVariables false\n"
        "namespace CogentModel.Gen.C16Opt\n"
        "open CogentModel.OptGen\n"
        "variable {X Y : Type}\n\n"
    )
    lean = header + "\n".join(defs) + "\nend CogentModel.Gen.C16Opt\n"
    return lean, info, problems


def write_if_changed(path: Path, text: str) -> bool:
    if path.exists() and path.read_text() == text:
        return False
    path.parent.mkdir(parents=True, exist_ok=True)
    path.write_text(text)
    return True


if __name__ == "__main__":
    import sys

    root = Path(sys.argv[1] if len(sys.argv) > 1 else "/repo/src/cogent3")
    lean, info, problems = translate(root)
    print(lean)
    print(info, problems, file=sys.stderr)
