"""C10 translator: the deserialiser registry of cogent3 -> lean/CogentModel/Gen/C10Registry.lean   (`ast` only)

What is translated (nothing is executed or imported):
  R1  every function decorated with `@register_deserialiser(...)` in any module under src/cogent3, in source order per
      module, with its type strings.  An argument is either a string constant or `get_object_provenance(<ClassName>)`, which is
      read as `<module of the class>.<ClassName>` (= what util/misc.get_object_provenance returns for a class).
      The modules are laid out `cogent3.util.deserialise` first, then the others sorted by name: the order of the blocks
      depends on the import order at run time, which is why Props/C10Registry proves the dispatch independent of it.
  R2  the dispatch rule of `deserialise_object`: `for type_str, func in _deserialise_func_map.items(): if <cmp>: break`
      `else: raise NotImplementedError` / `return func(data)`  ->  `List.find?` with the translated comparison
      (`type_str in type_` -> isInfix key type_, `==` -> equality, `type_.startswith(type_str)` -> isPrefix).
  R3  the "type" strings the classes emit: every method that stores `get_object_provenance(self)` under the key "type"
      (dict display, `dict(type=...)`, `x["type"] = ...`) makes its class AND every subclass found by `ast` (bases resolved
      through the module's own classes and its `from .. import` / `import .. as` lines) an emitter of `<module>.<Class>`.
      `get_object_provenance(self.<attr>)` needs an entry in INDIRECT (the class of the attribute); anything else is a problem.
Unsupported syntax in R1/R2/R3 is returned as a translation problem (the check reports it).
"""
from __future__ import annotations

import ast
from pathlib import Path

REG_NAME = "register_deserialiser"
PROV = "get_object_provenance"
MAP_NAME = "_deserialise_func_map"
FIRST_MODULE = "cogent3.util.deserialise"
# (module, class, expression) -> (module, class) whose provenance is emitted
INDIRECT = {("cogent3.util.dict_array", "DictArray", "self.template"): ("cogent3.util.dict_array", "DictArrayTemplate")}


class TranslationError(Exception):
    pass


def _modname(root: Path, p: Path) -> str:
    rel = p.relative_to(root.parent).with_suffix("")
    parts = list(rel.parts)
    if parts[-1] == "__init__":
        parts = parts[:-1]
    return ".".join(parts)


def _resolve_from(mod: str, is_pkg: bool, node: ast.ImportFrom) -> str:
    if node.level == 0:
        return node.module or ""
    parts = mod.split(".")
    base = parts if is_pkg else parts[:-1]
    if node.level > 1:
        base = base[: len(base) - (node.level - 1)]
    return ".".join(base + ([node.module] if node.module else []))


class Module:
    def __init__(self, name, is_pkg, tree):
        self.name, self.is_pkg, self.tree = name, is_pkg, tree
        self.classes = {}  # name -> ClassDef (top level)
        self.from_imports = {}  # local name -> (module, original name)
        self.mod_aliases = {}  # local name -> module
        for node in ast.walk(tree):
            if isinstance(node, ast.ImportFrom):
                src = _resolve_from(name, is_pkg, node)
                for a in node.names:
                    self.from_imports[a.asname or a.name] = (src, a.name)
            elif isinstance(node, ast.Import):
                for a in node.names:
                    if a.asname:
                        self.mod_aliases[a.asname] = a.name
                    else:
                        self.mod_aliases[a.name] = a.name
        for node in tree.body:
            if isinstance(node, ast.ClassDef):
                self.classes[node.name] = node


def _dotted(e):
    if isinstance(e, ast.Name):
        return e.id
    if isinstance(e, ast.Attribute):
        b = _dotted(e.value)
        return None if b is None else b + "." + e.attr
    return None


def _resolve_class(mods, m: Module, expr, depth=0):
    """(module, class) a base-class / argument expression refers to, or None (external / builtin / unknown)"""
    d = _dotted(expr)
    if d is None or depth > 6:
        return None
    if "." not in d:
        if d in m.classes:
            return (m.name, d)
        if d in m.from_imports:
            src, orig = m.from_imports[d]
            tm = mods.get(src)
            if tm is None:
                return None
            if orig in tm.classes:
                return (src, orig)
            if orig in tm.from_imports:  # re-export
                return _resolve_class(mods, tm, ast.Name(id=orig), depth + 1)
        return None
    head, _, cls = d.rpartition(".")
    # longest alias prefix
    first = head.split(".")[0]
    if first in m.mod_aliases:
        target = m.mod_aliases[first] + head[len(first):]
    elif first in m.from_imports:
        src, orig = m.from_imports[first]
        target = (src + "." + orig if src else orig) + head[len(first):]
    else:
        target = head
    tm = mods.get(target)
    if tm is not None and cls in tm.classes:
        return (target, cls)
    return None


def _emissions(cls: ast.ClassDef):
    """[(method, argument expression source)] for each `"type": get_object_provenance(<arg>)` in the class's own methods"""
    found = []
    for meth in cls.body:
        if not isinstance(meth, (ast.FunctionDef, ast.AsyncFunctionDef)):
            continue
        for node in ast.walk(meth):
            vals = []
            if isinstance(node, ast.Dict):
                vals = [v for k, v in zip(node.keys, node.values) if isinstance(k, ast.Constant) and k.value == "type"]
            elif isinstance(node, ast.Call) and isinstance(node.func, ast.Name) and node.func.id == "dict":
                vals = [kw.value for kw in node.keywords if kw.arg == "type"]
            elif isinstance(node, ast.Assign):
                for t in node.targets:
                    if isinstance(t, ast.Subscript) and isinstance(t.slice, ast.Constant) and t.slice.value == "type":
                        vals.append(node.value)
            for v in vals:
                if isinstance(v, ast.Call) and _dotted(v.func) in (PROV, "misc." + PROV) and len(v.args) == 1:
                    found.append((meth.name, ast.unparse(v.args[0])))
    return found


def _registrations(mods, m: Module, problems):
    regs = []
    for node in ast.walk(m.tree):
        if not isinstance(node, (ast.FunctionDef, ast.AsyncFunctionDef)):
            continue
        for dec in node.decorator_list:
            if not (isinstance(dec, ast.Call) and _dotted(dec.func) in (REG_NAME, "deserialise." + REG_NAME)):
                continue
            if dec.keywords:
                problems.append(f"{m.name}:{node.lineno} keyword arguments in {REG_NAME}")
            for a in dec.args:
                if isinstance(a, ast.Constant) and isinstance(a.value, str):
                    regs.append((node.lineno, a.value, node.name))
                elif isinstance(a, ast.Call) and _dotted(a.func) == PROV and len(a.args) == 1:
                    r = _resolve_class(mods, m, a.args[0])
                    if r is None:
                        problems.append(f"{m.name}:{node.lineno} cannot resolve class {ast.unparse(a.args[0])!r}")
                    else:
                        regs.append((node.lineno, f"{r[0]}.{r[1]}", node.name))
                else:
                    problems.append(f"{m.name}:{node.lineno} unsupported registration argument {ast.unparse(a)!r}")
    regs.sort(key=lambda t: t[0])  # source order = execution order for module-level definitions
    return [(k, f) for _, k, f in regs]


def _dispatch_rule(m: Module, problems):
    """comparison kind of the registry loop of deserialise_object: 'infix' | 'eq' | 'prefix'"""
    fn = next((n for n in m.tree.body if isinstance(n, ast.FunctionDef) and n.name == "deserialise_object"), None)
    if fn is None:
        problems.append("deserialise_object not found")
        return None
    loops = [n for n in ast.walk(fn) if isinstance(n, ast.For)]
    loops = [n for n in loops if MAP_NAME in ast.unparse(n.iter)]
    if len(loops) != 1:
        problems.append(f"deserialise_object: expected one loop over {MAP_NAME}, found {len(loops)}")
        return None
    lp = loops[0]
    if ast.unparse(lp.iter) != f"{MAP_NAME}.items()" or not (isinstance(lp.target, ast.Tuple) and len(lp.target.elts) == 2 and all(isinstance(e, ast.Name) for e in lp.target.elts)):
        problems.append(f"deserialise_object: unsupported loop header {ast.unparse(lp.target)} in {ast.unparse(lp.iter)}")
        return None
    kvar, fvar = (e.id for e in lp.target.elts)
    if not (len(lp.body) == 1 and isinstance(lp.body[0], ast.If) and not lp.body[0].orelse and len(lp.body[0].body) == 1 and isinstance(lp.body[0].body[0], ast.Break)):
        problems.append("deserialise_object: loop body is not `if <test>: break`")
        return None
    if not (len(lp.orelse) >= 1 and isinstance(lp.orelse[-1], ast.Raise) and "NotImplementedError" in ast.unparse(lp.orelse[-1])):
        problems.append("deserialise_object: the loop's else branch does not raise NotImplementedError")
        return None
    # the statement after the loop must call the selected function on the data
    idx = fn.body.index(lp) if lp in fn.body else -1
    after = fn.body[idx + 1:] if idx >= 0 else []
    if not (len(after) == 1 and isinstance(after[0], ast.Return) and isinstance(after[0].value, ast.Call) and _dotted(after[0].value.func) == fvar and len(after[0].value.args) == 1 and not after[0].value.keywords):
        problems.append("deserialise_object: the loop is not followed by `return func(data)`")
        return None
    # the variable tested: assigned from data.get("type", ...)
    test = lp.body[0].test
    tvar = None
    for n in ast.walk(fn):
        if isinstance(n, ast.Assign) and len(n.targets) == 1 and isinstance(n.targets[0], ast.Name) and '.get("type"' in ast.unparse(n.value).replace("'", '"'):
            tvar = n.targets[0].id
    if tvar is None:
        problems.append('deserialise_object: no `x = data.get("type", ...)` assignment')
        return None
    if isinstance(test, ast.Compare) and len(test.ops) == 1 and isinstance(test.left, ast.Name) and isinstance(test.comparators[0], ast.Name):
        l, r, op = test.left.id, test.comparators[0].id, test.ops[0]
        if isinstance(op, ast.In) and (l, r) == (kvar, tvar):
            return "infix"
        if isinstance(op, ast.Eq) and {l, r} == {kvar, tvar}:
            return "eq"
    if isinstance(test, ast.Call) and ast.unparse(test) == f"{tvar}.startswith({kvar})":
        return "prefix"
    problems.append(f"deserialise_object: unsupported test {ast.unparse(test)!r}")
    return None


def _chars(s: str) -> str:
    def one(c):
        if c == "'":
            return "'\\''"
        if c == "\\":
            return "'\\\\'"
        if not (32 <= ord(c) < 127):
            raise TranslationError(f"non printable character in {s!r}")
        return f"'{c}'"

    return "[" + ", ".join(one(c) for c in s) + "]"


def extract(root: Path):
    """root = .../src/cogent3 ; returns (data dict, problems)"""
    root = Path(root)
    problems = []
    mods = {}
    for p in sorted(root.rglob("*.py")):
        try:
            tree = ast.parse(p.read_text())
        except SyntaxError as e:
            problems.append(f"{p}: {e}")
            continue
        name = _modname(root, p)
        mods[name] = Module(name, p.name == "__init__.py", tree)
    if FIRST_MODULE not in mods:
        raise TranslationError(f"{FIRST_MODULE} not found under {root}")
    # R1
    blocks = []
    for name in [FIRST_MODULE] + sorted(n for n in mods if n != FIRST_MODULE):
        regs = _registrations(mods, mods[name], problems)
        if regs:
            blocks.append((name, regs))
    keys = [k for _, regs in blocks for k, _ in regs]
    dup = sorted({k for k in keys if keys.count(k) > 1})
    if dup:
        problems.append(f"type strings registered twice (the decorator asserts uniqueness): {dup}")
    # R2
    rule = _dispatch_rule(mods[FIRST_MODULE], problems)
    # R3
    direct = {}  # (module, class) -> [(method, defining class)]
    emitted = []  # (type string, module, class, via module.class, method, kind)
    for m in mods.values():
        for cname, cls in m.classes.items():
            for meth, arg in _emissions(cls):
                if arg == "self":
                    direct.setdefault((m.name, cname), []).append(meth)
                elif (m.name, cname, arg) in INDIRECT:
                    tm, tc = INDIRECT[(m.name, cname, arg)]
                    if tm not in mods or tc not in mods[tm].classes:
                        problems.append(f"INDIRECT target {tm}.{tc} does not exist")
                    emitted.append((f"{tm}.{tc}", m.name, cname, f"{m.name}.{cname}", meth, "indirect:" + arg))
                else:
                    problems.append(f"{m.name}.{cname}.{meth}: \"type\" is get_object_provenance({arg}) - class of the argument unknown")
        for node in ast.walk(m.tree):  # nested classes are not followed
            if isinstance(node, ast.ClassDef) and node.name not in m.classes and _emissions(node):
                problems.append(f"{m.name}: nested class {node.name} emits a type string")
    parents = {}
    for m in mods.values():
        for cname, cls in m.classes.items():
            parents[(m.name, cname)] = [r for r in (_resolve_class(mods, m, b) for b in cls.bases) if r is not None]
    memo = {}

    def via(c, seen=()):
        """the class whose method emits the type string for instances of c (first in a left-to-right, depth-first walk)"""
        if c in memo:
            return memo[c]
        if c in seen:
            return None
        r = None
        if c in direct:
            r = (c, direct[c][0])
        else:
            for b in parents.get(c, []):
                r = via(b, seen + (c,))
                if r:
                    break
        memo[c] = r
        return r

    for c in sorted(parents):
        r = via(c)
        if r:
            emitted.append((f"{c[0]}.{c[1]}", c[0], c[1], f"{r[0][0]}.{r[0][1]}", r[1], "self"))
    emitted.sort()
    return dict(blocks=blocks, rule=rule, emitted=emitted), problems


HEADER = """/- GENERATED by translator/c10_registry2lean.py from src/cogent3/**/*.py on every run -- do not edit.
   R1 the deserialiser registry (every `@register_deserialiser(...)`, source order per module; module blocks: util.deserialise first,
      then sorted by module name -- Props/C10Registry proves the dispatch of every emitted type string independent of the block order);
   R2 the dispatch loop of `deserialise_object` (first entry of the registry whose key passes the test, else NotImplementedError);
   R3 the "type" strings emitted by the classes (`"type": get_object_provenance(self)` in a method of the class or of a base class). -/
import CogentModel.Model.Registry
namespace CogentModel.Gen.C10Registry
open CogentModel.Registry
"""


def render(data) -> str:
    out = [HEADER]
    out.append("/-- `_deserialise_func_map` as (type string, function name, registering module) -/")
    out.append("def table : List Entry := [")
    rows = []
    for mod, regs in data["blocks"]:
        for k, f in regs:
            rows.append(f"  {{ key := {_chars(k)}, func := \"{f}\", module := \"{mod}\" }}")
    out.append(",\n".join(rows))
    out.append("]\n")
    test = {"infix": "isInfix key type_", "eq": "key == type_", "prefix": "isPrefix key type_"}[data["rule"]]
    out.append("/-- the test of the registry loop of `deserialise_object` (`type_str` = key of the entry, `type_` = data[\"type\"]) -/")
    out.append(f"def test (key type_ : Str) : Bool :=\n  {test}\n")
    out.append("/-- `for type_str, func in _deserialise_func_map.items(): if <test>: break` / `else: raise NotImplementedError` (= none) -/")
    out.append("def dispatch (tbl : List Entry) (type_ : Str) : Option Entry :=\n  tbl.find? (fun e => test e.key type_)\n")
    out.append("/-- every (class, type string) pair the package can emit under the key \"type\" -/")
    out.append("def emitted : List Emit := [")
    rows = []
    for t, mod, cls, via, meth, kind in data["emitted"]:
        rows.append(f"  {{ typeStr := {_chars(t)}, cls := \"{mod}.{cls}\", via := \"{via}.{meth}\", kind := \"{kind}\" }}")
    out.append(",\n".join(rows))
    out.append("]\n")
    out.append("end CogentModel.Gen.C10Registry\n")
    return "\n".join(out)


def translate(root: Path):
    """returns (lean text or None, info dict, problems)"""
    data, problems = extract(root)
    info = dict(
        modules=[m for m, _ in data["blocks"]],
        registrations=sum(len(r) for _, r in data["blocks"]),
        rule=data["rule"],
        emitted=len(data["emitted"]),
    )
    if data["rule"] is None or not data["blocks"]:
        return None, info, problems
    return render(data), info, problems


# ---------------------------------------------------------------------------------------------------------------------
# `_get_class(provenance)` of util/deserialise.py -> Gen/C10GetClass.lean
# ---------------------------------------------------------------------------------------------------------------------
GC_HEADER = """/- GENERATED by translator/c10_registry2lean.py from util/deserialise.py `_get_class` on every run -- do not edit.
   Statements in source order; the result is (the string handed to import_module, the attribute name handed to getattr);
   a failing `assert` is `.error "AssertionError"`. -/
import CogentModel.Model.GetClass
namespace CogentModel.Gen.C10GetClass
open CogentModel.Registry
"""


def _gc_int(e, ints):
    if isinstance(e, ast.Constant) and isinstance(e.value, int) and not isinstance(e.value, bool):
        return f"({e.value})" if e.value < 0 else str(e.value)
    if isinstance(e, ast.Name) and e.id in ints:
        return e.id
    if isinstance(e, ast.BinOp) and isinstance(e.op, (ast.Add, ast.Sub)):
        return f"({_gc_int(e.left, ints)} {'+' if isinstance(e.op, ast.Add) else '-'} {_gc_int(e.right, ints)})"
    raise TranslationError(f"_get_class: unsupported integer expression {ast.unparse(e)!r}")


def _gc_str(e, strs, ints):
    if isinstance(e, ast.Name) and e.id in strs:
        return e.id
    if isinstance(e, ast.Constant) and isinstance(e.value, str):
        return "(" + _chars(e.value) + " : Str)"
    if isinstance(e, ast.Subscript) and isinstance(e.slice, ast.Slice) and e.slice.step is None and isinstance(e.value, ast.Name) and e.value.id in strs:
        lo, hi = e.slice.lower, e.slice.upper
        if lo is not None and hi is None:
            return f"(sliceFrom {e.value.id} {_gc_int(lo, ints)})"
        if lo is None and hi is not None:
            return f"(sliceTo {e.value.id} {_gc_int(hi, ints)})"
    if isinstance(e, ast.IfExp):
        t = e.test
        if isinstance(t, ast.Compare) and len(t.ops) == 1 and isinstance(t.ops[0], ast.In):
            return f"(if isInfix {_gc_str(t.left, strs, ints)} {_gc_str(t.comparators[0], strs, ints)} then {_gc_str(e.body, strs, ints)} else {_gc_str(e.orelse, strs, ints)})"
    raise TranslationError(f"_get_class: unsupported string expression {ast.unparse(e)!r}")


def translate_get_class(root: Path):
    """returns (lean text or None, problems)"""
    tree = ast.parse((Path(root) / "util" / "deserialise.py").read_text())
    fn = next((n for n in tree.body if isinstance(n, ast.FunctionDef) and n.name == "_get_class"), None)
    if fn is None or len(fn.args.args) != 1:
        return None, ["_get_class(provenance) not found"]
    arg = fn.args.args[0].arg
    strs, ints, lines = {arg}, set(), []
    module_expr = attr_expr = mod_var = None
    try:
        for st in fn.body:
            if isinstance(st, ast.Expr) and isinstance(st.value, ast.Constant):
                continue
            if isinstance(st, ast.Assert):
                t = st.test
                ops = {ast.Gt: ">", ast.GtE: "≥", ast.Lt: "<", ast.LtE: "≤"}
                if not (isinstance(t, ast.Compare) and len(t.ops) == 1 and type(t.ops[0]) in ops):
                    raise TranslationError(f"_get_class: unsupported assert {ast.unparse(t)!r}")
                lines.append(f"  if !(decide ({_gc_int(t.left, ints)} {ops[type(t.ops[0])]} {_gc_int(t.comparators[0], ints)})) then .error \"AssertionError\" else")
                continue
            if isinstance(st, ast.Return):
                if not (isinstance(st.value, ast.Name) and st.value.id == attr_expr):
                    raise TranslationError("_get_class: does not return the fetched attribute")
                break
            if not (isinstance(st, ast.Assign) and len(st.targets) == 1 and isinstance(st.targets[0], ast.Name)):
                raise TranslationError(f"_get_class: unsupported statement {ast.unparse(st)!r}")
            name, v = st.targets[0].id, st.value
            if isinstance(v, ast.Call) and isinstance(v.func, ast.Attribute) and v.func.attr == "rfind" and isinstance(v.func.value, ast.Name) and v.func.value.id in strs \
                    and len(v.args) == 1 and isinstance(v.args[0], ast.Constant) and isinstance(v.args[0].value, str) and len(v.args[0].value) == 1:
                lines.append(f"  let {name} : Int := rfindChar {_chars(v.args[0].value)[1:-1]} {v.func.value.id}")
                ints.add(name)
            elif isinstance(v, ast.Call) and isinstance(v.func, ast.Name) and v.func.id == "import_module" and len(v.args) == 1:
                lines.append(f"  let module_arg : Str := {_gc_str(v.args[0], strs, ints)}")
                module_expr, mod_var = "module_arg", name
            elif isinstance(v, ast.Call) and isinstance(v.func, ast.Name) and v.func.id == "getattr" and len(v.args) == 2 and isinstance(v.args[0], ast.Name) and v.args[0].id == mod_var:
                lines.append(f"  let attr_arg : Str := {_gc_str(v.args[1], strs, ints)}")
                attr_expr = name
            else:
                lines.append(f"  let {name} : Str := {_gc_str(v, strs, ints)}")
                strs.add(name)
    except TranslationError as e:
        return None, [str(e)]
    if module_expr is None or attr_expr is None:
        return None, ["_get_class: import_module(...) / getattr(mod, ...) not found"]
    body = "\n".join(lines)
    text = GC_HEADER + f"\n/-- `_get_class`: (argument of import_module, argument of getattr) -/\ndef get_class ({arg} : Str) : Except String (Str × Str) :=\n{body}\n  .ok (module_arg, attr_arg)\n\nend CogentModel.Gen.C10GetClass\n"
    return text, []


def write_if_changed(path: Path, text: str) -> bool:
    if path.exists() and path.read_text() == text:
        return False
    path.parent.mkdir(parents=True, exist_ok=True)
    path.write_text(text)
    return True


if __name__ == "__main__":
    import json
    import sys

    d, pr = extract(Path(sys.argv[1] if len(sys.argv) > 1 else "/repo/src/cogent3"))
    print(json.dumps(d, indent=1))
    print("PROBLEMS", pr)
