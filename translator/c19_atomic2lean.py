"""C19: Python -> Lean translation of the FILE-SYSTEM PROGRAM of ``cogent3.util.io.atomic_write``
(and of the order / route of the file writes of ``DataStoreDirectory._write``).

Reads the source with ``ast`` only (nothing of cogent3 is imported or executed) and emits
``lean/CogentModel/Gen/C19Program.lean`` (namespace CogentModel.Gen.C19Program): three values of the statement
language of ``Model/AtomicProg.lean``

    init   = atomic_write.__init__   (self-method calls inlined: _make_tmppath)
    enter  = atomic_write.__enter__  (_get_fileobj, _cleanup inlined)
    exit   = atomic_write.__exit__   (self._close_func resolved through its definition in __init__ to
                                      ``ifZip _close_rename_zip _close_rename_standard``; _cleanup inlined)

and ``storeWrites``: the list of (which file, by which route) of DataStoreDirectory._write.  The output is a pure
function of the source text.  ``Props/C19.lean`` proves ``code = AtomicProg.hand`` and ``storeWrites = …``; the theorems of
``Proofs/AtomicProgLemmas.lean`` say what running ``hand`` does for EVERY configuration, chunk list and fault position.

What is translated: the CONTROL STRUCTURE around the file-system calls.  A statement or expression without a
file-system call is *pure* and dropped (assignments, path arithmetic, ``if …: raise`` argument checks — the latter
are listed in ``info['preconditions']``).  Everything that contains a file-system call must be in the supported
fragment below; anything else is a *translation problem* (returned, never skipped).

Supported fragment
  calls        mkdtemp(dir=…) ; open_(self._tmppath, …) ; self._file.close() ; TMP.replace(DEST) ; TMP.rename(DEST) ;
               DEST.unlink() ; TMP.unlink() ; shutil.rmtree(TMPDIR[, ignore_errors=True]) ;
               ``with ZipFile(self._in_zip, "a") as out: out.write(str(TMP), arcname=self._path)`` ;
               self.<method>(…) of the class (inlined, parameters bound) ; self._close_func(…)
               where TMP = self._tmppath, TMPDIR = self._tmppath.parent, DEST = self._path / Path(self._path)
               (a parameter bound to one of them counts as it).  Any other call with a file-system effect name
               (os.remove, Path.rmdir, Path.touch, shutil.move, open of another path, keyword arguments that
               change the error behaviour such as missing_ok / onerror …) is a translation problem.
  statements   expression / assignment / return (last statement of the method only) / pass / docstring ;
               ``x = A if tmpdir is None else B`` with calls in A / B ;
               if / else on: self._own_tmpdir (must be defined ``tmpdir is None`` in __init__), ``tmpdir is None``,
               ``exc_type is None`` (decided statically inside ``close``, which passes the literal None), in_zip / self._in_zip,
               ``self._file is None`` (true when __init__ / __enter__ / the first write run, false in __exit__ / close) ;
               try / finally ; ``try … except Exception|OSError|BaseException: …; raise`` ;
               ``try … except Exception|OSError: pass`` ; ``with contextlib.suppress(OSError|Exception):``
  __exit__     must not return a value (a true value would swallow the writer's exception)
"""
from __future__ import annotations

import ast
from pathlib import Path


class TranslationError(Exception):
    pass


def _src(node) -> str:
    try:
        return ast.unparse(node)
    except Exception:  # pragma: no cover
        return type(node).__name__


SKIP = ("skip",)


def seq_of(items):
    items = [s for s in items if s != SKIP]
    if not items:
        return SKIP
    out = items[-1]
    for s in reversed(items[:-1]):
        # flatten left-nested sequences so that the result is right-nested: a ; (b ; c)
        if s[0] == "seq":
            flat = []

            def walk(t):
                if t[0] == "seq":
                    walk(t[1])
                    walk(t[2])
                else:
                    flat.append(t)

            walk(s)
            for t in reversed(flat):
                out = ("seq", t, out)
        else:
            out = ("seq", s, out)
    return out


def flatten(st):
    """right-nested normal form of nested seq"""
    if st[0] == "seq":
        flat = []

        def walk(t):
            if t[0] == "seq":
                walk(t[1])
                walk(t[2])
            else:
                flat.append(flatten(t))

        walk(st)
        return seq_of(flat)
    if st[0] in ("tryReraise", "tryFinally", "ifOwn", "ifExcNone", "ifZip"):
        return (st[0], flatten(st[1]), flatten(st[2]))
    if st[0] == "suppress":
        return ("suppress", flatten(st[1]))
    return st


def render(st) -> str:
    k = st[0]
    if k == "skip":
        return ".skip"
    if k in ("prim", "quiet"):
        return f"(.{k} .{st[1]})"
    if k == "suppress":
        return f"(.suppress {render(st[1])})"
    return f"(.{k} {render(st[1])} {render(st[2])})"


# names whose call has a file-system effect: such a call must match a primitive pattern exactly
EFFECT_FUNCS = {"mkdtemp", "mkstemp", "NamedTemporaryFile", "TemporaryDirectory", "TemporaryFile", "open", "open_",
                "ZipFile", "rmtree", "move", "copy", "copyfile", "copy2", "copytree", "remove", "unlink", "rename",
                "replace", "rmdir", "mkdir", "makedirs", "removedirs", "renames", "link", "symlink", "truncate"}
EFFECT_METHODS = {"unlink", "rename", "replace", "rmdir", "mkdir", "touch", "write_text", "write_bytes", "rmtree", "remove",
                  "move", "copy", "copyfile", "copy2", "makedirs", "symlink_to", "hardlink_to", "link_to", "truncate",
                  "open", "close", "mkdtemp", "mkstemp", "removedirs", "renames", "copytree", "extractall", "writestr"}
CATCH_ALL = {"Exception", "OSError", "BaseException", "IOError", "EnvironmentError"}
MODULES = {"os", "shutil", "tempfile", "pathlib", "zipfile", "io"}


class Translator:
    def __init__(self, cls: ast.ClassDef):
        self.methods = {n.name: n for n in cls.body if isinstance(n, (ast.FunctionDef,))}
        self.attr_defs = {}
        self.preconditions = []
        self.dropped = []
        self.file_is_none = True
        init = self.methods.get("__init__")
        if init is None:
            raise TranslationError("atomic_write has no __init__")
        for node in init.body:
            if isinstance(node, ast.Assign) and len(node.targets) == 1:
                t = node.targets[0]
                if isinstance(t, ast.Attribute) and isinstance(t.value, ast.Name) and t.value.id == "self":
                    self.attr_defs[t.attr] = node.value

    # ------------------------------------------------------------------ roles of path expressions
    def role(self, e, binds):
        if isinstance(e, ast.Name):
            if e.id in binds:
                return self.role(binds[e.id][0], binds[e.id][1])
            return None
        if isinstance(e, ast.Call) and isinstance(e.func, ast.Name) and e.func.id in ("Path", "str") and len(e.args) == 1 and not e.keywords:
            return self.role(e.args[0], binds)
        s = _src(e)
        if s == "self._tmppath":
            return "TMP"
        if s == "self._tmppath.parent":
            return "TMPDIR"
        if s == "self._path":
            return "DEST"
        if s == "self._in_zip":
            return "ZIP"
        return None

    # ------------------------------------------------------------------ tests
    def test(self, t, binds):
        """-> (kind, positive) with kind in own / excNone / zip / fileNone, or None"""
        if isinstance(t, ast.UnaryOp) and isinstance(t.op, ast.Not):
            r = self.test(t.operand, binds)
            return None if r is None else (r[0], not r[1])
        s = _src(t)
        if isinstance(t, ast.Compare) and len(t.ops) == 1 and isinstance(t.comparators[0], ast.Constant) and t.comparators[0].value is None:
            pos = isinstance(t.ops[0], ast.Is)
            if not pos and not isinstance(t.ops[0], ast.IsNot):
                return None
            left = _src(t.left)
            if left == "tmpdir" and "tmpdir" not in binds:
                return ("own", pos)
            if left == "tmpdir" and "tmpdir" in binds:
                # parameter of an inlined method: must be bound to the constructor's own `tmpdir`
                if _src(binds["tmpdir"][0]) == "tmpdir":
                    return ("own", pos)
                return None
            if left == "exc_type":
                if "exc_type" in binds:
                    # parameter of an inlined __exit__ (atomic_write.close): decided statically if bound to a literal
                    b = binds["exc_type"][0]
                    if isinstance(b, ast.Constant):
                        return ("const", pos == (b.value is None))
                    return None
                return ("excNone", pos)
            if left == "self._file":
                return ("fileNone", pos)
            return None
        if s == "self._own_tmpdir":
            d = self.attr_defs.get("_own_tmpdir")
            if d is None or _src(d) != "tmpdir is None":
                raise TranslationError(f"self._own_tmpdir is not defined as `tmpdir is None` in __init__ ({_src(d) if d is not None else 'undefined'})")
            return ("own", True)
        if s in ("in_zip", "self._in_zip"):
            return ("zip", True)
        return None

    # ------------------------------------------------------------------ expressions
    def has_effect(self, node) -> bool:
        for n in ast.walk(node):
            if isinstance(n, ast.Call):
                f = n.func
                if isinstance(f, ast.Name) and (f.id in EFFECT_FUNCS):
                    return True
                if isinstance(f, ast.Attribute):
                    if isinstance(f.value, ast.Name) and f.value.id == "self" and (f.attr in self.methods or f.attr == "_close_func"):
                        if f.attr == "_close_func" or self.has_effect_method(f.attr):
                            return True
                        continue
                    if f.attr in EFFECT_METHODS and not self._is_str_replace(n):
                        return True
            if isinstance(n, ast.With):
                return any(self.has_effect(x) for it in n.items for x in [it.context_expr]) or any(self.has_effect(b) for b in n.body)
        return False

    _hem_cache = None

    def has_effect_method(self, name, stack=()):
        if name in stack:
            return False
        m = self.methods[name]
        for n in ast.walk(m):
            if isinstance(n, ast.Call):
                f = n.func
                if isinstance(f, ast.Name) and f.id in EFFECT_FUNCS:
                    return True
                if isinstance(f, ast.Attribute):
                    if isinstance(f.value, ast.Name) and f.value.id == "self" and f.attr in self.methods:
                        if self.has_effect_method(f.attr, stack + (name,)):
                            return True
                        continue
                    if isinstance(f.value, ast.Name) and f.value.id == "self" and f.attr == "_close_func":
                        return True
                    if f.attr in EFFECT_METHODS and not self._is_str_replace(n):
                        return True
        return False

    @staticmethod
    def _is_str_replace(call):
        """`text.replace(a, b)` (two arguments) is the str method, not Path.replace(target)"""
        return isinstance(call.func, ast.Attribute) and call.func.attr == "replace" and len(call.args) == 2 and not call.keywords

    def expr(self, e, binds, stack):
        """the file-system calls of an expression, in evaluation order -> Stmt"""
        if e is None or not self.has_effect(e):
            return SKIP
        if isinstance(e, ast.IfExp):
            if self.has_effect(e.test):
                raise TranslationError(f"file-system call inside a condition: {_src(e.test)}")
            return self.cond(e.test, self.expr(e.body, binds, stack), self.expr(e.orelse, binds, stack), binds, _src(e))
        if isinstance(e, (ast.BoolOp, ast.Lambda, ast.ListComp, ast.SetComp, ast.DictComp, ast.GeneratorExp, ast.Await, ast.Yield, ast.YieldFrom)):
            raise TranslationError(f"file-system call under {type(e).__name__}: {_src(e)}")
        if isinstance(e, ast.Call):
            parts = []
            # receiver first, then arguments, then the call itself
            if isinstance(e.func, ast.Attribute):
                parts.append(self.expr(e.func.value, binds, stack))
            for a in e.args:
                parts.append(self.expr(a, binds, stack))
            for kw in e.keywords:
                parts.append(self.expr(kw.value, binds, stack))
            parts.append(self.call(e, binds, stack))
            return seq_of(parts)
        parts = [self.expr(ch, binds, stack) for ch in ast.iter_child_nodes(e) if isinstance(ch, ast.expr)]
        return seq_of(parts)

    def call(self, e: ast.Call, binds, stack):
        f = e.func
        kws = {k.arg: k.value for k in e.keywords}
        if isinstance(f, ast.Name):
            if f.id == "mkdtemp":
                if e.args or set(kws) != {"dir"}:
                    raise TranslationError(f"mkdtemp call shape: {_src(e)}")
                return ("prim", "mkdtemp")
            if f.id in ("open_", "open"):
                if e.args and self.role(e.args[0], binds) == "TMP":
                    return ("prim", "openTmp")
                raise TranslationError(f"open of a path that is not the temp file: {_src(e)}")
            if f.id in EFFECT_FUNCS:
                raise TranslationError(f"file-system call outside the model's alphabet: {_src(e)}")
            return SKIP
        if isinstance(f, ast.Attribute):
            recv = f.value
            if isinstance(recv, ast.Name) and recv.id == "self":
                if f.attr == "_close_func":
                    d = self.attr_defs.get("_close_func")
                    if not (isinstance(d, ast.IfExp) and self.test(d.test, {}) == ("zip", True)):
                        raise TranslationError(f"self._close_func is not `A if in_zip else B` in __init__: {_src(d) if d is not None else 'undefined'}")
                    a = self.inline_ref(d.body, e, binds, stack)
                    b = self.inline_ref(d.orelse, e, binds, stack)
                    return ("ifZip", a, b)
                if f.attr in self.methods:
                    return self.inline(f.attr, e, binds, stack)
            if self._is_str_replace(e):
                return SKIP
            if isinstance(recv, ast.Name) and recv.id in MODULES or (isinstance(recv, ast.Attribute) and _src(recv) in ("os.path",)):
                if _src(f) == "shutil.rmtree":
                    if len(e.args) != 1 or self.role(e.args[0], binds) != "TMPDIR" or set(kws) - {"ignore_errors"}:
                        raise TranslationError(f"shutil.rmtree call shape: {_src(e)}")
                    ig = kws.get("ignore_errors")
                    if ig is None or (isinstance(ig, ast.Constant) and ig.value is False):
                        return ("prim", "rmtreeTmpdir")
                    if isinstance(ig, ast.Constant) and ig.value is True:
                        return ("quiet", "rmtreeTmpdir")
                    raise TranslationError(f"shutil.rmtree ignore_errors is not a literal: {_src(e)}")
                if f.attr in EFFECT_METHODS or f.attr in EFFECT_FUNCS:
                    raise TranslationError(f"file-system call outside the model's alphabet: {_src(e)}")
                return SKIP
            if f.attr == "close":
                if _src(recv) == "self._file" and not e.args and not kws:
                    return ("prim", "closeTmp")
                raise TranslationError(f"close() of something that is not self._file: {_src(e)}")
            if f.attr in ("replace", "rename"):
                if len(e.args) == 1 and not kws and self.role(recv, binds) == "TMP" and self.role(e.args[0], binds) == "DEST":
                    return ("prim", "replaceDest" if f.attr == "replace" else "renameDest")
                raise TranslationError(f"{f.attr} that is not temp file -> destination: {_src(e)}")
            if f.attr == "unlink":
                r = self.role(recv, binds)
                if e.args or kws or r not in ("TMP", "DEST"):
                    raise TranslationError(f"unlink call shape (receiver {r}, arguments change the error behaviour): {_src(e)}")
                return ("prim", "unlinkTmp" if r == "TMP" else "unlinkDest")
            if f.attr in EFFECT_METHODS:
                raise TranslationError(f"file-system call outside the model's alphabet: {_src(e)}")
            return SKIP
        return SKIP

    def inline_ref(self, ref, call, binds, stack):
        """ref = `self.<method>` (a bound method stored in an attribute), applied to the arguments of `call`"""
        if not (isinstance(ref, ast.Attribute) and isinstance(ref.value, ast.Name) and ref.value.id == "self" and ref.attr in self.methods):
            raise TranslationError(f"not a method of the class: {_src(ref)}")
        return self.inline(ref.attr, call, binds, stack)

    def inline(self, name, call, binds, stack):
        if name in stack:
            raise TranslationError(f"recursive call of {name}")
        m = self.methods[name]
        params = [a.arg for a in m.args.args][1:]
        nb = {}
        for p, a in zip(params, call.args):
            nb[p] = (a, binds)
        for kw in call.keywords:
            if kw.arg in params:
                nb[kw.arg] = (kw.value, binds)
        return self.block(m.body, nb, stack + (name,), tail=True, fn=name)

    # ------------------------------------------------------------------ statements
    def cond(self, t, a, b, binds, where):
        if a == SKIP and b == SKIP:
            return SKIP
        r = self.test(t, binds)
        if r is None:
            raise TranslationError(f"condition around a file-system call is not one of the known state tests: {_src(t)} (in {where[:80]})")
        kind, pos = r
        if not pos:
            a, b = b, a
        if kind == "fileNone":
            # decided by the entry point: no file is open yet when __init__ / __enter__ / the first write run; one is when
            # __exit__ / close run
            return a if self.file_is_none else b
        if kind == "const":
            return a  # statically true (negation already applied)
        return ({"own": "ifOwn", "excNone": "ifExcNone", "zip": "ifZip"}[kind], a, b)

    def block(self, stmts, binds, stack, tail, fn):
        out = []
        for i, s in enumerate(stmts):
            out.append(self.stmt(s, binds, stack, tail and i == len(stmts) - 1, fn))
        if any(isinstance(s, ast.Raise) for s in stmts) and any(o != SKIP for o in out):
            raise TranslationError(f"{fn}: raise next to file-system calls in one block")
        return seq_of(out)

    def stmt(self, s, binds, stack, tail, fn):
        if isinstance(s, ast.Return):
            if not tail:
                raise TranslationError(f"{fn}: return before the end of the method: {_src(s)}")
            if fn == "__exit__" and s.value is not None and not (isinstance(s.value, ast.Constant) and s.value.value in (None, False)):
                raise TranslationError(f"__exit__ returns a value ({_src(s.value)}): a true value swallows the writer's exception")
            return self.expr(s.value, binds, stack)
        if isinstance(s, (ast.Expr, ast.Assign, ast.AnnAssign, ast.AugAssign)):
            r = self.expr(s.value, binds, stack)
            if isinstance(s, ast.Assign) and len(s.targets) == 1 and isinstance(s.targets[0], ast.Name) and r == SKIP:
                binds[s.targets[0].id] = (s.value, dict(binds))  # a local name for a path expression (dst = Path(self._path))
            return r
        if isinstance(s, (ast.Pass, ast.Import, ast.ImportFrom, ast.Global, ast.Nonlocal)):
            return SKIP
        if isinstance(s, ast.If):
            if self.has_effect(s.test):
                raise TranslationError(f"{fn}: file-system call inside a condition: {_src(s.test)}")
            a = self.block(s.body, binds, stack, tail, fn)
            b = self.block(s.orelse, binds, stack, tail, fn)
            if a == SKIP and b == SKIP:
                if any(isinstance(n, ast.Raise) for n in ast.walk(s)):
                    self.preconditions.append(f"{fn}: if {_src(s.test)}: raise …")
                return SKIP
            return self.cond(s.test, a, b, binds, f"{fn}: if {_src(s.test)}")
        if isinstance(s, ast.Raise):
            if s.exc is not None and self.has_effect(s.exc):
                raise TranslationError(f"{fn}: file-system call inside raise")
            return SKIP  # `block` rejects a raise that stands next to file-system calls
        if isinstance(s, ast.Assert):
            return SKIP
        if isinstance(s, ast.Try):
            return self.try_(s, binds, stack, tail, fn)
        if isinstance(s, ast.With):
            return self.with_(s, binds, stack, tail, fn)
        if not self.has_effect(s):
            self.dropped.append(f"{fn}: {type(s).__name__}")
            return SKIP
        raise TranslationError(f"{fn}: unsupported statement around a file-system call: {_src(s)[:120]}")

    def try_(self, s: ast.Try, binds, stack, tail, fn):
        body = self.block(s.body, binds, stack, tail and not s.finalbody and not s.orelse, fn)
        if s.orelse:
            if any(self.has_effect(x) for x in s.orelse) or body != SKIP:
                raise TranslationError(f"{fn}: try … else is not supported")
        inner = body
        if s.handlers:
            if len(s.handlers) != 1:
                if body == SKIP and not any(self.has_effect(h) for h in s.handlers):
                    inner = SKIP
                else:
                    raise TranslationError(f"{fn}: more than one except clause around file-system calls")
            else:
                h = s.handlers[0]
                tname = _src(h.type) if h.type is not None else "BaseException"
                hb = list(h.body)
                reraises = bool(hb) and isinstance(hb[-1], ast.Raise) and hb[-1].exc is None
                if reraises:
                    hb = hb[:-1]
                hs = self.block(hb, binds, stack, False, fn) if hb else SKIP
                if any(isinstance(n, ast.Raise) for x in hb for n in ast.walk(x)):
                    raise TranslationError(f"{fn}: raise inside an except clause other than a final bare `raise`")
                if body == SKIP and hs == SKIP:
                    inner = SKIP
                elif tname not in CATCH_ALL:
                    raise TranslationError(f"{fn}: except {tname}: only Exception / OSError / BaseException handlers are supported around file-system calls "
                                           "(a handler for one OSError subclass treats some failures differently from others)")
                elif reraises:
                    inner = ("tryReraise", body, hs) if hs != SKIP else body
                elif hs == SKIP:
                    inner = ("suppress", body)
                else:
                    raise TranslationError(f"{fn}: an except clause that issues file-system calls and does not re-raise is not supported")
        if s.finalbody:
            fin = self.block(s.finalbody, binds, stack, False, fn)
            if any(isinstance(n, (ast.Return, ast.Raise)) for x in s.finalbody for n in ast.walk(x)):
                raise TranslationError(f"{fn}: return / raise inside finally")
            if fin != SKIP:
                return ("tryFinally", inner, fin)
        return inner

    def with_(self, s: ast.With, binds, stack, tail, fn):
        if len(s.items) != 1:
            if not self.has_effect(s):
                return SKIP
            raise TranslationError(f"{fn}: with statement with several items")
        it = s.items[0]
        ce = it.context_expr
        if isinstance(ce, ast.Call) and _src(ce.func) in ("contextlib.suppress", "suppress"):
            names = {_src(a) for a in ce.args}
            body = self.block(s.body, binds, stack, False, fn)
            if body == SKIP:
                return SKIP
            if not names or not names <= CATCH_ALL:
                raise TranslationError(f"{fn}: suppress({', '.join(sorted(names))}): only OSError / Exception are supported around file-system calls")
            return ("suppress", body)
        if isinstance(ce, ast.Call) and _src(ce.func) in ("ZipFile", "zipfile.ZipFile"):
            ok = (len(ce.args) == 2 and not ce.keywords and self.role(ce.args[0], binds) == "ZIP" and isinstance(ce.args[1], ast.Constant) and ce.args[1].value == "a"
                  and isinstance(it.optional_vars, ast.Name) and len(s.body) == 1 and isinstance(s.body[0], ast.Expr) and isinstance(s.body[0].value, ast.Call))
            if ok:
                c = s.body[0].value
                kw = {k.arg: k.value for k in c.keywords}
                ok = (_src(c.func) == f"{it.optional_vars.id}.write" and len(c.args) == 1 and self.role(c.args[0], binds) == "TMP" and set(kw) == {"arcname"}
                      and self.role(kw["arcname"], binds) == "DEST")
            if not ok:
                raise TranslationError(f"{fn}: with ZipFile block is not `with ZipFile(self._in_zip, 'a') as out: out.write(str(TMP), arcname=self._path)`: {_src(s)[:160]}")
            return ("seq", ("prim", "zipAppend"), ("prim", "zipClose"))
        if not self.has_effect(s):
            return SKIP
        raise TranslationError(f"{fn}: unsupported context manager around file-system calls: {_src(ce)[:100]}")

    def entry(self, name):
        if name not in self.methods:
            raise TranslationError(f"atomic_write has no {name}")
        self.file_is_none = name not in ("__exit__", "close")
        return flatten(self.block(self.methods[name].body, {}, (name,), True, name))


# ---------------------------------------------------------------------------------------------------------------
# DataStoreDirectory._write: which files are written, in which order, by which route
# ---------------------------------------------------------------------------------------------------------------
def store_writes(tree: ast.Module):
    """-> list of (file, route): file in md5 / record / log ; route in atomicOwn / atomicTmpdir / plain.
    Only `with atomic_write(P, …) as out: out.write(X)` and `with open_(P, …) as out: out.write(X)` are supported."""
    cls = next((n for n in tree.body if isinstance(n, ast.ClassDef) and n.name == "DataStoreDirectory"), None)
    if cls is None:
        raise TranslationError("class DataStoreDirectory not found")
    fn = next((n for n in cls.body if isinstance(n, ast.FunctionDef) and n.name == "_write"), None)
    if fn is None:
        raise TranslationError("DataStoreDirectory._write not found")
    paths = {}
    for n in ast.walk(fn):
        if isinstance(n, ast.Assign) and len(n.targets) == 1 and isinstance(n.targets[0], ast.Name):
            paths[n.targets[0].id] = n.value

    def kind(p):
        s = _src(paths.get(p.id, p)) if isinstance(p, ast.Name) else _src(p)
        if "_MD5_TABLE" in s:
            return "md5"
        if "subdir" in s and "unique_id" in s:
            return "record"
        raise TranslationError(f"_write: cannot tell which file of the store {s} is")

    out = []

    def walk(stmts, in_log):
        for s in stmts:
            if isinstance(s, ast.If):
                is_log = "_LOG_TABLE" in _src(s.test) and "subdir" in _src(s.test)
                walk(s.body, in_log or is_log)
                walk(s.orelse, in_log)
            elif isinstance(s, ast.With):
                if len(s.items) != 1 or not isinstance(s.items[0].context_expr, ast.Call):
                    raise TranslationError(f"_write: unsupported with statement {_src(s)[:100]}")
                c = s.items[0].context_expr
                f = _src(c.func)
                if f not in ("atomic_write", "open_", "open"):
                    raise TranslationError(f"_write: unsupported context manager {f}")
                body_ok = len(s.body) == 1 and isinstance(s.body[0], ast.Expr) and isinstance(s.body[0].value, ast.Call) and _src(s.body[0].value.func).endswith(".write")
                if not body_ok:
                    raise TranslationError(f"_write: with-block is not a single out.write(…): {_src(s)[:120]}")
                kws = {k.arg: k.value for k in c.keywords}
                if f == "atomic_write":
                    if "in_zip" in kws:
                        raise TranslationError("_write: atomic_write(in_zip=…) in the directory store")
                    td = kws.get("tmpdir")
                    route = "atomicOwn" if td is None or (isinstance(td, ast.Constant) and td.value is None) else "atomicTmpdir"
                else:
                    route = "plain"
                out.append(("log" if in_log else kind(c.args[0]), route))
            elif isinstance(s, (ast.Try, ast.For, ast.While)):
                for n in ast.walk(s):
                    if isinstance(n, ast.Call) and _src(n.func) in ("atomic_write", "open_", "open"):
                        raise TranslationError(f"_write: file write under {type(s).__name__}")
            else:
                for n in ast.walk(s):
                    if isinstance(n, ast.Call) and _src(n.func) in ("atomic_write", "open_", "open"):
                        raise TranslationError(f"_write: file write outside a with statement: {_src(s)[:100]}")

    walk(fn.body, False)
    # a return that can skip the writes: only the store's membership test (`unique_id in self`) and the log branch's own
    last = max((n.lineno for n in ast.walk(fn) if isinstance(n, ast.With)), default=0)
    for n in ast.walk(fn):
        if isinstance(n, ast.If) and n.lineno < last and any(isinstance(x, (ast.Return, ast.Raise, ast.Continue, ast.Break)) for b in n.body + n.orelse for x in ast.walk(b)):
            t = _src(n.test)
            if "unique_id in self" in t or ("_LOG_TABLE" in t and "subdir" in t):
                continue
            raise TranslationError(f"_write: `if {t[:80]}` can leave the method before the record / md5 files are written (only the membership test may)")
    return out


HEADER = '''import CogentModel.Model.AtomicProg
import CogentModel.Model.StoreWrite
/-! GENERATED by translator/c19_atomic2lean.py from src/cogent3/util/io.py (class atomic_write) and
src/cogent3/app/data_store.py (DataStoreDirectory._write) — do not edit; rewritten from the current source on every run.

`code`: the control structure around the file-system calls of `atomic_write.__init__` / `__enter__` / `__exit__`
(self-method calls inlined) in the statement language of Model/AtomicProg.lean.
`bareWrite` / `bareClose`: `atomic_write.write` while no file is open yet (the calls before `fileobj.write(text)`) and
`atomic_write.close` (`__exit__(None, None, None)` inlined, `exc_type is None` decided statically).
`storeWrites`: the files one record write of the directory data store puts in place, in order, with the route. -/
namespace CogentModel.Gen.C19Program
open CogentModel.AtomicProg CogentModel.StoreWrite
'''


def translate(io_path, store_path=None):
    """-> (lean text or None, info, problems)"""
    problems, info = [], {}
    tree = ast.parse(Path(io_path).read_text())
    cls = next((n for n in tree.body if isinstance(n, ast.ClassDef) and n.name == "atomic_write"), None)
    if cls is None:
        return None, info, ["class atomic_write not found in util/io.py"]
    parts = {}
    try:
        tr = Translator(cls)
        for lean, py in (("init", "__init__"), ("enter", "__enter__"), ("exit", "__exit__"), ("bareWrite", "write"), ("bareClose", "close")):
            parts[lean] = tr.entry(py)
        info["preconditions"] = tr.preconditions
        info["dropped"] = tr.dropped
    except TranslationError as e:
        problems.append(f"atomic_write: {e}")
    sw = None
    if store_path is not None:
        try:
            sw = store_writes(ast.parse(Path(store_path).read_text()))
        except TranslationError as e:
            problems.append(f"DataStoreDirectory._write: {e}")
    if len(parts) != 5 or (store_path is not None and sw is None):
        return None, info, problems  # nothing is written: the last generated file (and the driver built from it) stays
    out = [HEADER]
    for k in ("init", "enter", "exit"):
        out.append(f"def {k} : Stmt :=\n  {render(parts[k])}\n")
    out.append("def code : Code := ⟨init, enter, exit⟩\n")
    # the bare-object protocol: `write` while no file is open yet (the calls before fileobj.write) and `close`
    for k in ("bareWrite", "bareClose"):
        out.append(f"def {k} : Stmt :=\n  {render(parts[k])}\n")
    if sw is not None:
        items = ", ".join(f"(.{f}, .{r})" for f, r in sw)
        out.append(f"def storeWrites : List (StoreFile × Route) :=\n  [{items}]\n")
        info["store_writes"] = sw
    out.append("end CogentModel.Gen.C19Program\n")
    info["code"] = {k: render(v) for k, v in parts.items()}
    return "\n".join(out), info, problems


def write_if_changed(path, text) -> bool:
    path = Path(path)
    if path.exists() and path.read_text() == text:
        return False
    path.parent.mkdir(parents=True, exist_ok=True)
    path.write_text(text)
    return True


if __name__ == "__main__":  # pragma: no cover
    import sys

    lean, info, problems = translate(sys.argv[1], sys.argv[2] if len(sys.argv) > 2 else None)
    print(lean)
    print(info, file=sys.stderr)
    print(problems, file=sys.stderr)
