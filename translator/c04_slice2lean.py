"""Python -> Lean translator for the feature-SLICING code (C04, wave 2): which residues `Feature.get_slice` reads.

On every run this re-reads, with ``ast`` only (nothing of cogent3 is imported or executed),

    core/annotation.py     Feature.get_slice, Feature._do_seq_slice                    -> namespace GenAnn
    core/sequence.py       Sequence._mapped, Sequence.gapped_by_map_segment_iter       -> namespace GenOldS
    core/new_sequence.py   the same names                                               -> namespace GenNewS

and emits ``lean/CogentModel/Gen/C04Slice.lean``.  The output is a pure function of the source text.
``Props/C04GenSlice.lean`` proves the generated definitions equal to the hand model ``Model/FeatureSeq.lean``
(`getSlice`, `getSliceContig`, `getSliceNew`) for ALL sequences and feature maps.

A small statement compiler in continuation-passing style: every ``if`` duplicates "the rest of the function" into both
arms (the functions are short), so early returns, raises and arms that bind a name to values of different kinds need no
special treatment.  Anything outside the fragment below is a *translation problem* (reported, never skipped).

  values   Bool, Int, a one-character string (Char), a string (List Char), a list of strings, a feature map (FMapG),
           a span (MSpan), a slice of the underlying SeqView (``self._seq[a:b]``, kept symbolic until it reaches the
           constructor);
  exprs    names, int / bool / one-character constants, ``+``/``-`` of ints, ``not``/``and``/``or``, comparisons of ints, conditional
           expressions, ``char * int``, ``"".join(xs)``, ``str(self[a:b])``;
           feature map: ``m.complete``, ``m.start``, ``m.end``, ``m.num_spans``, ``m.spans``, ``m.without_gaps()``;
           span: ``s.lost``, ``s.start``, ``s.end``, ``s.length``, ``s.terminal``;
           Feature: ``self.map``, ``self.reversed``, ``self.parent[m]`` (Sequence.__getitem__ with a map = ``_mapped``),
           ``self.parent[a:b]``, ``result.rc()``, ``self._do_seq_slice(x)``;
           Sequence: ``self.gapped_by_map_segment_iter(m, allow_gaps=..)`` (defaults read from its signature),
           ``self.__class__(data, .., annotation_offset=k)`` with ``data`` a string (-> ``ctorStr``) or a SeqView slice
           (-> ``ctorView``, where the new-style constructor's offset guard lives);
  stmts    assignment to a name, ``if``/``elif``/``else``, ``raise ValueError(..)``, ``return``, and ONE generator shape:
           ``for span in m.spans: <body>; yield seg`` as the last statement (-> ``mapExcept body spans``: the list of the
           yielded strings, first exception wins).

Conventions (also in the generated header):
  S1 ``result.annotation_db = None`` (and every other attribute assignment on a result object) is db plumbing: no effect on
     the residues, translated to nothing;
  S2 ``name`` / ``info`` / ``moltype`` / ``check`` arguments of the constructors carry no coordinates: ignored;
  S3 ``span.terminal`` of a LostSpan is not modelled (reads ``false``); it only selects '?' or '-' for a lost span, which
     ``_mapped`` never reaches (it passes ``allow_gaps=False`` and an incomplete map raises first: proved);
  S4 ``str(self[a:b])`` / ``self.parent[a:b]`` are C01's slicing (prelude ``strSlice``: the characters of ``str(self)`` at
     the view indices a..b-1), ``rc()`` is reverse + complement on a nucleic sequence;
  S5 ``Sequence.__getitem__`` dispatches a FeatureMap index to ``_mapped`` (not translated: an isinstance chain).
"""
from __future__ import annotations

import ast
from pathlib import Path


class TranslationError(Exception):
    pass


BOOL, PROP, INT, CHAR, STR, STRS, FMAP, SPAN, SPANS, VSLICE = "Bool", "Prop", "Int", "Char", "Str", "Strs", "FMap", "Span", "Spans", "ViewSlice"
KEYWORDS = {"at", "from", "end", "then", "else", "if", "fun", "let", "do", "in", "with", "match", "have", "show", "by", "where", "open",
            "def", "instance", "structure", "class", "namespace", "section", "variable", "theorem", "example", "import", "return",
            "for", "unless", "mut", "Type", "new", "map", "prefix"}
IGNORED_CTOR_KW = {"name", "info", "moltype", "check"}


def ln(n):
    return n + "_" if n in KEYWORDS else n


def src(node):
    try:
        return ast.unparse(node)
    except Exception:  # noqa: BLE001
        return type(node).__name__


class Fn:
    def __init__(self, unit, fdef, kind):
        self.unit, self.f, self.kind = unit, fdef, kind   # kind: "feature" | "sequence" | "generator"
        self.tmp = 0

    def fail(self, node, why):
        raise TranslationError(f"{self.f.name} l.{getattr(node, 'lineno', '?')}: {why}: `{src(node)[:90]}`")

    def fresh(self, stem="t"):
        self.tmp += 1
        return f"{stem}{self.tmp}"

    # ---------------------------------------------------------------- expressions
    def cond(self, node, env):
        t, ty = self.expr(node, env)
        if ty == PROP:
            return t
        if ty == BOOL:
            return f"({t} = true)"
        self.fail(node, f"truth value of a {ty}")

    def is_self_attr(self, node, attr):
        return isinstance(node, ast.Attribute) and isinstance(node.value, ast.Name) and node.value.id == "self" and node.attr == attr

    def expr(self, node, env):
        if isinstance(node, ast.Constant):
            if isinstance(node.value, bool):
                return ("true" if node.value else "false"), BOOL
            if isinstance(node.value, int):
                return (str(node.value) if node.value >= 0 else f"({node.value})"), INT
            if isinstance(node.value, str) and len(node.value) == 1 and node.value.isprintable() and node.value not in "'\\":
                return f"'{node.value}'", CHAR
            self.fail(node, "constant outside the fragment")
        if isinstance(node, ast.Name):
            if node.id not in env:
                self.fail(node, "unknown name")
            return env[node.id]
        if isinstance(node, ast.UnaryOp) and isinstance(node.op, ast.Not):
            return f"(¬ {self.cond(node.operand, env)})", PROP
        if isinstance(node, ast.BoolOp):
            op = " ∧ " if isinstance(node.op, ast.And) else " ∨ "
            return "(" + op.join(self.cond(x, env) for x in node.values) + ")", PROP
        if isinstance(node, ast.Compare) and len(node.ops) == 1:
            sym = {ast.Lt: "<", ast.LtE: "≤", ast.Gt: ">", ast.GtE: "≥", ast.Eq: "=", ast.NotEq: "≠"}.get(type(node.ops[0]))
            a, ta = self.expr(node.left, env)
            b, tb = self.expr(node.comparators[0], env)
            if sym is None or ta != INT or tb != INT:
                self.fail(node, "comparison outside the fragment")
            return f"({a} {sym} {b})", PROP
        if isinstance(node, ast.IfExp):
            c = self.cond(node.test, env)
            a, ta = self.expr(node.body, env)
            b, tb = self.expr(node.orelse, env)
            if ta != tb or ta == PROP:
                self.fail(node, f"branches of types {ta}/{tb}")
            return f"(if {c} then {a} else {b})", ta
        if isinstance(node, ast.BinOp) and isinstance(node.op, (ast.Add, ast.Sub)):
            a, ta = self.expr(node.left, env)
            b, tb = self.expr(node.right, env)
            if ta == INT and tb == INT:
                return f"({a} {'+' if isinstance(node.op, ast.Add) else '-'} {b})", INT
            self.fail(node, f"sum of {ta}/{tb}")
        if isinstance(node, ast.UnaryOp) and isinstance(node.op, ast.USub):
            a, ta = self.expr(node.operand, env)
            if ta != INT:
                self.fail(node, "negation of a non-int")
            return f"(-{a})", INT
        if isinstance(node, ast.BinOp) and isinstance(node.op, ast.Mult):
            a, ta = self.expr(node.left, env)
            b, tb = self.expr(node.right, env)
            if ta == CHAR and tb == INT:
                return f"(repeatChar {a} {b})", STR
            self.fail(node, f"product of {ta}/{tb}")
        if isinstance(node, ast.Attribute):
            if self.kind == "feature" and self.is_self_attr(node, "map"):
                return "self_map", FMAP
            if self.kind == "feature" and self.is_self_attr(node, "reversed"):
                return "self_reversed", BOOL
            b, tb = self.expr(node.value, env)
            if tb == FMAP and node.attr in ("complete", "start", "end", "num_spans", "spans"):
                fn, ty = {"complete": ("FMapG.complete", BOOL), "start": ("FMapG.start", INT), "end": ("FMapG.stop", INT),
                          "num_spans": ("FMapG.numSpans", INT), "spans": ("FMapG.spans", SPANS)}[node.attr]
                return f"({fn} {b})", ty
            if tb == SPAN and node.attr in ("lost", "start", "end", "length", "terminal"):
                fn, ty = {"lost": ("MSpan.isLost", BOOL), "start": ("MSpan.start", INT), "end": ("MSpan.stop", INT),
                          "length": ("MSpan.length", INT), "terminal": ("MSpan.terminal", BOOL)}[node.attr]
                return f"({fn} {b})", ty
            self.fail(node, f"attribute of a {tb}")
        if isinstance(node, ast.Subscript) and self.kind != "feature" and isinstance(node.slice, ast.Slice) and node.slice.step is None \
                and node.slice.lower is not None and node.slice.upper is not None and self.is_self_attr(node.value, "_seq"):
            a, ta = self.expr(node.slice.lower, env)
            b, tb = self.expr(node.slice.upper, env)
            if ta != INT or tb != INT:
                self.fail(node, "view slice bounds are not ints")
            return f"({a}) ({b})", VSLICE
        if isinstance(node, ast.Call):
            return self.call(node, env)
        self.fail(node, "expression outside the fragment")

    def call(self, node, env):
        f = node.func
        if isinstance(f, ast.Attribute) and f.attr == "without_gaps" and not node.args and not node.keywords:
            b, tb = self.expr(f.value, env)
            if tb == FMAP:
                return f"(FMapG.withoutGaps {b})", FMAP
        if isinstance(f, ast.Attribute) and f.attr == "rc" and not node.args and not node.keywords:
            b, tb = self.expr(f.value, env)
            if tb == STR:
                return f"(rcChars comp {b})", STR
        if isinstance(f, ast.Attribute) and f.attr == "join" and isinstance(f.value, ast.Constant) and f.value.value == "" and len(node.args) == 1:
            b, tb = self.expr(node.args[0], env)
            if tb == STRS:
                return f"({b}.flatten)", STR
        # str(self[a:b]) inside Sequence
        if isinstance(f, ast.Name) and f.id == "str" and len(node.args) == 1 and self.kind != "feature":
            x = node.args[0]
            if isinstance(x, ast.Subscript) and isinstance(x.value, ast.Name) and x.value.id == "self" and isinstance(x.slice, ast.Slice) \
                    and x.slice.step is None and x.slice.lower is not None and x.slice.upper is not None:
                a, ta = self.expr(x.slice.lower, env)
                b, tb = self.expr(x.slice.upper, env)
                if ta == INT and tb == INT:
                    return f"(strSlice comp s {a} {b})", STR
        self.fail(node, "call outside the fragment")

    def monadic(self, node, env):
        """(lean text of an `Except FErr T`, T) or None"""
        if isinstance(node, ast.Subscript) and self.kind == "feature" and self.is_self_attr(node.value, "parent"):
            if isinstance(node.slice, ast.Slice):
                if node.slice.step is not None or node.slice.lower is None or node.slice.upper is None:
                    self.fail(node, "parent slice outside the fragment")
                a, ta = self.expr(node.slice.lower, env)
                b, tb = self.expr(node.slice.upper, env)
                if ta != INT or tb != INT:
                    self.fail(node, "parent slice bounds are not ints")
                return f"parentGetSlice {a} {b}", STR
            m, tm = self.expr(node.slice, env)
            if tm != FMAP:
                self.fail(node, f"parent indexed by a {tm}")
            return f"parentGetMap {m}", STR
        if not isinstance(node, ast.Call):
            return None
        f = node.func
        if self.kind == "feature" and self.is_self_attr(f, "_do_seq_slice"):
            if len(node.args) != 1 or node.keywords:
                self.fail(node, "_do_seq_slice with other arguments")
            inner = self.monadic(node.args[0], env)
            if inner is not None:   # `self._do_seq_slice(self.parent[fmap])`: the argument is evaluated (and may raise) first
                if inner[1] != STR:
                    self.fail(node, f"_do_seq_slice of a {inner[1]}")
                t = self.fresh("r")
                return f"(match {inner[0]} with | .error e => .error e | .ok {t} => doSeqSlice comp self_map self_reversed {t})", STR
            a, ta = self.expr(node.args[0], env)
            if ta != STR:
                self.fail(node, f"_do_seq_slice of a {ta}")
            return f"doSeqSlice comp self_map self_reversed {a}", STR
        if self.kind == "sequence" and self.is_self_attr(f, "gapped_by_map_segment_iter"):
            callee = self.unit.method("gapped_by_map_segment_iter")
            if callee is None:
                self.fail(node, "gapped_by_map_segment_iter not found")
            names = [a.arg for a in callee.args.args if a.arg != "self"]
            defaults = dict(zip(names[len(names) - len(callee.args.defaults):], callee.args.defaults))
            given = dict(zip(names, node.args))
            for kw in node.keywords:
                if kw.arg not in names:
                    self.fail(node, "unknown keyword")
                given[kw.arg] = kw.value
            if names != ["segment_map", "allow_gaps", "recode_gaps"]:
                self.fail(node, f"gapped_by_map_segment_iter parameters {names}")
            args = []
            for n, want in zip(names, (FMAP, BOOL, BOOL)):
                v = given.get(n, defaults.get(n))
                if v is None:
                    self.fail(node, f"argument {n} missing")
                t, ty = self.expr(v, env)
                if ty == PROP:
                    t, ty = f"(decide {t})", BOOL
                if ty != want:
                    self.fail(node, f"argument {n} is a {ty}")
                args.append(t)
            return "segmentIter comp s " + " ".join(args), STRS
        if self.kind == "sequence" and isinstance(f, ast.Attribute) and f.attr == "__class__" and isinstance(f.value, ast.Name) and f.value.id == "self":
            kws = {k.arg: k.value for k in node.keywords}
            if None in kws:
                self.fail(node, "constructor with **kwargs")
            data = node.args[0] if node.args else kws.pop("seq", None)
            if data is None or "annotation_offset" not in kws:
                self.fail(node, "constructor without data / annotation_offset")
            if set(kws) - {"annotation_offset"} - IGNORED_CTOR_KW:
                self.fail(node, "constructor keyword outside the fragment")
            o, to = self.expr(kws["annotation_offset"], env)
            d, td = self.expr(data, env)
            if to != INT:
                self.fail(node, "annotation_offset is not an int")
            if td == STR:
                return f"ctorStr {d} {o}", STR
            if td == VSLICE:
                return f"ctorView comp s {d} {o}", STR
            self.fail(node, f"constructor data is a {td}")
        return None

    # ---------------------------------------------------------------- statements
    def block(self, stmts, env, ind):
        pad = "  " * ind
        if not stmts:
            self.fail(self.f, "falls off the end")
        s, rest = stmts[0], stmts[1:]
        if isinstance(s, ast.Expr) and isinstance(s.value, ast.Constant) and isinstance(s.value.value, str):
            return self.block(rest, env, ind)
        if isinstance(s, ast.Assign) and len(s.targets) == 1:
            t = s.targets[0]
            if isinstance(t, ast.Attribute) and isinstance(t.value, ast.Name) and env.get(t.value.id, (None, None))[1] == STR \
                    and isinstance(s.value, ast.Constant) and s.value.value is None:
                return self.block(rest, env, ind)   # S1
            if not isinstance(t, ast.Name):
                self.fail(s, "assignment target outside the fragment")
            m = self.monadic(s.value, env)
            e2 = dict(env)
            if m is not None:
                e2[t.id] = (ln(t.id), m[1])
                return f"{pad}match {m[0]} with\n{pad}| .error e => .error e\n{pad}| .ok {ln(t.id)} =>\n" + self.block(rest, e2, ind)
            x, tx = self.expr(s.value, env)
            if tx == PROP:
                x, tx = f"(decide {x})", BOOL
            if tx == VSLICE:
                e2[t.id] = (x, VSLICE)     # symbolic: substituted where it is used
                return self.block(rest, e2, ind)
            e2[t.id] = (ln(t.id), tx)
            return f"{pad}let {ln(t.id)} := {x}\n" + self.block(rest, e2, ind)
        if isinstance(s, ast.If):
            c = self.cond(s.test, env)
            a = self.block(s.body + rest, env, ind + 1)
            b = self.block(s.orelse + rest, env, ind + 1)
            return f"{pad}if {c} then (\n{a}{pad}) else (\n{b}{pad})\n"
        if isinstance(s, ast.Raise):
            exc = s.exc
            name = exc.func.id if isinstance(exc, ast.Call) and isinstance(exc.func, ast.Name) else exc.id if isinstance(exc, ast.Name) else None
            if name != "ValueError":
                self.fail(s, "raise outside the fragment")
            return f"{pad}.error .valueError\n"
        if isinstance(s, ast.Return):
            if self.kind == "generator" or s.value is None:
                self.fail(s, "return outside the fragment")
            m = self.monadic(s.value, env)
            if m is not None:
                if m[1] != STR:
                    self.fail(s, f"returns a {m[1]}")
                return f"{pad}{m[0]}\n"
            x, tx = self.expr(s.value, env)
            if tx != STR:
                self.fail(s, f"returns a {tx}")
            return f"{pad}.ok {x}\n"
        if isinstance(s, ast.For) and self.kind == "generator":
            if rest or s.orelse or not isinstance(s.target, ast.Name):
                self.fail(s, "generator loop outside the fragment")
            xs, tx = self.expr(s.iter, env)
            if tx != SPANS:
                self.fail(s, f"loop over a {tx}")
            e2 = dict(env)
            e2[s.target.id] = (ln(s.target.id), SPAN)
            body = self.loop_body(list(s.body), e2, ind + 2)
            return (f"{pad}mapExcept (fun ({ln(s.target.id)} : MSpan) => (show Except FErr (List Char) from\n{body}{pad}    )) {xs}\n")
        self.fail(s, "statement outside the fragment")

    def loop_body(self, stmts, env, ind):
        """body of the generator loop: assignments / ifs, ending (on every path) in `yield <string>`"""
        pad = "  " * ind
        if not stmts:
            self.fail(self.f, "a path of the generator loop does not yield")
        s, rest = stmts[0], stmts[1:]
        if isinstance(s, ast.Expr) and isinstance(s.value, ast.Yield):
            if rest or s.value.value is None:
                self.fail(s, "statements after the yield")
            x, tx = self.expr(s.value.value, env)
            if tx != STR:
                self.fail(s, f"yields a {tx}")
            return f"{pad}.ok {x}\n"
        if isinstance(s, ast.Assign) and len(s.targets) == 1 and isinstance(s.targets[0], ast.Name):
            x, tx = self.expr(s.value, env)
            if tx in (PROP, VSLICE):
                self.fail(s, f"loop local of type {tx}")
            e2 = dict(env)
            e2[s.targets[0].id] = (ln(s.targets[0].id), tx)
            return f"{pad}let {ln(s.targets[0].id)} := {x}\n" + self.loop_body(rest, e2, ind)
        if isinstance(s, ast.If):
            c = self.cond(s.test, env)
            a = self.loop_body(s.body + rest, env, ind + 1)
            b = self.loop_body(s.orelse + rest, env, ind + 1)
            return f"{pad}if {c} then (\n{a}{pad}) else (\n{b}{pad})\n"
        self.fail(s, "statement outside the fragment (generator loop)")


class Unit:
    def __init__(self, path, cls):
        self.path = Path(path)
        tree = ast.parse(self.path.read_text())
        self.cls = next((n for n in tree.body if isinstance(n, ast.ClassDef) and n.name == cls), None)
        if self.cls is None:
            raise TranslationError(f"{self.path.name}: class {cls} not found")

    def method(self, name):
        return next((n for n in self.cls.body if isinstance(n, ast.FunctionDef) and n.name == name), None)


def _params(fdef):
    a = fdef.args
    return [x.arg for x in a.posonlyargs + a.args + a.kwonlyargs if x.arg != "self"]


def _need(u, name):
    f = u.method(name)
    if f is None:
        raise TranslationError(f"{u.path.name}: {u.cls.name}.{name} not found")
    return f


def gen_annotation(path):
    u = Unit(path, "Feature")
    out = ["namespace GenAnn\n"]
    ds = _need(u, "_do_seq_slice")
    ps = _params(ds)
    if len(ps) != 1:
        raise TranslationError(f"_do_seq_slice parameters {ps}")
    fn = Fn(u, ds, "feature")
    body = fn.block(list(ds.body), {ps[0]: (ln(ps[0]), STR)}, 1)
    out.append("/-- `Feature._do_seq_slice(result)` (`result` = the residues of the sequence object) -/\n"
               f"def doSeqSlice (comp : Char → Char) (self_map : FMapG) (self_reversed : Bool) ({ln(ps[0])} : List Char) : Except FErr (List Char) :=\n" + body)
    gs = _need(u, "get_slice")
    ps = _params(gs)
    if ps != ["complete", "allow_gaps"]:
        raise TranslationError(f"get_slice parameters {ps}")
    fn = Fn(u, gs, "feature")
    body = fn.block(list(gs.body), {"complete": ("complete", BOOL), "allow_gaps": ("allow_gaps", BOOL)}, 1)
    out.append("\n/-- `Feature.get_slice(complete, allow_gaps)`; `parentGetMap m` = `self.parent[m]`, `parentGetSlice a b` = `self.parent[a:b]` -/\n"
               "def getSlice (comp : Char → Char) (parentGetMap : FMapG → Except FErr (List Char)) (parentGetSlice : Int → Int → Except FErr (List Char))\n"
               "    (self_map : FMapG) (self_reversed : Bool) (complete allow_gaps : Bool) : Except FErr (List Char) :=\n" + body)
    out.append("\nend GenAnn\n")
    return "".join(out), dict(do_seq_slice=len(ds.body), get_slice=len(gs.body))


def gen_sequence(path, ns):
    u = Unit(path, "Sequence")
    out = [f"namespace {ns}\n"]
    it = _need(u, "gapped_by_map_segment_iter")
    ps = _params(it)
    if ps != ["segment_map", "allow_gaps", "recode_gaps"]:
        raise TranslationError(f"gapped_by_map_segment_iter parameters {ps}")
    fn = Fn(u, it, "generator")
    body = fn.block(list(it.body), {"segment_map": ("segment_map", FMAP), "allow_gaps": ("allow_gaps", BOOL), "recode_gaps": ("recode_gaps", BOOL)}, 1)
    out.append("/-- `Sequence.gapped_by_map_segment_iter(segment_map, allow_gaps, recode_gaps)`: the list of the yielded segments -/\n"
               "def segmentIter (comp : Char → Char) (s : Seq) (segment_map : FMapG) (allow_gaps recode_gaps : Bool) : Except FErr (List (List Char)) :=\n" + body)
    mp = _need(u, "_mapped")
    ps = _params(mp)
    if len(ps) != 1:
        raise TranslationError(f"_mapped parameters {ps}")
    fn = Fn(u, mp, "sequence")
    body = fn.block(list(mp.body), {ps[0]: (ln(ps[0]), FMAP)}, 1)
    out.append("\n/-- `Sequence._mapped(map)`: the residues of the sequence it builds (or the constructor's exception) -/\n"
               f"def mapped (comp : Char → Char) (s : Seq) ({ln(ps[0])} : FMapG) : Except FErr (List Char) :=\n" + body)
    out.append(f"\nend {ns}\n")
    return "".join(out), dict(segment_iter=len(it.body), mapped=len(mp.body))


HEADER = """/-
  GENERATED by translator/c04_slice2lean.py from the python source of the checked tree -- do not edit.
  (core/annotation.py Feature.get_slice / _do_seq_slice -> GenAnn; core/sequence.py Sequence._mapped /
  gapped_by_map_segment_iter -> GenOldS; core/new_sequence.py -> GenNewS)

  Conventions: S1 attribute assignments on the result (annotation_db = None) are not modelled; S2 name / info / moltype /
  check arguments of constructors are ignored; S3 LostSpan.terminal reads false; S4 str(self[a:b]) is `strSlice`, rc() is
  `rcChars`; S5 Sequence.__getitem__ dispatches a map to _mapped.  A generator loop is `mapExcept body spans`.
  Props/C04GenSlice.lean proves these definitions equal to the hand model Model/FeatureSeq.lean.
-/
import CogentModel.Model.FeatureSliceGenPrelude
set_option linter.unusedVariables false
namespace CogentModel.C04GenSlice
open CogentModel.View CogentModel.SeqWrap CogentModel.FeatureView

"""


def translate(src_root):
    core = Path(src_root) / "core"
    if not core.exists():
        core = Path(src_root) / "cogent3" / "core"
    problems, info, parts = [], {}, []
    try:
        t, i = gen_annotation(core / "annotation.py")
        parts.append(t)
        info["GenAnn"] = i
    except (TranslationError, SyntaxError, OSError) as e:
        problems.append(f"annotation.py: {e}")
    for fname, ns in (("sequence.py", "GenOldS"), ("new_sequence.py", "GenNewS")):
        try:
            t, i = gen_sequence(core / fname, ns)
            parts.append("\n" + t)
            info[ns] = i
        except (TranslationError, SyntaxError, OSError) as e:
            problems.append(f"{fname}: {e}")
    if problems:
        return None, info, problems
    return HEADER + "".join(parts) + "\nend CogentModel.C04GenSlice\n", info, problems


def write_if_changed(path, text):
    path = Path(path)
    if path.exists() and path.read_text() == text:
        return False
    path.parent.mkdir(parents=True, exist_ok=True)
    path.write_text(text)
    return True


if __name__ == "__main__":
    import sys

    lean, info, problems = translate(sys.argv[1] if len(sys.argv) > 1 else "/repo/src/cogent3")
    print(info, problems, file=sys.stderr)
    if lean:
        print(lean)
