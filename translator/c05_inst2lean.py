"""C05: Python -> Lean translation of the pure decision logic behind the rate-matrix pipeline.

Reads, with ``ast`` only (nothing of cogent3 is imported or executed),

    evolve/substitution_model.py       class _ContinuousSubstitutionModel: _is_instantaneous, _is_any_indel and the class
                                       constant long_indels_are_instantaneous; class _Codon: _is_instantaneous + constant
    evolve/substitution_calculation.py ExpDefn.calc (which exponentiator an `expm` setting selects),
                                       _EigenPade.__call__ (the eigen -> Pade fall-back)

and emits ``lean/CogentModel/Gen/C05Inst.lean`` (namespace CogentModel.Gen.C05Inst): definitions over the hand-written
semantic domain ``Model/C05GenPrelude.lean`` (motifs = lists of character codes, None-able ints = Option Nat, back-end
constructors = an inductive type).  The output is a pure function of the source text.  ``Props/C05Gen.lean`` proves each
generated definition equal to the hand model used by the other C05 theorems, for all arguments.

Supported fragment -- anything else is a *translation problem* (returned, never skipped):
  statements   docstring, pass, ``v = e``, ``a = b = c = None``, if / elif / else, return, and (at the top level of a
               function, once) ``for i, (X, Y) in enumerate(zip(x, y)):`` whose body is made of the same statements;
               the loop becomes a structurally recursive function over the two lists whose extra arguments are the
               variables assigned in the body that exist before the loop (``return`` inside the body leaves the function)
  expressions  int / True / False / None, names, ``==  !=  <  <=  >  >=``, ``is None`` / ``is not None``, and / or / not,
               ``a if c else b``, ``sum([<bool expr in X, Y> for (X, Y) in zip(a, b)])``, ``[a, b].index(c)``,
               ``self.gapmotif``, ``self.gapmotif[i]``, ``self.long_indels_are_instantaneous``, ``self._is_any_indel(a, b)``
  ExpDefn.calc ``(n1, …, nk) = {<str>: (<bool>, …), …}[str(expm)]`` followed by if / return / assignments over those
               booleans and the constructors PadeExponentiator, FastExponentiator, CheckedExponentiator, _EigenPade(eigen=e)
  _EigenPade.__call__   ``try: return self.eigen(Q)  except (<names>) [as d]: [warning bookkeeping]; return <Constructor>(Q)``
"""
from __future__ import annotations

import ast
from pathlib import Path

GEN_REL = "CogentModel/Gen/C05Inst.lean"


class TranslationError(Exception):
    pass


def _src(node) -> str:
    try:
        return ast.unparse(node)
    except Exception:  # pragma: no cover
        return type(node).__name__


BACKENDS = {
    "PadeExponentiator": "Backend.pade",
    "FastExponentiator": "Backend.fast",
    "CheckedExponentiator": "Backend.checked",
}
ERRKINDS = {"ArithmeticError": "ErrKind.arithmetic", "LinAlgError": "ErrKind.linalg"}
CMP = {ast.Lt: "<", ast.LtE: "≤", ast.Gt: ">", ast.GtE: "≥"}
CTX = "(long_indels : Bool) (gapmotif : List Nat)"
CTX_ARGS = "long_indels gapmotif"


def _ident(name: str) -> str:
    if not name.isidentifier() or name in ("fun", "let", "if", "then", "else", "match", "with", "def", "do", "at", "end", "open", "from", "have", "show"):
        raise TranslationError(f"name {name!r} cannot be used as a Lean identifier")
    return name


class Fn:
    """translator of one function body.  `ret` is the Lean type every `return` must have."""

    def __init__(self, ret, allow_self=True, has_any_indel=False):
        self.ret = ret
        self.allow_self = allow_self
        self.has_any_indel = has_any_indel
        self.loops = []  # text of auxiliary loop definitions
        self.loop_name = None

    # ------------------------------------------------------------- expressions
    def lift(self, t, ty, want):
        if ty == want:
            return t
        if ty == "Nat" and want == "Opt":
            return f"(some {t})"
        raise TranslationError(f"a {ty} where a {want} is needed: {t}")

    def ex(self, e, env):
        if isinstance(e, ast.Constant):
            if e.value is True or e.value is False:
                return ("true" if e.value else "false"), "Bool"
            if e.value is None:
                return "none", "Opt"
            if isinstance(e.value, int) and e.value >= 0:
                return str(e.value), "Nat"
            raise TranslationError(f"constant {e.value!r}")
        if isinstance(e, ast.Name):
            if e.id in env:
                return _ident(e.id), env[e.id]
            if e.id in BACKENDS and self.ret == "Backend":
                return BACKENDS[e.id], "Backend"
            raise TranslationError(f"unknown name {e.id!r}")
        if isinstance(e, ast.Attribute) and isinstance(e.value, ast.Name) and e.value.id == "self" and self.allow_self:
            if e.attr == "gapmotif":
                return "gapmotif", "Word"
            if e.attr == "long_indels_are_instantaneous":
                return "long_indels", "Bool"
            raise TranslationError(f"attribute {_src(e)}")
        if isinstance(e, ast.Subscript):
            bt, bty = self.ex(e.value, env)
            it, ity = self.ex(e.slice, env)
            if bty == "Word" and ity == "Nat":
                return f"(charAt {bt} {it})", "Nat"
            raise TranslationError(f"subscript {_src(e)}")
        if isinstance(e, ast.Compare):
            if len(e.ops) != 1:
                raise TranslationError(f"chained comparison {_src(e)}")
            op, left, right = e.ops[0], e.left, e.comparators[0]
            if isinstance(op, (ast.Is, ast.IsNot)):
                if not (isinstance(right, ast.Constant) and right.value is None):
                    raise TranslationError(f"`is` with something other than None: {_src(e)}")
                lt, lty = self.ex(left, env)
                if lty != "Opt":
                    raise TranslationError(f"`is None` on a {lty}: {_src(e)}")
                return (f"({lt}).isSome" if isinstance(op, ast.IsNot) else f"({lt}).isNone"), "Bool"
            lt, lty = self.ex(left, env)
            rt, rty = self.ex(right, env)
            if isinstance(op, (ast.Eq, ast.NotEq)):
                if lty != rty:
                    want = "Opt" if {lty, rty} == {"Nat", "Opt"} else None
                    if want is None:
                        raise TranslationError(f"comparison of a {lty} with a {rty}: {_src(e)}")
                    lt, rt = self.lift(lt, lty, want), self.lift(rt, rty, want)
                return f"({lt} {'==' if isinstance(op, ast.Eq) else '!='} {rt})", "Bool"
            if type(op) in CMP:
                if lty != "Nat" or rty != "Nat":
                    raise TranslationError(f"ordering of a {lty} and a {rty}: {_src(e)}")
                return f"(decide ({lt} {CMP[type(op)]} {rt}))", "Bool"
            raise TranslationError(f"comparison {_src(e)}")
        if isinstance(e, ast.BoolOp):
            parts = []
            for v in e.values:
                t, ty = self.ex(v, env)
                if ty != "Bool":
                    raise TranslationError(f"truthiness of a {ty}: {_src(v)}")
                parts.append(t)
            return "(" + (" && " if isinstance(e.op, ast.And) else " || ").join(parts) + ")", "Bool"
        if isinstance(e, ast.UnaryOp) and isinstance(e.op, ast.Not):
            t, ty = self.ex(e.operand, env)
            if ty != "Bool":
                raise TranslationError(f"`not` on a {ty}: {_src(e)}")
            return f"(!{t})", "Bool"
        if isinstance(e, ast.IfExp):
            c = self.cond(e.test, env)
            a, aty = self.ex(e.body, env)
            b, bty = self.ex(e.orelse, env)
            if aty != bty:
                raise TranslationError(f"conditional expression with a {aty} and a {bty}: {_src(e)}")
            return f"(if {c} then {a} else {b})", aty
        if isinstance(e, ast.Call):
            return self.call(e, env)
        raise TranslationError(f"expression {_src(e)}")

    def cond(self, e, env):
        t, ty = self.ex(e, env)
        if ty != "Bool":
            raise TranslationError(f"truthiness of a {ty}: {_src(e)}")
        return t

    def call(self, e, env):
        f = e.func
        # sum([<bool> for (X, Y) in zip(a, b)])
        if isinstance(f, ast.Name) and f.id == "sum" and len(e.args) == 1 and not e.keywords and isinstance(e.args[0], (ast.ListComp, ast.GeneratorExp)):
            comp = e.args[0]
            if len(comp.generators) != 1:
                raise TranslationError(f"comprehension {_src(comp)}")
            g = comp.generators[0]
            tg, it = g.target, g.iter
            ok = (
                not g.ifs and not g.is_async
                and isinstance(tg, ast.Tuple) and len(tg.elts) == 2 and all(isinstance(x, ast.Name) for x in tg.elts)
                and isinstance(it, ast.Call) and isinstance(it.func, ast.Name) and it.func.id == "zip" and len(it.args) == 2 and not it.keywords
            )
            if not ok:
                raise TranslationError(f"comprehension {_src(comp)}")
            a, aty = self.ex(it.args[0], env)
            b, bty = self.ex(it.args[1], env)
            if aty != "Word" or bty != "Word":
                raise TranslationError(f"zip of a {aty} and a {bty}")
            n1, n2 = _ident(tg.elts[0].id), _ident(tg.elts[1].id)
            if n1 == n2:
                raise TranslationError(f"comprehension {_src(comp)}")
            inner = dict(env)
            inner[n1] = inner[n2] = "Nat"
            body = self.cond(comp.elt, inner)
            return f"(countZip (fun {n1} {n2} => {body}) {a} {b})", "Nat"
        # [a, b].index(c)
        if isinstance(f, ast.Attribute) and f.attr == "index" and isinstance(f.value, ast.List) and len(f.value.elts) == 2 and len(e.args) == 1 and not e.keywords:
            parts = []
            for x in (*f.value.elts, e.args[0]):
                t, ty = self.ex(x, env)
                if ty != "Nat":
                    raise TranslationError(f"{_src(e)}: a {ty}")
                parts.append(t)
            return f"(index2 {' '.join(parts)})", "Nat"
        # self._is_any_indel(a, b)
        if (isinstance(f, ast.Attribute) and isinstance(f.value, ast.Name) and f.value.id == "self" and f.attr == "_is_any_indel"
                and self.allow_self and self.has_any_indel and len(e.args) == 2 and not e.keywords):
            a, aty = self.ex(e.args[0], env)
            b, bty = self.ex(e.args[1], env)
            if aty != "Word" or bty != "Word":
                raise TranslationError(f"{_src(e)}")
            return f"(isAnyIndel {CTX_ARGS} {a} {b})", "Bool"
        # _EigenPade(eigen=e)
        if isinstance(f, ast.Name) and f.id == "_EigenPade" and self.ret == "Backend":
            arg = None
            if len(e.args) == 1 and not e.keywords:
                arg = e.args[0]
            elif not e.args and len(e.keywords) == 1 and e.keywords[0].arg == "eigen":
                arg = e.keywords[0].value
            if arg is None:
                raise TranslationError(f"{_src(e)}")
            t, ty = self.ex(arg, env)
            if ty != "Backend":
                raise TranslationError(f"{_src(e)}: a {ty}")
            return f"(Backend.eigenPade {t})", "Backend"
        raise TranslationError(f"call {_src(e)}")

    # ------------------------------------------------------------- statements (continuation passing)
    def block(self, stmts, env, kont, ind, top=False):
        """text of an expression of type self.ret; `kont(env)` is what happens when control falls off the end"""
        pad = "  " * ind
        if not stmts:
            if kont is None:
                raise TranslationError("control can fall off the end of the function (returns None)")
            return pad + kont(env)
        s, rest = stmts[0], stmts[1:]
        if isinstance(s, ast.Expr) and isinstance(s.value, ast.Constant) and isinstance(s.value.value, str):
            return self.block(rest, env, kont, ind, top)
        if isinstance(s, ast.Pass):
            return self.block(rest, env, kont, ind, top)
        if isinstance(s, ast.Return):
            if s.value is None:
                raise TranslationError("bare return")
            t, ty = self.ex(s.value, env)
            if ty != self.ret:
                raise TranslationError(f"return of a {ty} (need {self.ret}): {_src(s)}")
            if rest:
                raise TranslationError(f"statements after return: {_src(rest[0])}")
            return pad + t
        if isinstance(s, ast.Assign):
            if not all(isinstance(t, ast.Name) for t in s.targets):
                raise TranslationError(f"assignment target: {_src(s)}")
            t, ty = self.ex(s.value, env)
            env2 = dict(env)
            lines = []
            for tg in s.targets:
                name = _ident(tg.id)
                if name in ("x", "y", "gapmotif", "long_indels", "expm"):
                    raise TranslationError(f"assignment to a parameter: {_src(s)}")
                have = env2.get(name)
                if have is not None and have != ty:
                    tt = self.lift(t, ty, have)
                    tty = have
                else:
                    tt, tty = t, ty
                env2[name] = tty
                ann = {"Opt": " : Option Nat", "Nat": " : Nat", "Bool": " : Bool", "Word": " : List Nat", "Backend": " : Backend"}[tty]
                lines.append(f"{pad}let {name}{ann} := {tt}")
            return "\n".join(lines) + "\n" + self.block(rest, env2, kont, ind, top)
        if isinstance(s, ast.If):
            c = self.cond(s.test, env)
            ta, tb = _terminates(s.body), _terminates(s.orelse)
            if ta and tb and rest:
                raise TranslationError(f"unreachable statement: {_src(rest[0]).splitlines()[0]}")
            # the rest of the function is repeated in every branch that can reach it (a loop may be reached by one only)
            a = self.block(list(s.body) + ([] if ta else rest), env, kont, ind + 1, top and tb and not ta)
            b = self.block(list(s.orelse) + ([] if tb else rest), env, kont, ind + 1, top and ta and not tb)
            return f"{pad}if {c} then\n{a}\n{pad}else\n{b}"
        if isinstance(s, ast.For):
            if not top or self.loop_name is None or self.loops:
                raise TranslationError("for loop that is not the single top-level loop of the function")
            return self.loop(s, rest, env, kont, ind)
        raise TranslationError(f"statement {_src(s).splitlines()[0]}")

    def loop(self, s, rest, env, kont, ind):
        tg, it = s.target, s.iter
        ok = (
            not s.orelse
            and isinstance(tg, ast.Tuple) and len(tg.elts) == 2 and isinstance(tg.elts[0], ast.Name)
            and isinstance(tg.elts[1], ast.Tuple) and len(tg.elts[1].elts) == 2 and all(isinstance(x, ast.Name) for x in tg.elts[1].elts)
            and isinstance(it, ast.Call) and isinstance(it.func, ast.Name) and it.func.id == "enumerate" and len(it.args) == 1 and not it.keywords
            and isinstance(it.args[0], ast.Call) and isinstance(it.args[0].func, ast.Name) and it.args[0].func.id == "zip"
            and len(it.args[0].args) == 2 and not it.args[0].keywords
        )
        if not ok:
            raise TranslationError(f"loop header: for {_src(tg)} in {_src(it)}")
        a, aty = self.ex(it.args[0].args[0], env)
        b, bty = self.ex(it.args[0].args[1], env)
        if aty != "Word" or bty != "Word":
            raise TranslationError("zip of non-motifs")
        i, X, Y = _ident(tg.elts[0].id), _ident(tg.elts[1].elts[0].id), _ident(tg.elts[1].elts[1].id)
        if len({i, X, Y}) != 3 or {i, X, Y} & set(env):
            raise TranslationError("loop variables shadow other names")
        assigned = []
        for n in ast.walk(ast.Module(body=list(s.body), type_ignores=[])):
            if isinstance(n, ast.Assign):
                for t in n.targets:
                    if isinstance(t, ast.Name) and t.id not in assigned:
                        assigned.append(t.id)
            elif isinstance(n, (ast.AugAssign, ast.AnnAssign, ast.NamedExpr, ast.For, ast.While, ast.Break, ast.Continue, ast.Try, ast.With)):
                raise TranslationError(f"statement in loop body: {_src(n).splitlines()[0]}")
        state = [v for v in env if v in assigned and v not in ("x", "y")]
        # the body sees: the loop variables, the state, and nothing else of the enclosing function
        benv = {i: "Nat", X: "Nat", Y: "Nat"}
        for v in state:
            benv[v] = env[v]
        name = self.loop_name

        def again(e2):
            for v in state:
                if e2.get(v) != env[v]:
                    raise TranslationError(f"loop variable {v} changes type")
            return f"{name} {CTX_ARGS} ({i} + 1) xs' ys' " + " ".join(state)

        body = self.block(list(s.body), benv, again, 2)
        after_env = {v: env[v] for v in state}
        after = self.block(rest, after_env, kont, 2)
        tys = {"Opt": "Option Nat", "Nat": "Nat", "Bool": "Bool"}
        sig = " → ".join(["Nat", "List Nat", "List Nat"] + [tys[env[v]] for v in state] + [self.ret])
        pat = ", ".join([i, f"{X} :: xs'", f"{Y} :: ys'"] + state)
        wild = ", ".join(["_", "_", "_"] + state)
        self.loops.append(
            f"def {name} {CTX} : {sig}\n  | {pat} =>\n{body}\n  | {wild} =>\n{after}\n"
        )
        pad = "  " * ind
        return f"{pad}{name} {CTX_ARGS} 0 {a} {b} " + " ".join(state)


def _terminates(stmts) -> bool:
    """every path through `stmts` ends in a return"""
    if not stmts:
        return False
    last = stmts[-1]
    if isinstance(last, ast.Return):
        return True
    if isinstance(last, ast.If):
        return _terminates(last.body) and _terminates(last.orelse)
    return False


# ------------------------------------------------------------------ locating the source
def _class(tree, name):
    for n in tree.body:
        if isinstance(n, ast.ClassDef) and n.name == name:
            return n
    raise TranslationError(f"class {name} not found")


def _method(cls, name):
    fns = [n for n in cls.body if isinstance(n, ast.FunctionDef) and n.name == name]
    if len(fns) != 1:
        raise TranslationError(f"{cls.name}.{name}: found {len(fns)} definitions")
    fn = fns[0]
    if fn.decorator_list:
        raise TranslationError(f"{cls.name}.{name}: decorated")
    return fn


def _params(fn, want):
    a = fn.args
    names = [x.arg for x in a.args]
    if names != want or a.vararg or a.kwarg or a.kwonlyargs or a.posonlyargs or a.defaults:
        raise TranslationError(f"{fn.name}: parameters {names} (expected {want})")


def _bool_const(cls, name):
    vals = []
    for n in cls.body:
        if isinstance(n, ast.Assign) and any(isinstance(t, ast.Name) and t.id == name for t in n.targets):
            vals.append(n.value)
    if len(vals) != 1 or not (isinstance(vals[0], ast.Constant) and isinstance(vals[0].value, bool)):
        raise TranslationError(f"{cls.name}.{name}: not a single boolean class constant")
    return "true" if vals[0].value else "false"


def _word_fn(cls, pyname, leanname, has_any_indel, loop_name=None):
    fn = _method(cls, pyname)
    _params(fn, ["self", "x", "y"])
    tr = Fn("Bool", has_any_indel=has_any_indel)
    tr.loop_name = loop_name
    body = tr.block(list(fn.body), {"x": "Word", "y": "Word"}, None, 1, top=True)
    text = "".join(tr.loops)
    text += f"/-- `{cls.name}.{pyname}` -/\ndef {leanname} {CTX} (x y : List Nat) : Bool :=\n{body}\n"
    return text


def _exp_defn(tree):
    cls = _class(tree, "ExpDefn")
    fn = _method(cls, "calc")
    _params(fn, ["self", "expm"])
    body = [s for s in fn.body if not (isinstance(s, ast.Expr) and isinstance(s.value, ast.Constant))]
    if not body or not isinstance(body[0], ast.Assign) or len(body[0].targets) != 1:
        raise TranslationError("ExpDefn.calc: first statement is not the table look-up")
    tg, val = body[0].targets[0], body[0].value
    ok = (
        isinstance(tg, ast.Tuple) and len(tg.elts) >= 2 and all(isinstance(x, ast.Name) for x in tg.elts)
        and isinstance(val, ast.Subscript) and isinstance(val.value, ast.Dict)
        and isinstance(val.slice, ast.Call) and isinstance(val.slice.func, ast.Name) and val.slice.func.id == "str"
        and len(val.slice.args) == 1 and isinstance(val.slice.args[0], ast.Name) and val.slice.args[0].id == "expm"
    )
    if not ok:
        raise TranslationError(f"ExpDefn.calc: table look-up has another shape: {_src(body[0])}")
    names = [_ident(x.id) for x in tg.elts]
    if len(set(names)) != len(names):
        raise TranslationError("ExpDefn.calc: repeated flag name")
    rows = []
    for k, v in zip(val.value.keys, val.value.values):
        if not (isinstance(k, ast.Constant) and isinstance(k.value, str) and k.value.isascii() and k.value.isprintable() and '"' not in k.value and "\\" not in k.value):
            raise TranslationError("ExpDefn.calc: table key is not a plain string literal")
        if not (isinstance(v, ast.Tuple) and len(v.elts) == len(names) and all(isinstance(x, ast.Constant) and isinstance(x.value, bool) for x in v.elts)):
            raise TranslationError(f"ExpDefn.calc: table row {_src(v)}")
        rows.append((k.value, ["true" if x.value else "false" for x in v.elts]))
    keys = [k for k, _ in rows]
    if len(set(keys)) != len(keys):
        raise TranslationError("ExpDefn.calc: repeated table key")  # a dict literal keeps the LAST, List.lookup the first
    tr = Fn("Backend", allow_self=False)
    blk = tr.block(body[1:], {n: "Bool" for n in names}, None, 3, top=False)
    ty = " × ".join(["Bool"] * len(names))
    text = "/-- the dict literal of `ExpDefn.calc` -/\n"
    text += f"def expTable : List (String × ({ty})) :=\n  [" + ",\n   ".join(f'("{k}", ({", ".join(v)}))' for k, v in rows) + "]\n\n"
    text += "/-- `ExpDefn.calc` (`none` is the `KeyError` of the table look-up) -/\n"
    text += "def expSelect (expm : String) : Option Backend :=\n  match expTable.lookup expm with\n  | none => none\n"
    text += f"  | some ({', '.join(names)}) =>\n    some (\n{blk})\n"
    return text


def _eigen_pade(tree):
    cls = _class(tree, "_EigenPade")
    fn = _method(cls, "__call__")
    _params(fn, ["self", "Q"])
    body = [s for s in fn.body if not (isinstance(s, ast.Expr) and isinstance(s.value, ast.Constant))]
    if len(body) != 1 or not isinstance(body[0], ast.Try):
        raise TranslationError("_EigenPade.__call__: body is not a single try statement")
    t = body[0]
    if t.orelse or t.finalbody or len(t.handlers) != 1:
        raise TranslationError("_EigenPade.__call__: try statement with else / finally / several handlers")
    if not (len(t.body) == 1 and isinstance(t.body[0], ast.Return) and _src(t.body[0].value) == "self.eigen(Q)"):
        raise TranslationError("_EigenPade.__call__: try body is not `return self.eigen(Q)`")
    h = t.handlers[0]
    if h.type is None:
        raise TranslationError("_EigenPade.__call__: bare except")
    excs = h.type.elts if isinstance(h.type, ast.Tuple) else [h.type]
    kinds = []
    for x in excs:
        if not (isinstance(x, ast.Name) and x.id in ERRKINDS):
            raise TranslationError(f"_EigenPade.__call__: caught exception class {_src(x)}")
        kinds.append(ERRKINDS[x.id])
    fallback = None
    for s in h.body:
        if isinstance(s, ast.Return):
            v = s.value
            if (isinstance(v, ast.Call) and isinstance(v.func, ast.Name) and v.func.id in BACKENDS and len(v.args) == 1
                    and isinstance(v.args[0], ast.Name) and v.args[0].id == "Q" and not v.keywords and s is h.body[-1]):
                fallback = BACKENDS[v.func.id]
                continue
            raise TranslationError(f"_EigenPade.__call__: handler returns {_src(v)}")
        # warning bookkeeping only: `if not self.given_expm_warning: warnings.warn(...); self.given_expm_warning = True`
        if isinstance(s, ast.If) and _src(s.test) in ("not self.given_expm_warning", "self.given_expm_warning") and not s.orelse:
            for b in s.body:
                is_warn = isinstance(b, ast.Expr) and isinstance(b.value, ast.Call) and _src(b.value.func) == "warnings.warn"
                is_flag = isinstance(b, ast.Assign) and [_src(x) for x in b.targets] == ["self.given_expm_warning"]
                if not (is_warn or is_flag):
                    raise TranslationError(f"_EigenPade.__call__: handler statement {_src(b)}")
            continue
        if isinstance(s, ast.Expr) and isinstance(s.value, ast.Call) and _src(s.value.func) == "warnings.warn":
            continue
        raise TranslationError(f"_EigenPade.__call__: handler statement {_src(s).splitlines()[0]}")
    if fallback is None:
        raise TranslationError("_EigenPade.__call__: handler does not end in `return <Constructor>(Q)`")
    text = "/-- the exception classes `_EigenPade.__call__` catches -/\n"
    text += f"def eigenPadeCaught : List ErrKind := [{', '.join(kinds)}]\n\n"
    text += "/-- the constructor its handler falls back to -/\n"
    text += f"def eigenPadeFallback : Backend := {fallback}\n\n"
    text += "/-- `_EigenPade.__call__`: `eigen` is the outcome of `self.eigen(Q)`, `fallback` that of the fall-back constructor -/\n"
    text += "def eigenPadeCall {E : Type} (eigen fallback : Except ErrKind E) : Except ErrKind E :=\n  tryExcept eigenPadeCaught eigen fallback\n"
    return text


def translate(src: Path):
    """(text | None, problems)"""
    problems = []
    parts = []
    try:
        sm = ast.parse((src / "evolve" / "substitution_model.py").read_text())
        sc = ast.parse((src / "evolve" / "substitution_calculation.py").read_text())
    except (OSError, SyntaxError) as e:
        return None, [f"cannot read the source: {e}"]

    def step(what, f):
        try:
            parts.append(f())
        except TranslationError as e:
            problems.append(f"{what}: {e}")

    def consts():
        c = _class(sm, "_ContinuousSubstitutionModel")
        k = _class(sm, "_Codon")
        return (
            "/-- `_ContinuousSubstitutionModel.long_indels_are_instantaneous` -/\n"
            f"def longIndels : Bool := {_bool_const(c, 'long_indels_are_instantaneous')}\n\n"
            "/-- `_Codon.long_indels_are_instantaneous` -/\n"
            f"def codonLongIndels : Bool := {_bool_const(k, 'long_indels_are_instantaneous')}\n"
        )

    step("class constants", consts)
    step("_is_any_indel", lambda: _word_fn(_class(sm, "_ContinuousSubstitutionModel"), "_is_any_indel", "isAnyIndel", False, "isAnyIndelLoop"))
    step("_is_instantaneous", lambda: _word_fn(_class(sm, "_ContinuousSubstitutionModel"), "_is_instantaneous", "isInstantaneous", True))
    step("_Codon._is_instantaneous", lambda: _word_fn(_class(sm, "_Codon"), "_is_instantaneous", "codonIsInstantaneous", True))
    step("ExpDefn.calc", lambda: _exp_defn(sc))
    step("_EigenPade.__call__", lambda: _eigen_pade(sc))
    if problems:
        return None, problems
    head = (
        "/- GENERATED by translator/c05_inst2lean.py from cogent3/evolve/substitution_model.py and\n"
        "   cogent3/evolve/substitution_calculation.py on every run -- do not edit. -/\n"
        "import CogentModel.Model.C05GenPrelude\n"
        "set_option linter.unusedVariables false\n"
        "namespace CogentModel.Gen.C05Inst\nopen CogentModel.C05Gen\n\n"
    )
    return head + "\n".join(parts) + "\nend CogentModel.Gen.C05Inst\n", []


def write_if_changed(path: Path, text: str) -> bool:
    if path.exists() and path.read_text() == text:
        return False
    path.parent.mkdir(parents=True, exist_ok=True)
    path.write_text(text)
    return True


if __name__ == "__main__":  # pragma: no cover
    import sys

    text, problems = translate(Path(sys.argv[1] if len(sys.argv) > 1 else "/repo/src/cogent3"))
    print(text if text is not None else "\n".join(problems))
