"""C14: Python -> Lean translation of the decision logic of composed apps.

Reads, with ``ast`` only (nothing of cogent3 is imported or executed),

    app/composable.py   _call, _validate_data_type, _add, the module constant _builtin_seqs
    util/parallel.py    get_default_chunksize

and emits ``lean/CogentModel/Gen/C14Call.lean`` (namespace CogentModel.Gen.C14Call), definitions over the
hand-written semantic domain ``Model/CallPrims.lean``.  The output is a pure function of the source text.

Supported fragment -- anything else is a *translation problem* (returned, never skipped):
  statements   docstring, pass, ``x = e``, ``x += e``, ``a, b = divmod(e1, e2)``, if/elif/else, return,
               ``raise Exc(...)`` (only in _add), ``other.input = self`` (only in _add),
               ``try: x = self.main(val, *args, **kwargs)  except Exception: x = e``
  tests        ``x is None`` / ``is not None``, ``isinstance(x, NotCompleted | source_proxy | _builtin_seqs)``,
               ``self.app_type is [not] LOADER|WRITER|GENERIC``, ``e in self._data_types``, and / or / not,
               truthiness of a value (PV.truthy), of a set of type names (non-empty), of an int (!= 0), of ``self.input``
  values       ``NotCompleted(<str literal>, self, <message>, source=x)`` with message a str literal, an f-string over
               ``class_name`` / ``', '.join(list(self._data_types))``, ``traceback.format_exc()`` (inside the handler),
               ``self.input(val, *args, **kwargs)``, ``self._validate_data_type(x)``, ``x.obj``, ``len(x)``,
               ``next(iter(x))``, ``x.__class__.__name__``, ``S & {"name", …}``, ``S & T``, True / False, ``+`` ``*`` on ints

Code shape: ``if c: x = e`` (one variable, same type) becomes ``let x := if c then e else x``; any other ``if``
is ``if c then <body ; rest> else <orelse ; rest>`` (the rest of the function is repeated in both branches, so
every path is a straight line of lets and no join of differently typed variables is needed).
"""
from __future__ import annotations

import ast
from pathlib import Path


class TranslationError(Exception):
    pass


def _q(s: str) -> str:
    out = '"'
    for ch in s:
        if ch == '"':
            out += '\\"'
        elif ch == "\\":
            out += "\\\\"
        elif ch == "\n":
            out += "\\n"
        elif ch == "\t":
            out += "\\t"
        elif 32 <= ord(ch) < 127:
            out += ch
        else:
            out += "\\u{%x}" % ord(ch)
    return out + '"'


def _src(node) -> str:
    try:
        return ast.unparse(node)
    except Exception:  # pragma: no cover
        return type(node).__name__


KIND = {"LOADER": "loader", "WRITER": "writer", "GENERIC": "generic"}
ISINSTANCE = {"NotCompleted": "PV.isNC", "source_proxy": "PV.isProxy"}


class Fn:
    """translator of one function; `mode` in {'call', 'validate', 'add', 'chunk'}"""

    def __init__(self, mode, seq_classes=None):
        self.mode = mode
        self.seq_classes = seq_classes
        self.n_raise = 0
        self.raise_index = {}

    # ---------------- expressions: returns (text, type) ----------------
    def ex(self, e, env):
        m = self.mode
        if isinstance(e, ast.Constant):
            if e.value is True or e.value is False:
                return ("true" if e.value else "false"), "Bool"
            if isinstance(e.value, int):
                return str(e.value), "Nat"
            if isinstance(e.value, str):
                return _q(e.value), "Str"
            raise TranslationError(f"constant {e.value!r}")
        if isinstance(e, ast.Name):
            if e.id in env:
                return env[e.id]
            raise TranslationError(f"unknown name {e.id!r}")
        if isinstance(e, ast.Compare) and len(e.ops) == 1:
            op, left, right = e.ops[0], e.left, e.comparators[0]
            if isinstance(op, (ast.Is, ast.IsNot)):
                neg = isinstance(op, ast.IsNot)
                if isinstance(right, ast.Constant) and right.value is None:
                    if m == "add" and isinstance(left, ast.Attribute) and left.attr == "input" and isinstance(left.value, ast.Name):
                        t = f"{self.operand(left.value)}.hasInput"  # `x.input is not None`
                        return (t if neg else f"(!{t})"), "Bool"
                    t, ty = self.ex(left, env)
                    if ty != "PV":
                        raise TranslationError(f"`is None` on a {ty}: {_src(e)}")
                    return (f"(!(PV.isNone {t}))" if neg else f"(PV.isNone {t})"), "Bool"
                if isinstance(left, ast.Attribute) and left.attr == "app_type" and isinstance(right, ast.Name) and right.id in KIND:
                    if m == "add":
                        t = f"({self.operand(left.value)}.appType == some AppType.{KIND[right.id]})"
                    else:
                        self.want_self(left.value)
                        t = f"(self.kind == Kind.{KIND[right.id]})"
                    return (f"(!{t})" if neg else t), "Bool"
                if m == "add" and isinstance(left, ast.Name) and isinstance(right, ast.Name) and {left.id, right.id} == {"self", "other"}:
                    return ("(!same)" if neg else "same"), "Bool"
            if isinstance(op, (ast.In, ast.NotIn)):
                neg = isinstance(op, ast.NotIn)
                if m == "add" and isinstance(right, ast.Set) and self.is_getattr_apptype(left):
                    kinds = []
                    for x in right.elts:
                        if not (isinstance(x, ast.Name) and x.id in KIND):
                            raise TranslationError(f"set of app types: {_src(right)}")
                        kinds.append(f"AppType.{KIND[x.id]}")
                    t = f"(isAppTypeIn {self.operand(left.args[0])}.appType [{', '.join(kinds)}])"
                    return (f"(!{t})" if neg else t), "Bool"
                lt, lty = self.ex(left, env)
                rt, rty = self.ex(right, env)
                if lty == "Nat" and rty == "Types":
                    t = f"({rt}.contains {lt})"
                    return (f"(!{t})" if neg else t), "Bool"
            raise TranslationError(f"comparison {_src(e)}")
        if isinstance(e, ast.BoolOp):
            parts = [self.truthy(v, env) for v in e.values]
            return "(" + (" && " if isinstance(e.op, ast.And) else " || ").join(parts) + ")", "Bool"
        if isinstance(e, ast.UnaryOp) and isinstance(e.op, ast.Not):
            return f"(!{self.truthy(e.operand, env)})", "Bool"
        if isinstance(e, ast.BinOp):
            if isinstance(e.op, ast.BitAnd):
                lt, lty = self.ex(e.left, env)
                if lty != "Types":
                    raise TranslationError(f"`&` on a {lty}: {_src(e)}")
                if isinstance(e.right, ast.Set):
                    names = []
                    for x in e.right.elts:
                        if not (isinstance(x, ast.Constant) and isinstance(x.value, str)):
                            raise TranslationError(f"set literal {_src(e.right)}")
                        names.append(f"tyTag {_q(x.value)}")
                    return f"(inter {lt} [{', '.join(names)}])", "Types"
                rt, rty = self.ex(e.right, env)
                if rty != "Types":
                    raise TranslationError(f"`&` with a {rty}: {_src(e)}")
                return f"(inter {lt} {rt})", "Types"
            if isinstance(e.op, (ast.Add, ast.Mult)):
                lt, lty = self.ex(e.left, env)
                rt, rty = self.ex(e.right, env)
                if lty == rty == "Nat":
                    return f"({lt} {'+' if isinstance(e.op, ast.Add) else '*'} {rt})", "Nat"
            raise TranslationError(f"operator in {_src(e)}")
        if isinstance(e, ast.Attribute):
            if isinstance(e.value, ast.Name) and e.value.id in ("self", "other"):
                who = self.operand(e.value) if m == "add" else (self.want_self(e.value) or "self")
                if e.attr == "_skip_not_completed" and m != "add":
                    return "self.skipNC", "Bool"
                if e.attr == "_data_types":
                    return f"{who}.dataTypes", "Types"
                if e.attr == "_return_types":
                    return f"{who}.returnTypes", "Types"
                if e.attr == "input" and m == "call":
                    return "input", "Input"
                raise TranslationError(f"attribute {_src(e)}")
            if e.attr == "obj":
                t, ty = self.ex(e.value, env)
                if ty == "PV":
                    return f"(PV.proxyObj {t})", "PV"
            if e.attr == "__name__" and isinstance(e.value, ast.Attribute) and e.value.attr == "__class__":
                t, ty = self.ex(e.value.value, env)
                if ty == "PV":
                    return f"(PV.className {t})", "Nat"
            raise TranslationError(f"attribute {_src(e)}")
        if isinstance(e, ast.Call):
            f = e.func
            if isinstance(f, ast.Name):
                if f.id == "isinstance" and len(e.args) == 2 and isinstance(e.args[1], ast.Name):
                    t, ty = self.ex(e.args[0], env)
                    if ty != "PV":
                        raise TranslationError(f"isinstance on a {ty}")
                    c = e.args[1].id
                    if c in ISINSTANCE:
                        return f"({ISINSTANCE[c]} {t})", "Bool"
                    if c == "_builtin_seqs":
                        if not self.seq_classes:
                            raise TranslationError("_builtin_seqs is not a module-level tuple of class names")
                        return f"(PV.isSeqOf [{', '.join('clsTag ' + _q(x) for x in self.seq_classes)}] {t})", "Bool"
                    raise TranslationError(f"isinstance(…, {c})")
                if f.id == "len" and len(e.args) == 1 and not e.keywords:
                    t, ty = self.ex(e.args[0], env)
                    if ty == "PV":
                        return f"(PV.len {t})", "Nat"
                    if ty == "Len":
                        return t, "Nat"
                    raise TranslationError(f"len of a {ty}")
                if f.id == "next" and len(e.args) == 1 and isinstance(e.args[0], ast.Call) and isinstance(e.args[0].func, ast.Name) \
                        and e.args[0].func.id == "iter" and len(e.args[0].args) == 1:
                    t, ty = self.ex(e.args[0].args[0], env)
                    if ty == "PV":
                        return f"(PV.first {t})", "PV"
                if f.id == "NotCompleted":
                    return self.not_completed(e, env), "PV"
                raise TranslationError(f"call {_src(e)}")
            if isinstance(f, ast.Attribute) and isinstance(f.value, ast.Name) and f.value.id == "self" and m in ("call", "validate"):
                if f.attr == "input" and m == "call":
                    return f"(applyInput input {self.first_arg(e, env)})", "PV"
                if f.attr == "_validate_data_type" and len(e.args) == 1 and not e.keywords:
                    t, ty = self.ex(e.args[0], env)
                    if ty == "PV":
                        return f"(validateDataType self {t})", "PV"
            if isinstance(f, ast.Attribute) and f.attr == "format_exc" and isinstance(f.value, ast.Name) and f.value.id == "traceback" \
                    and not e.args and not e.keywords:
                if "__exc__" not in env:
                    raise TranslationError("traceback.format_exc() outside an exception handler")
                return "[Part.tb exc]", "Msg"
            raise TranslationError(f"call {_src(e)}")
        if isinstance(e, ast.JoinedStr):
            parts = []
            for v in e.values:
                if isinstance(v, ast.Constant) and isinstance(v.value, str):
                    parts.append(f"Part.lit {_q(v.value)}")
                elif isinstance(v, ast.FormattedValue) and v.conversion == -1 and v.format_spec is None:
                    x = v.value
                    if isinstance(x, ast.Call) and isinstance(x.func, ast.Attribute) and x.func.attr == "join" \
                            and isinstance(x.func.value, ast.Constant) and x.func.value.value == ", " and len(x.args) == 1:
                        a = x.args[0]
                        if isinstance(a, ast.Call) and isinstance(a.func, ast.Name) and a.func.id == "list" and len(a.args) == 1:
                            a = a.args[0]
                        t, ty = self.ex(a, env)
                        if ty != "Types":
                            raise TranslationError(f"join over a {ty}")
                        parts.append(f"Part.types {t}")
                    else:
                        t, ty = self.ex(x, env)
                        if ty != "Nat":
                            raise TranslationError(f"f-string field of type {ty}: {_src(x)}")
                        parts.append(f"Part.cls {t}")
                else:
                    raise TranslationError(f"f-string piece {_src(v)}")
            return "[" + ", ".join(parts) + "]", "Msg"
        raise TranslationError(f"expression {_src(e)}")

    def is_getattr_apptype(self, e):
        return (isinstance(e, ast.Call) and isinstance(e.func, ast.Name) and e.func.id == "getattr" and len(e.args) == 3
                and isinstance(e.args[0], ast.Name) and isinstance(e.args[1], ast.Constant) and e.args[1].value == "app_type"
                and isinstance(e.args[2], ast.Constant) and e.args[2].value is None)

    def operand(self, n):
        if isinstance(n, ast.Name) and n.id in ("self", "other"):
            return "self" if n.id == "self" else "other"
        raise TranslationError(f"operand {_src(n)}")

    def want_self(self, n):
        if not (isinstance(n, ast.Name) and n.id == "self"):
            raise TranslationError(f"expected self, got {_src(n)}")

    def first_arg(self, call, env):
        """`f(x, *args, **kwargs)`: the extra positional / keyword arguments of main are passed through unchanged"""
        if not call.args:
            raise TranslationError(f"call without the primary argument: {_src(call)}")
        for a in call.args[1:]:
            if not (isinstance(a, ast.Starred) and isinstance(a.value, ast.Name) and a.value.id == "args"):
                raise TranslationError(f"extra positional argument in {_src(call)}")
        for k in call.keywords:
            if not (k.arg is None and isinstance(k.value, ast.Name) and k.value.id == "kwargs"):
                raise TranslationError(f"extra keyword argument in {_src(call)}")
        t, ty = self.ex(call.args[0], env)
        if ty != "PV":
            raise TranslationError(f"primary argument of type {ty}")
        return t

    def not_completed(self, e, env):
        params = ["type", "origin", "message", "source"]
        got = {}
        for p, a in zip(params, e.args):
            got[p] = a
        for k in e.keywords:
            if k.arg not in params or k.arg in got:
                raise TranslationError(f"NotCompleted argument {k.arg!r}")
            got[k.arg] = k.value
        for p in params[:3]:
            if p not in got:
                raise TranslationError(f"NotCompleted without {p}")
        if not (isinstance(got["type"], ast.Constant) and isinstance(got["type"].value, str)):
            raise TranslationError("NotCompleted type is not a str literal")
        self.want_self(got["origin"])
        mt, mty = self.ex(got["message"], env)
        if mty == "Str":
            mt = f"[Part.lit {mt}]"
        elif mty != "Msg":
            raise TranslationError(f"NotCompleted message of type {mty}")
        if "source" in got:
            st, sty = self.ex(got["source"], env)
            if sty != "PV":
                raise TranslationError(f"NotCompleted source of type {sty}")
            s = f"(PV.source {st})"
        else:
            s = "none"
        return f"(mkNC {_q(got['type'].value)} self.name {mt} {s})"

    def truthy(self, e, env):
        t, ty = self.ex(e, env)
        if ty == "Bool":
            return t
        if ty == "PV":
            return f"(PV.truthy {t})"
        if ty == "Types":
            return f"(!({t}).isEmpty)"
        if ty == "Nat":
            return f"({t} != 0)"
        if ty == "Input":
            return "input.isSome"
        raise TranslationError(f"truth value of a {ty}: {_src(e)}")

    # ---------------- statements ----------------
    def coerce_ret(self, t, ty):
        want = {"call": "PV", "validate": "PV", "chunk": "Nat"}[self.mode]
        if ty == want:
            return t
        if want == "PV" and ty == "Bool":
            return f"(PV.bool {t})"
        raise TranslationError(f"return value of type {ty} where {want} is expected")

    def assign_only(self, body):
        """[(name, expr)] if the block is a single plain assignment to a name, else None"""
        if len(body) == 1 and isinstance(body[0], ast.Assign) and len(body[0].targets) == 1 and isinstance(body[0].targets[0], ast.Name):
            return body[0].targets[0].id, body[0].value
        return None

    def block(self, stmts, env, ind):
        pad = "  " * ind
        if not stmts:
            if self.mode == "add":
                return pad + "AddResult.fellThrough"
            raise TranslationError("the function can end without a return (implicit None)")
        s, rest = stmts[0], stmts[1:]
        if isinstance(s, ast.Expr) and isinstance(s.value, ast.Constant) and isinstance(s.value.value, str):
            return self.block(rest, env, ind)
        if isinstance(s, ast.Pass):
            return self.block(rest, env, ind)
        if isinstance(s, ast.Return):
            if self.mode == "add":
                if isinstance(s.value, ast.Name) and s.value.id == "other" and env.get("__connected__"):
                    return pad + "AddResult.connected"
                raise TranslationError(f"return {_src(s.value)} (expected `return other` after `other.input = self`)")
            if s.value is None:
                raise TranslationError("bare return")
            t, ty = self.ex(s.value, env)
            return pad + self.coerce_ret(t, ty)
        if isinstance(s, ast.Raise) and self.mode == "add":
            if not (isinstance(s.exc, ast.Call) and isinstance(s.exc.func, ast.Name)):
                raise TranslationError(f"raise {_src(s.exc)}")
            k = self.raise_index[id(s)]
            return pad + f"AddResult.raised {_q(s.exc.func.id)} {k}"
        if isinstance(s, ast.Assign) and len(s.targets) == 1:
            tgt = s.targets[0]
            if self.mode == "add" and isinstance(tgt, ast.Attribute) and tgt.attr == "input" and isinstance(tgt.value, ast.Name) \
                    and tgt.value.id == "other" and isinstance(s.value, ast.Name) and s.value.id == "self":
                return self.block(rest, dict(env, __connected__=True), ind)
            if isinstance(tgt, ast.Name):
                t, ty = self.ex(s.value, env)
                name = self.fresh(tgt.id)
                return pad + f"let {name} := {t}\n" + self.block(rest, dict(env, **{tgt.id: (name, ty)}), ind)
            if isinstance(tgt, ast.Tuple) and len(tgt.elts) == 2 and all(isinstance(x, ast.Name) for x in tgt.elts) \
                    and isinstance(s.value, ast.Call) and isinstance(s.value.func, ast.Name) and s.value.func.id == "divmod" and len(s.value.args) == 2:
                a, aty = self.ex(s.value.args[0], env)
                b, bty = self.ex(s.value.args[1], env)
                if aty != "Nat" or bty != "Nat":
                    raise TranslationError(f"divmod of {aty}, {bty}")
                q, r = tgt.elts[0].id, tgt.elts[1].id
                return (pad + f"let {q} := {a} / {b}\n" + pad + f"let {r} := {a} % {b}\n"
                        + self.block(rest, dict(env, **{q: (q, "Nat"), r: (r, "Nat")}), ind))
            raise TranslationError(f"assignment {_src(s)}")
        if isinstance(s, ast.AugAssign) and isinstance(s.op, ast.Add) and isinstance(s.target, ast.Name):
            t, ty = self.ex(s.value, env)
            cur, cty = env.get(s.target.id, (None, None))
            if ty != "Nat" or cty != "Nat":
                raise TranslationError(f"augmented assignment {_src(s)}")
            return pad + f"let {cur} := {cur} + {t}\n" + self.block(rest, env, ind)
        if isinstance(s, ast.Try):
            ok = (len(s.body) == 1 and len(s.handlers) == 1 and not s.orelse and not s.finalbody
                  and isinstance(s.handlers[0].type, ast.Name) and s.handlers[0].type.id == "Exception" and s.handlers[0].name is None)
            a, h = (self.assign_only(s.body), self.assign_only(s.handlers[0].body)) if ok else (None, None)
            if not ok or not a or not h or a[0] != h[0] or self.mode != "call":
                raise TranslationError("try statement is not `try: x = self.main(val, *args, **kwargs) except Exception: x = …`")
            call = a[1]
            if not (isinstance(call, ast.Call) and isinstance(call.func, ast.Attribute) and call.func.attr == "main"
                    and isinstance(call.func.value, ast.Name) and call.func.value.id == "self"):
                raise TranslationError(f"try body is not a call of self.main: {_src(call)}")
            arg = self.first_arg(call, env)
            ht, hty = self.ex(h[1], dict(env, __exc__=True))
            if hty != "PV":
                raise TranslationError(f"handler value of type {hty}")
            name = self.fresh(a[0])
            return (pad + f"let {name} := match self.main {arg} with\n" + pad + "  | ROut.ret r => r\n" + pad + f"  | ROut.raise exc => {ht}\n"
                    + self.block(rest, dict(env, **{a[0]: (name, "PV")}), ind))
        if isinstance(s, ast.If) and self.mode == "add" and not env.get("__input_checked__"):
            # `other.input` / `self.input` in a test: the attribute does not exist on a loader (AttributeError)
            who = sorted({self.operand(n.value) for n in ast.walk(s.test)
                          if isinstance(n, ast.Attribute) and n.attr == "input" and isinstance(n.value, ast.Name) and n.value.id in ("self", "other")})
            if who:
                inner = self.block(stmts, dict(env, __input_checked__=True), ind + 1)
                cond = " || ".join(f"{w}.inputAttrMissing" for w in who)
                return pad + f"if ({cond}) then\n" + pad + "  AddResult.raised \"AttributeError\" 99\n" + pad + "else\n" + inner
        if isinstance(s, ast.If):
            c = self.truthy(s.test, env)
            one = self.assign_only(s.body)
            if one and not s.orelse and one[0] in env:
                t, ty = self.ex(one[1], env)
                cur, cty = env[one[0]]
                if ty == cty:
                    return pad + f"let {cur} := if {c} then {t} else {cur}\n" + self.block(rest, env, ind)
            env = {k: v for k, v in env.items() if k != "__input_checked__"}
            return (pad + f"if {c} then\n" + self.block(list(s.body) + rest, env, ind + 1) + "\n" + pad + "else\n"
                    + self.block(list(s.orelse) + rest, env, ind + 1))
        raise TranslationError(f"statement {_src(s)[:80]}")

    def fresh(self, name):
        return name + "_" if name in ("end", "from", "at", "then", "fun", "let", "in", "do", "with", "match", "type") else name

    def number_raises(self, fn):
        k = 0
        for n in ast.walk(fn):  # ast.walk is breadth-first; use source order instead
            pass
        rs = sorted((n for n in ast.walk(fn) if isinstance(n, ast.Raise)), key=lambda n: (n.lineno, n.col_offset))
        for n in rs:
            self.raise_index[id(n)] = k
            k += 1
        return [(n.exc.func.id if isinstance(n.exc, ast.Call) and isinstance(n.exc.func, ast.Name) else "?") for n in rs]


def _find(tree, name):
    fns = [n for n in tree.body if isinstance(n, ast.FunctionDef) and n.name == name]
    if len(fns) != 1:
        raise TranslationError(f"expected exactly one module-level function {name!r}, found {len(fns)}")
    return fns[0]


def _params(fn, expect):
    got = [a.arg for a in fn.args.args]
    if got != expect:
        raise TranslationError(f"{fn.name}: parameters {got}, expected {expect}")


def translate(src: Path):
    """returns (lean_text | None, info, problems)"""
    problems, info = [], {}
    comp = ast.parse((src / "app" / "composable.py").read_text())
    par = ast.parse((src / "util" / "parallel.py").read_text())
    seq_classes = None
    for n in comp.body:
        if isinstance(n, ast.Assign) and len(n.targets) == 1 and isinstance(n.targets[0], ast.Name) and n.targets[0].id == "_builtin_seqs":
            if isinstance(n.value, ast.Tuple) and all(isinstance(x, ast.Name) for x in n.value.elts):
                seq_classes = [x.id for x in n.value.elts]
    info["_builtin_seqs"] = seq_classes
    defs = []

    def attempt(label, f):
        try:
            defs.append(f())
        except TranslationError as e:
            problems.append(f"{label}: {e}")

    def do_validate():
        fn = _find(comp, "_validate_data_type")
        _params(fn, ["self", "data"])
        body = Fn("validate", seq_classes).block(list(fn.body), {"data": ("data", "PV")}, 1)
        return ("/-- `_validate_data_type(self, data)`: `PV.bool true` = passes -/\n"
                "def validateDataType (self : RStep) (data : PV) : PV :=\n" + body)

    def do_call():
        fn = _find(comp, "_call")
        _params(fn, ["self", "val"])
        if not (fn.args.vararg and fn.args.vararg.arg == "args" and fn.args.kwarg and fn.args.kwarg.arg == "kwargs"):
            raise TranslationError("_call: expected *args, **kwargs")
        body = Fn("call", seq_classes).block(list(fn.body), {"val": ("val", "PV")}, 1)
        return ("/-- `_call(self, val)`; `input` = the connected app `self.input` (none: not connected) -/\n"
                "def call (self : RStep) (input : Option (PV → PV)) (val : PV) : PV :=\n" + body)

    def do_add():
        fn = _find(comp, "_add")
        _params(fn, ["self", "other"])
        tr = Fn("add")
        info["_add_raises"] = tr.number_raises(fn)
        body = tr.block(list(fn.body), {}, 1)
        return ("/-- `_add(self, other)`; `same` = `other is self` -/\n"
                "def add (self other : AppSig) (same : Bool) : AddResult :=\n" + body)

    def do_chunk():
        fn = _find(par, "get_default_chunksize")
        _params(fn, ["s", "max_workers"])
        body = Fn("chunk").block(list(fn.body), {"s": ("n", "Len"), "max_workers": ("max_workers", "Nat")}, 1)
        return ("/-- `get_default_chunksize(s, max_workers)` with `n = len(s)` -/\n"
                "def getDefaultChunksize (n max_workers : Nat) : Nat :=\n" + body)

    attempt("_validate_data_type", do_validate)
    attempt("_call", do_call)
    attempt("_add", do_add)
    attempt("get_default_chunksize", do_chunk)
    if problems:
        return None, info, problems
    text = (
        "import CogentModel.Model.CallPrims\n"
        "/- GENERATED by translator/c14_call2lean.py from cogent3/app/composable.py (_validate_data_type, _call, _add) and\n"
        "   cogent3/util/parallel.py (get_default_chunksize) on every run -- do not edit. -/\n"
        "namespace CogentModel.Gen.C14Call\n"
        "open CogentModel.Composable CogentModel.CallPrims\n\n"
        "def isAppTypeIn (t : Option AppType) (ks : List AppType) : Bool :=\n"
        "  match t with\n  | some k => ks.contains k\n  | none => false\n\n"
        + "\n\n".join(defs)
        + "\n\nend CogentModel.Gen.C14Call\n"
    )
    return text, info, problems


def write_if_changed(path: Path, text: str) -> bool:
    if path.exists() and path.read_text() == text:
        return False
    path.parent.mkdir(parents=True, exist_ok=True)
    path.write_text(text)
    return True


if __name__ == "__main__":  # pragma: no cover
    import sys

    t, i, p = translate(Path(sys.argv[1]))
    print(t if t else p)
    print(i, file=sys.stderr)
