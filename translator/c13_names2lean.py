"""C13: Python -> Lean translator for the identifier / file-name logic of `DataStoreDirectory`.

Reads (stdlib `ast` only; nothing of cogent3 is imported or executed) `app/data_store.py` and translates the NAMING SLICE of

    _special_suffixes (module constant)      -> special
    DataStoreDirectory.__contains__          -> contains_item        the string compared with the member ids
    DataStoreABC.write / _check_writable     -> check_writable       which calls are refused (read-only / append + member)
    DataStoreDirectory._write                -> resolve, skip_guard, write_events
    DataStoreDirectory.drop_not_completed    -> drop_key, drop_skip, drop_file, drop_md5, drop_events
    DataStoreDirectory.md5                   -> md5_lookup
    DataStoreDirectory.completed / not_completed -> glob_completed, glob_not_completed (the glob patterns)

into lean/CogentModel/Gen/C13Names.lean (a pure function of the source text: unchanged source => unchanged file).
Props/C13.lean proves every generated definition equal to the hand model (Model/DataStore.lean) for ALL arguments, so a
semantic edit of the naming logic breaks a proof obligation (or is a reported translation problem).

What "naming slice" means.  The methods mix string computations with file-system effects.  The translator executes each
method body symbolically, statement by statement:
  * an assignment whose target is a NAMING variable (the identifier, the values derived from it, a path built from
    `self.source`) is translated; `if c: <assignments>` becomes a conditional value for every variable assigned in it;
  * a statement with an effect (`with atomic_write(path) …`, `open_`, `.unlink()`, `.remove(m)`, `.rmdir()`, `raise`,
    `super().write(unique_id=…)`, `… in self`, `return`) is recorded as an EVENT, in source order, together with the translated
    name it acts on; the event lists are generated as Lean data and proved equal to the order the model uses;
  * an assignment to any other variable (`mode`, `newline`, `md5`, `member`) is outside the slice and skipped -- a later USE of
    such a variable in a naming expression is a translation problem (unknown name), never a silent guess;
  * everything else is a translation PROBLEM.

Supported expressions: names, str constants, `self.suffix`, the module's string constants, f-strings of those,
`s.replace(a, b)`, `Path(s)`, `Path(s).stem/.name`, `p.stem/.name` of a path value, `self.source / a / b`, `get_format_suffixes(s)`
(tuple target), `==`/`!=` of strings / optional strings, `a in b`/`a not in b` of strings, `x in self`, `x is None`, truth value
of a string, `not`, `and`, `or`, conditional expressions, `_special_suffixes.search(s)`,
`re.sub(rf"[.]({self.suffix}|word)$", ".ext", s)`, `re.compile(r"\\.(w1|w2)$")`.
Conventions (stated in the generated header too)
  N1  `s.replace(old, new)` is DataStore.replaceAll (all call sites have a non-empty `old` on the generated domain: the store
      suffix, '.'+suffix, the write suffix, '.'+compression suffix).
  N2  `[.](A|B)$` with an interpolated A is DataStore.reSubDotAltEnd: A is read as a regular expression ('.' = any character
      but newline), alternatives are tried in order at their own (fixed-length) position; Python takes the LEFTMOST match,
      which is the same whenever at most one alternative matches (true on the generated domain).
  N3  `Path(x)` is the identity on the string; `.name` = DataStore.pathName, `.stem` = DataStore.pathStem.
  N4  `get_format_suffixes` is the hand model DataStore.getFormatSuffixes (tied by the exhaustive short-string stream).
"""
from __future__ import annotations

import ast
import re
from pathlib import Path

STR, OPT, BOOL, PATHV, PAIR = "Str", "Option Str", "Bool", "path", "pair"


class TranslationError(Exception):
    pass


def _lit(s: str) -> str:
    if not s:
        return "([] : Str)"
    return "[" + ", ".join("'" + ("\\\\" if c == "\\" else "\\'" if c == "'" else "\\n" if c == "\n" else c) + "'" for c in s) + "]"


def _par(t):
    return t if re.fullmatch(r"[A-Za-z_][A-Za-z0-9_.']*", t) or (t.startswith("[") and t.endswith("]")) or (t.startswith("(") and t.endswith(")") and t.count("(") == 1) else f"({t})"


class Slice:
    """symbolic execution of one method body"""

    def __init__(self, fname, consts, params):
        self.f = fname
        self.consts = consts  # module-level string constants
        self.env = {}  # python name -> (lean name, type) ; PATHV: (list of component lean names, PATHV)
        self.lets = []  # (lean name, type, text)
        self.count = {}
        self.events = []
        self.skipped = []
        for p, (ln, ty) in params.items():
            self.env[p] = (ln, ty)

    # ---- names ----
    def fresh(self, base):
        n = self.count.get(base, 0)
        self.count[base] = n + 1
        return base if n == 0 else f"{base}{n}"

    def bind(self, pyname, ty, text):
        ln = self.fresh(pyname.lstrip("_") + "_v")
        self.lets.append((ln, ty, text))
        self.env[pyname] = (ln, ty)
        return ln

    def err(self, msg):
        raise TranslationError(f"{self.f}: {msg}")

    # ---- expressions ----
    def expr(self, e):
        if isinstance(e, ast.Name):
            if e.id in self.env:
                return self.env[e.id]
            if e.id in self.consts:
                return _lit(self.consts[e.id]), STR
            self.err(f"unknown name {e.id} (not a naming variable)")
        if isinstance(e, ast.Constant):
            if isinstance(e.value, str):
                return _lit(e.value), STR
            self.err(f"constant {e.value!r}")
        if isinstance(e, ast.Attribute):
            if isinstance(e.value, ast.Name) and e.value.id == "self" and e.attr == "suffix":
                return self.env["self.suffix"]
            if isinstance(e.value, ast.Name) and e.value.id == "self" and e.attr == "source":
                return [], PATHV
            if e.attr in ("stem", "name"):
                t, ty = self.expr(e.value)
                fn = "pathStem" if e.attr == "stem" else "pathName"
                if ty == PATHV:
                    if not t:
                        self.err("stem/name of the bare source directory")
                    return f"{fn} {_par(t[-1])}", STR
                if ty == STR:
                    return f"{fn} {_par(t)}", STR
            if e.attr == "unique_id" and isinstance(e.value, ast.Name) and e.value.id in self.env and self.env[e.value.id][1] == "member":
                return self.env[e.value.id][0], STR
            self.err(f"attribute {ast.unparse(e)}")
        if isinstance(e, ast.JoinedStr):
            parts = []
            for v in e.values:
                if isinstance(v, ast.Constant):
                    parts.append(_lit(v.value))
                elif isinstance(v, ast.FormattedValue) and v.conversion == -1 and v.format_spec is None:
                    t, ty = self.expr(v.value)
                    if ty != STR:
                        self.err(f"f-string field of type {ty}")
                    parts.append(_par(t))
                else:
                    self.err("f-string with conversion / format spec")
            return " ++ ".join(parts) if parts else "([] : Str)", STR
        if isinstance(e, ast.IfExp):
            c = self.truth(e.test)
            # `a if x is None else b`: inside `b` the optional string x is a string (x.getD [])
            refine = None
            t = e.test
            if isinstance(t, ast.Compare) and len(t.ops) == 1 and isinstance(t.ops[0], (ast.Is, ast.IsNot)) and isinstance(t.left, ast.Name) \
                    and isinstance(t.comparators[0], ast.Constant) and t.comparators[0].value is None and self.env.get(t.left.id, (None, None))[1] == OPT:
                refine = (t.left.id, "orelse" if isinstance(t.ops[0], ast.Is) else "body")
            saved = dict(self.env)

            def branch(which, node):
                if refine and refine[1] == which:
                    self.env[refine[0]] = (f"({saved[refine[0]][0]}.getD [])", STR)
                try:
                    return self.expr(node)
                finally:
                    self.env = dict(saved)

            a, ta = branch("body", e.body)
            b, tb = branch("orelse", e.orelse)
            if ta != tb or ta not in (STR, OPT, BOOL):
                self.err(f"conditional expression of types {ta} / {tb}")
            return f"if {c} then {a} else {b}", ta
        if isinstance(e, ast.UnaryOp) and isinstance(e.op, ast.Not):
            return f"!{_par(self.truth(e.operand))}", BOOL
        if isinstance(e, ast.BoolOp):
            op = " && " if isinstance(e.op, ast.And) else " || "
            return op.join(_par(self.truth(v)) for v in e.values), BOOL
        if isinstance(e, ast.Compare) and len(e.ops) == 1:
            return self.compare(e.left, e.ops[0], e.comparators[0])
        if isinstance(e, ast.BinOp) and isinstance(e.op, ast.Div):
            l, tl = self.expr(e.left)
            if tl != PATHV:
                self.err(f"'/' on a {tl}")
            r, tr = self.expr(e.right)
            if tr == PATHV:
                self.err("'/' with a path on the right")
            if tr != STR:
                self.err(f"path component of type {tr}")
            return l + [r], PATHV
        if isinstance(e, ast.Call):
            return self.call(e)
        self.err(f"unsupported expression {type(e).__name__}: {ast.unparse(e)[:60]}")

    def compare(self, left, op, right):
        if isinstance(op, (ast.Is, ast.IsNot)) and isinstance(right, ast.Constant) and right.value is None:
            t, ty = self.expr(left)
            if ty != OPT:
                self.err(f"`is None` on a {ty}")
            return (f"{_par(t)}.isNone" if isinstance(op, ast.Is) else f"{_par(t)}.isSome"), BOOL
        if isinstance(op, (ast.In, ast.NotIn)):
            if isinstance(right, ast.Name) and right.id == "self":
                self.err("`in self` outside a recognised membership test")
            a, ta = self.expr(left)
            b, tb = self.expr(right)
            if ta != STR or tb != STR:
                self.err(f"`in` on {ta} / {tb}")
            t = f"isInfix {_par(a)} {_par(b)}"
            return (t if isinstance(op, ast.In) else f"!({t})"), BOOL
        if isinstance(op, (ast.Eq, ast.NotEq)):
            a, ta = self.expr(left)
            b, tb = self.expr(right)
            if ta == OPT and tb == STR:
                b, tb = f"some {_par(b)}", OPT
            if ta == STR and tb == OPT:
                a, ta = f"some {_par(a)}", OPT
            if ta != tb or ta not in (STR, OPT):
                self.err(f"comparison of {ta} with {tb}")
            return f"{_par(a)} {'==' if isinstance(op, ast.Eq) else '!='} {_par(b)}", BOOL
        self.err(f"comparison {type(op).__name__}")

    def truth(self, e):
        t, ty = self.expr(e)
        if ty == BOOL:
            return t
        if ty == STR:
            return f"!{_par(t)}.isEmpty"
        self.err(f"truth value of a {ty}")

    def call(self, e):
        fn = e.func
        if isinstance(fn, ast.Attribute) and fn.attr == "replace" and len(e.args) == 2 and not e.keywords:
            s, ts = self.expr(fn.value)
            a, ta = self.expr(e.args[0])
            b, tb = self.expr(e.args[1])
            if (ts, ta, tb) != (STR, STR, STR):
                self.err("replace on non-strings")
            return f"replaceAll {_par(s)} {_par(a)} {_par(b)}", STR
        if isinstance(fn, ast.Name) and fn.id == "Path" and len(e.args) == 1 and not e.keywords:
            t, ty = self.expr(e.args[0])
            if ty == STR:
                return t, STR  # N3
            if ty == PATHV:
                return t, PATHV
            self.err(f"Path() of a {ty}")
        if isinstance(fn, ast.Name) and fn.id == "get_format_suffixes" and len(e.args) == 1 and not e.keywords:
            t, ty = self.expr(e.args[0])
            if ty != STR:
                self.err("get_format_suffixes of a non-string")
            return f"getFormatSuffixes {_par(t)}", PAIR
        if isinstance(fn, ast.Attribute) and fn.attr == "search" and isinstance(fn.value, ast.Name) and fn.value.id == "_special_suffixes" and len(e.args) == 1:
            t, ty = self.expr(e.args[0])
            if ty != STR:
                self.err("regex search on a non-string")
            return f"special {_par(t)}", BOOL
        if isinstance(fn, ast.Attribute) and fn.attr == "sub" and isinstance(fn.value, ast.Name) and fn.value.id == "re" and len(e.args) == 3 and not e.keywords:
            alts = self.dot_alt_end(e.args[0])
            r, tr = self.expr(e.args[1])
            s, ts = self.expr(e.args[2])
            if (tr, ts) != (STR, STR):
                self.err("re.sub on non-strings")
            return f"reSubDotAltEnd [{', '.join(alts)}] {_par(r)} {_par(s)}", STR
        self.err(f"unsupported call {ast.unparse(e)[:70]}")

    def dot_alt_end(self, pat):
        """`[.](A|B|...)$` with interpolated / literal alternatives -> Lean `Alt` list"""
        if isinstance(pat, ast.Constant) and isinstance(pat.value, str):
            pieces = [pat.value]
        elif isinstance(pat, ast.JoinedStr):
            pieces = []
            for v in pat.values:
                if isinstance(v, ast.Constant):
                    pieces.append(v.value)
                elif isinstance(v, ast.FormattedValue) and v.conversion == -1 and v.format_spec is None:
                    t, ty = self.expr(v.value)
                    if ty != STR:
                        self.err("interpolated regex field is not a string")
                    pieces.append(("interp", t))
                else:
                    self.err("regex f-string with conversion")
        else:
            self.err("regular expression is not a literal / f-string")
        # flatten into a token string with placeholders
        toks, interp = "", []
        for p in pieces:
            if isinstance(p, tuple):
                toks += f"\x00{len(interp)}\x00"
                interp.append(p[1])
            else:
                toks += p
        m = re.fullmatch(r"(?:\[\.\]|\\\.)\((.*)\)\$", toks, flags=re.S)
        if not m:
            self.err(f"regular expression {toks!r} is not of the shape [.](A|B)$")
        alts = []
        for a in m.group(1).split("|"):
            mi = re.fullmatch("\x00(\\d+)\x00", a)
            if mi:
                alts.append(f".pat {_par(interp[int(mi.group(1))])}")
            elif re.fullmatch(r"[A-Za-z0-9_]+", a):
                alts.append(f".lit {_lit(a)}")
            else:
                self.err(f"regex alternative {a!r} is neither an interpolated field nor a plain word")
        return alts


def special_regex(value, fname):
    """`re.compile(r"\\.(w1|w2)$")` -> list of words"""
    if not (isinstance(value, ast.Call) and ast.unparse(value.func) == "re.compile" and len(value.args) == 1 and not value.keywords
            and isinstance(value.args[0], ast.Constant) and isinstance(value.args[0].value, str)):
        raise TranslationError(f"{fname}: not re.compile(<literal>)")
    m = re.fullmatch(r"(?:\[\.\]|\\\.)\(([A-Za-z0-9_|]+)\)\$", value.args[0].value)
    if not m:
        raise TranslationError(f"{fname}: pattern {value.args[0].value!r} is not of the shape \\.(w1|w2)$")
    return m.group(1).split("|")


# ------------------------------------------------------------------------------------------------------------------
# statement walkers, one per method (each states exactly which effect statements it recognises)
# ------------------------------------------------------------------------------------------------------------------
NAMING = {"unique_id", "sfx", "cmp", "md5_id", "record_path", "item", "file", "md5_file", "nc_dir", "md5_dir", "path"}


def _assigned(stmts):
    out = []
    for s in stmts:
        for n in ast.walk(s):
            if isinstance(n, (ast.Assign, ast.AugAssign, ast.AnnAssign)):
                for t in (n.targets if isinstance(n, ast.Assign) else [n.target]):
                    for x in ast.walk(t):
                        if isinstance(x, ast.Name) and x.id not in out:
                            out.append(x.id)
    return out


def _is_self_attr(e, attr):
    return isinstance(e, ast.Attribute) and isinstance(e.value, ast.Name) and e.value.id == "self" and e.attr == attr


def _mode_test(e):
    """`self.mode is READONLY` / `self.mode is not READONLY` / `self.mode is APPEND` -> ('is'|'is not', NAME)"""
    if isinstance(e, ast.Compare) and len(e.ops) == 1 and _is_self_attr(e.left, "mode") and isinstance(e.comparators[0], ast.Name) \
            and isinstance(e.ops[0], (ast.Is, ast.IsNot)):
        return ("is" if isinstance(e.ops[0], ast.Is) else "is not"), e.comparators[0].id
    return None


def assign(sl: Slice, st: ast.Assign):
    """translate one assignment to naming variables; returns False when it is outside the slice"""
    if len(st.targets) != 1:
        sl.err("chained assignment")
    tg = st.targets[0]
    if isinstance(tg, ast.Tuple):
        names = [x.id if isinstance(x, ast.Name) else None for x in tg.elts]
        if None in names:
            sl.err("tuple target with non-names")
        if not any(n in NAMING for n in names):
            sl.skipped.append(ast.unparse(st)[:80])
            return False
        t, ty = sl.expr(st.value)
        if ty != PAIR or len(names) != 2:
            sl.err("tuple assignment of a non-pair")
        p = sl.fresh("fs_v")
        sl.lets.append((p, "Option Str × Option Str", t))
        sl.bind(names[0], OPT, f"{p}.1")
        sl.bind(names[1], OPT, f"{p}.2")
        return True
    if not isinstance(tg, ast.Name):
        if isinstance(tg, ast.Attribute) and isinstance(tg.value, ast.Name) and tg.value.id == "self":
            return None  # attribute of self: an effect, handled by the caller
        sl.err(f"assignment target {ast.unparse(tg)}")
    if tg.id not in NAMING:
        sl.skipped.append(ast.unparse(st)[:80])
        sl.env.pop(tg.id, None)
        return False
    t, ty = sl.expr(st.value)
    if ty == PATHV:
        sl.env[tg.id] = (t, PATHV)
    elif ty in (STR, OPT, BOOL):
        sl.bind(tg.id, ty, t)
    else:
        sl.err(f"assignment of a {ty}")
    return True


def cond_assign(sl: Slice, st: ast.If):
    """`if c: <assignments to naming variables>` (no else): conditional values"""
    if st.orelse:
        sl.err("if/else around naming assignments")
    c = sl.truth(st.test)
    cn = sl.fresh("cond_v")
    sl.lets.append((cn, BOOL, c))
    before = dict(sl.env)
    for s in st.body:
        if not isinstance(s, ast.Assign) or assign(sl, s) is not True:
            sl.err(f"statement inside a naming `if` is not a naming assignment: {ast.unparse(s)[:60]}")
    for name, (ln, ty) in list(sl.env.items()):
        if name in before and before[name] != (ln, ty):
            old, oty = before[name]
            if oty != ty or ty == PATHV:
                sl.err(f"{name} changes type inside `if`")
            sl.bind(name, ty, f"if {cn} then {ln} else {old}")
        elif name not in before:
            sl.err(f"{name} is first assigned inside `if`")


def path_last(sl, e, want_dir=None):
    """(directory components, last component) of a path expression / variable"""
    t, ty = sl.expr(e)
    if ty != PATHV or not t:
        sl.err(f"{ast.unparse(e)[:50]} is not a path below self.source")
    return t[:-1], t[-1]


def walk_write(sl: Slice, body):
    """DataStoreDirectory._write"""
    out = {}
    for st in body:
        if isinstance(st, ast.Expr) and isinstance(st.value, ast.Constant):
            continue  # docstring
        if isinstance(st, ast.Expr) and isinstance(st.value, ast.Call) and ast.unparse(st.value.func) == "super().write":
            kw = {k.arg: k.value for k in st.value.keywords}
            if st.value.args or set(kw) != {"unique_id", "data"}:
                sl.err("super().write call shape")
            t, ty = sl.expr(kw["unique_id"])
            out.setdefault("chk1", t)
            sl.events.append("check_writable")
            continue
        if isinstance(st, ast.Assert):
            if not (isinstance(st.test, ast.Name) and st.test.id == "suffix"):
                sl.err(f"assert {ast.unparse(st.test)[:40]}")
            continue  # the write suffix is non-empty (all three callers pass a literal / the store suffix)
        if isinstance(st, ast.Assign):
            r = assign(sl, st)
            if r is None:
                sl.err(f"assignment to an attribute of self: {ast.unparse(st)[:50]}")
            continue
        if isinstance(st, ast.If):
            names = _assigned([st])
            rets = [n for n in ast.walk(st) if isinstance(n, ast.Return)]
            withs = [n for n in ast.walk(st) if isinstance(n, ast.With)]
            # `if <guard> and <x> in self: return None`
            if rets and not withs and not names:
                if len(st.body) != 1 or st.orelse or not (isinstance(st.body[0], ast.Return) and (st.body[0].value is None or (isinstance(st.body[0].value, ast.Constant) and st.body[0].value.value is None))):
                    sl.err("early return shape")
                conj = st.test.values if isinstance(st.test, ast.BoolOp) and isinstance(st.test.op, ast.And) else [st.test]
                mem = [c for c in conj if isinstance(c, ast.Compare) and len(c.ops) == 1 and isinstance(c.ops[0], ast.In)
                       and isinstance(c.comparators[0], ast.Name) and c.comparators[0].id == "self"]
                if len(mem) != 1 or conj[-1] is not mem[0]:
                    sl.err("early return without a final `<id> in self` test")
                if "chk2" in out:
                    sl.err("two membership early returns")
                guard = [sl.truth(c) for c in conj[:-1]]
                out["guard"] = " && ".join(_par(g) for g in guard) if guard else "true"
                out["chk2"], ty = sl.expr(mem[0].left)
                if ty != STR:
                    sl.err("membership of a non-string")
                sl.events.append("skip_if_member")
                continue
            if names and all(n in NAMING for n in names) and not rets and not withs:
                cond_assign(sl, st)
                continue
            if names and any(n in NAMING for n in names):
                sl.err(f"`if` mixes naming assignments with other statements: {ast.unparse(st.test)[:50]}")
            # effect blocks: the log branch (write + return None), member construction
            for n in ast.walk(st):
                if isinstance(n, ast.With):
                    record_event(sl, n, out, branch=ast.unparse(st.test))
            if not withs:
                sl.skipped.append("if " + ast.unparse(st.test)[:60])
            continue
        if isinstance(st, ast.With):
            record_event(sl, st, out, branch=None)
            continue
        if isinstance(st, ast.Return):
            sl.events.append("return")
            continue
        sl.err(f"unsupported statement {type(st).__name__}: {ast.unparse(st)[:60]}")
    return out


def record_event(sl, w: ast.With, out, branch):
    """`with atomic_write(<path>, …) as out: out.write(x)` / `with open_(<path>, …) as out: out.write(x)`"""
    if len(w.items) != 1 or not isinstance(w.items[0].context_expr, ast.Call):
        sl.err("with-statement shape")
    call = w.items[0].context_expr
    fn = ast.unparse(call.func)
    if fn not in ("atomic_write", "open_") or not call.args:
        sl.err(f"with {fn}(…)")
    if not (len(w.body) == 1 and isinstance(w.body[0], ast.Expr) and isinstance(w.body[0].value, ast.Call)
            and isinstance(w.body[0].value.func, ast.Attribute) and w.body[0].value.func.attr == "write" and len(w.body[0].value.args) == 1
            and isinstance(w.body[0].value.args[0], ast.Name)):
        sl.err("with-body is not a single out.write(<name>)")
    what = w.body[0].value.args[0].id
    dirs, last = path_last(sl, call.args[0])
    if len(dirs) != 1:
        sl.err(f"written path has {len(dirs)} directory components (expected 1)")
    d = dirs[0]
    if d == sl.env["subdir"][0]:
        kind = "record"
        if what != "data":
            sl.err(f"the record file receives {what}, not data")
        if out.setdefault("file", last) != last:
            sl.err("record written under two different names")
    elif d == _lit(sl.consts.get("_MD5_TABLE", "")):
        kind = "md5"
        if what != "md5":
            sl.err(f"the md5 file receives {what}")
        if out.setdefault("md5", last) != last:
            sl.err("md5 written under two different names")
    else:
        sl.err(f"write into an unexpected directory {d}")
    sl.events.append(f"write_{kind}" + ("_logbranch" if branch and "_LOG_TABLE" in branch else ""))


def walk_contains(sl: Slice, body):
    out = {}
    for st in body:
        if isinstance(st, ast.Expr) and isinstance(st.value, ast.Constant):
            continue
        if isinstance(st, ast.If):
            cond_assign(sl, st)
            continue
        if isinstance(st, ast.Assign):
            if assign(sl, st) is not True:
                sl.err("non-naming assignment")
            continue
        if isinstance(st, ast.Return) and isinstance(st.value, ast.Call) and ast.unparse(st.value.func) == "super().__contains__" and len(st.value.args) == 1:
            out["item"], ty = sl.expr(st.value.args[0])
            if ty != STR:
                sl.err("super().__contains__ of a non-string")
            continue
        sl.err(f"unsupported statement {ast.unparse(st)[:60]}")
    if "item" not in out:
        sl.err("no `return super().__contains__(item)`")
    return out


def walk_md5(sl: Slice, body):
    out = {}
    for st in body:
        if isinstance(st, ast.Expr) and isinstance(st.value, ast.Constant):
            continue
        if isinstance(st, ast.Assign):
            if assign(sl, st) is not True:
                sl.err(f"non-naming assignment {ast.unparse(st)[:50]}")
            continue
        if isinstance(st, ast.Return):
            # `path.read_text() if path.exists() else None`
            v = st.value
            if not (isinstance(v, ast.IfExp) and ast.unparse(v.test).endswith(".exists()") and ast.unparse(v.body).endswith(".read_text()")
                    and isinstance(v.orelse, ast.Constant) and v.orelse.value is None):
                sl.err("return shape (expected `p.read_text() if p.exists() else None`)")
            p1, p2 = v.test.func.value, v.body.func.value
            if ast.unparse(p1) != ast.unparse(p2):
                sl.err("exists() and read_text() on different paths")
            dirs, last = path_last(sl, p1)
            if dirs != [_lit(sl.consts.get("_MD5_TABLE", ""))]:
                sl.err("md5 file is not looked up under the md5 directory")
            out["lookup"] = last
            continue
        sl.err(f"unsupported statement {ast.unparse(st)[:60]}")
    if "lookup" not in out:
        sl.err("no return")
    return out


def walk_drop(sl: Slice, body):
    out = {}
    for st in body:
        if isinstance(st, ast.Expr) and isinstance(st.value, ast.Constant):
            continue
        if isinstance(st, ast.If) and _mode_test(st.test) == ("is", "READONLY") and len(st.body) == 1 and isinstance(st.body[0], ast.Raise) and not st.orelse:
            sl.events.append("raise_if_readonly")
            continue
        if isinstance(st, ast.Assign):
            r = assign(sl, st)
            if r is not True:
                sl.err(f"non-naming assignment {ast.unparse(st)[:50]}")
            continue
        if isinstance(st, ast.For):
            if ast.unparse(st.iter) != "list(self.not_completed)" or not isinstance(st.target, ast.Name) or st.orelse:
                sl.err("loop is not `for m in list(self.not_completed)`")
            out["key"] = sl.env["unique_id"][0]
            sl.events.append("loop_over_snapshot")
            sl.env[st.target.id] = ("m_unique_id", "member")
            for s in st.body:
                if isinstance(s, ast.If) and len(s.body) == 1 and isinstance(s.body[0], ast.Continue) and not s.orelse:
                    if "skip" in out:
                        sl.err("two `continue` tests")
                    out["skip"] = sl.truth(s.test)
                    sl.events.append("continue_if_other")
                elif isinstance(s, ast.Assign):
                    if assign(sl, s) is not True:
                        sl.err(f"non-naming assignment in the loop {ast.unparse(s)[:50]}")
                elif isinstance(s, ast.Expr) and isinstance(s.value, ast.Call) and isinstance(s.value.func, ast.Attribute) and s.value.func.attr == "unlink" \
                        and isinstance(s.value.func.value, ast.Name) and not s.value.args:
                    v = s.value.func.value.id
                    dirs, last = path_last(sl, s.value.func.value)
                    if len(dirs) != 1:
                        sl.err("unlink outside a sub-directory")
                    if dirs[0] == _lit(sl.consts.get("_NOT_COMPLETED_TABLE", "")):
                        out["file"] = last
                        sl.events.append("unlink_record")
                    elif dirs[0] == _lit(sl.consts.get("_MD5_TABLE", "")):
                        out["md5"] = last
                        sl.events.append("unlink_md5")
                    else:
                        sl.err(f"unlink in directory {dirs[0]}")
                elif isinstance(s, ast.Expr) and ast.unparse(s.value) == f"self.not_completed.remove({st.target.id})":
                    sl.events.append("cache_remove")
                else:
                    sl.err(f"unsupported loop statement {ast.unparse(s)[:60]}")
            continue
        if isinstance(st, ast.If) and ast.unparse(st.test) == "not unique_id" and not st.orelse:
            for s in st.body:
                u = ast.unparse(s)
                if u.endswith(".rmdir()") and "_NOT_COMPLETED_TABLE" in u:
                    sl.events.append("rmdir_if_all")
                elif u == "self._not_completed = []":
                    sl.events.append("cache_reset_if_all")
                else:
                    sl.err(f"unsupported statement in the drop-all tail: {u[:60]}")
            continue
        sl.err(f"unsupported statement {ast.unparse(st)[:60]}")
    for k in ("key", "skip", "file", "md5"):
        if k not in out:
            sl.err(f"drop_not_completed: no {k}")
    return out


def check_writable(cls_abc):
    """DataStoreABC.write / _check_writable -> (events)"""
    fns = {n.name: n for n in cls_abc.body if isinstance(n, ast.FunctionDef)}
    w = [s for s in fns["write"].body if not (isinstance(s, ast.Expr) and isinstance(s.value, ast.Constant))]
    if len(w) != 1 or ast.unparse(w[0]) != "self._check_writable(unique_id)":
        raise TranslationError("DataStoreABC.write is not `self._check_writable(unique_id)`")
    body = [s for s in fns["_check_writable"].body if not (isinstance(s, ast.Expr) and isinstance(s.value, ast.Constant))]
    if len(body) != 1 or not isinstance(body[0], ast.If):
        raise TranslationError("_check_writable: expected one if/elif")

    def cond(e):
        mt = _mode_test(e)
        if mt:
            v = {"READONLY": "readonly", "APPEND": "append"}.get(mt[1])
            if v is None:
                raise TranslationError(f"_check_writable: mode {mt[1]}")
            return v if mt[0] == "is" else f"!{v}"
        if isinstance(e, ast.Compare) and len(e.ops) == 1 and isinstance(e.ops[0], ast.In) and ast.unparse(e.comparators[0]) == "self" and ast.unparse(e.left) == "unique_id":
            return "member"
        if isinstance(e, ast.BoolOp):
            return "(" + (" && " if isinstance(e.op, ast.And) else " || ").join(cond(v) for v in e.values) + ")"
        raise TranslationError(f"_check_writable: condition {ast.unparse(e)[:50]}")

    conds = []
    node = body[0]
    while True:
        if not (len(node.body) == 1 and isinstance(node.body[0], ast.Raise) and "IOError" in ast.unparse(node.body[0])):
            raise TranslationError("_check_writable: branch does not raise IOError")
        conds.append(cond(node.test))
        if len(node.orelse) == 1 and isinstance(node.orelse[0], ast.If):
            node = node.orelse[0]
        elif not node.orelse:
            break
        else:
            raise TranslationError("_check_writable: else branch")
    return " || ".join(conds)


def glob_pattern(fn: ast.FunctionDef, sl: Slice):
    """the pattern handed to `.glob(...)` in `completed` / `not_completed` ('*' + a string)"""
    for st in fn.body:
        if isinstance(st, ast.If):
            for s in st.body:
                if isinstance(s, ast.Assign) and isinstance(s.targets[0], ast.Name) and s.targets[0].id == "suffix":
                    # f"*.{self.suffix}" if self.suffix else "*"
                    sl.env["suffix"] = None
                    v = s.value
                    if not (isinstance(v, ast.IfExp) and _is_self_attr(v.test, "suffix") and isinstance(v.orelse, ast.Constant) and v.orelse.value == "*"
                            and isinstance(v.body, ast.JoinedStr)):
                        sl.err("glob pattern shape")
                    t, _ = sl.expr(v.body)
                    return t
                if isinstance(s, ast.For):
                    call = s.iter.args[0] if isinstance(s.iter, ast.Call) and ast.unparse(s.iter.func) == "enumerate" else None
                    if call is not None and isinstance(call, ast.Call) and isinstance(call.func, ast.Attribute) and call.func.attr == "glob" and len(call.args) == 1 \
                            and isinstance(call.args[0], ast.Constant):
                        return _lit(call.args[0].value)
    sl.err("no glob pattern found")


HEADER = """/- GENERATED by translator/c13_names2lean.py from cogent3/app/data_store.py on every run -- do not edit.
   Naming slice of DataStoreDirectory (file names, md5 side-file names, membership items, drop keys) + the order of the effect
   statements around it.  Conventions: N1 `s.replace(a, b)` = replaceAll (non-empty `a`); N2 `[.](A|B)$` = reSubDotAltEnd (an
   interpolated alternative is read as a regular expression; alternatives in order); N3 `Path(x)` is the identity, `.name` =
   pathName, `.stem` = pathStem; N4 get_format_suffixes = the hand model getFormatSuffixes. -/
import CogentModel.Model.DataStore
set_option linter.unusedVariables false
namespace CogentModel.Gen.C13Names
open CogentModel CogentModel.KV CogentModel.DataStore
"""


def _def(name, params, ret, sl: Slice, result, doc):
    lines = [f"/-- {doc} -/", f"def {name} {params} : {ret} :="]
    for ln, ty, text in sl.lets:
        lines.append(f"  let {ln} : {ty} := {text}")
    lines.append(f"  {result}")
    return "\n".join(lines) + "\n"


def translate(path: Path):
    """-> (lean text | None, info, problems)"""
    src = Path(path).read_text()
    tree = ast.parse(src)
    problems, info = [], {}
    consts = {}
    special_node = None
    for n in tree.body:
        if isinstance(n, ast.Assign) and len(n.targets) == 1 and isinstance(n.targets[0], ast.Name):
            if isinstance(n.value, ast.Constant) and isinstance(n.value.value, str):
                consts[n.targets[0].id] = n.value.value
            if n.targets[0].id == "_special_suffixes":
                special_node = n.value
    classes = {n.name: n for n in tree.body if isinstance(n, ast.ClassDef)}
    for c in ("DataStoreABC", "DataStoreDirectory"):
        if c not in classes:
            raise TranslationError(f"class {c} not found")
    fns = {n.name: n for n in classes["DataStoreDirectory"].body if isinstance(n, ast.FunctionDef)}
    for f in ("__contains__", "_write", "drop_not_completed", "md5", "completed", "not_completed"):
        if f not in fns:
            raise TranslationError(f"DataStoreDirectory.{f} not found")
    parts = [HEADER]

    def section(name, fn):
        try:
            parts.append(fn())
        except TranslationError as e:
            problems.append(str(e))
        except (KeyError, AttributeError, IndexError) as e:
            problems.append(f"{name}: unexpected shape ({type(e).__name__}: {e})")

    def s_special():
        words = special_regex(special_node, "_special_suffixes")
        info["special"] = words
        return ("/-- `_special_suffixes.search(item)` -/\ndef special (item : Str) : Bool :=\n  reSearchDotAltEnd ["
                + ", ".join(f".lit {_lit(w)}" for w in words) + "] item\n")

    def s_contains():
        sl = Slice("__contains__", consts, {"item": ("item", STR), "self.suffix": ("self_suffix", STR)})
        out = walk_contains(sl, fns["__contains__"].body)
        return _def("contains_item", "(self_suffix item : Str)", "Str", sl, out["item"],
                    "`DataStoreDirectory.__contains__`: the string handed to `DataStoreABC.__contains__` (compared with the member ids)")

    def s_check():
        c = check_writable(classes["DataStoreABC"])
        info["check_writable"] = c
        return ("/-- `DataStoreABC.write` = `_check_writable`: does the call raise IOError (`member` = `unique_id in self`) -/\n"
                f"def check_writable_rejects (readonly append member : Bool) : Bool :=\n  {c}\n")

    def s_write():
        sl = Slice("_write", consts, {"unique_id": ("unique_id", STR), "suffix": ("suffix", STR), "subdir": ("subdir", STR),
                                       "self.suffix": ("self_suffix", STR)})
        out = walk_write(sl, fns["_write"].body)
        for k in ("chk1", "chk2", "file", "md5", "guard"):
            if k not in out:
                sl.err(f"no {k} found")
        info["_write"] = dict(events=sl.events, skipped=sl.skipped)
        res = (f"{{ chk1 := Gen.C13Names.contains_item self_suffix {_par(out['chk1'])}, file := {out['file']}, "
               f"chk2 := Gen.C13Names.contains_item self_suffix {_par(out['chk2'])}, md5 := {out['md5']} }}")
        txt = _def("resolve", "(self_suffix suffix unique_id : Str)", "Names", sl, res,
                   "`_write`: every name derived from the identifier (item of the writability check, file written, item of the "
                   "'already stored' early return, md5 side file)")
        # the guard of the early return only mentions parameters
        gsl = Slice("_write", consts, {"suffix": ("suffix", STR), "subdir": ("subdir", STR), "self.suffix": ("self_suffix", STR)})
        txt += ("\n/-- `_write`: the conjuncts in front of `unique_id in self` in the 'already stored' early return -/\n"
                f"def skip_guard (self_suffix subdir suffix : Str) : Bool :=\n  {_reguard(fns['_write'], gsl)}\n")
        txt += "\n/-- `_write`: effect statements in source order -/\ndef write_events : List String :=\n  [" + ", ".join(f'"{e}"' for e in sl.events) + "]\n"
        return txt

    def s_drop():
        sl = Slice("drop_not_completed", consts, {"unique_id": ("unique_id", STR), "self.suffix": ("self_suffix", STR)})
        out = walk_drop(sl, fns["drop_not_completed"].body)
        info["drop"] = dict(events=sl.events)
        # split the lets: those before the loop depend on unique_id only; loop lets mention m_unique_id
        pre = [l for l in sl.lets if "m_unique_id" not in l[2] and not any(x[0] in l[2].split() for x in sl.lets if "m_unique_id" in x[2])]
        loop = [l for l in sl.lets if l not in pre]
        a = Slice("", consts, {}); a.lets = pre
        txt = _def("drop_key", "(self_suffix unique_id : Str)", "Str", a, out["key"],
                   "`drop_not_completed`: the key the not-completed member names are compared with ('' = all)")
        b = Slice("", consts, {}); b.lets = []
        key_name = out["key"]
        def sub(t):
            return re.sub(rf"\b{re.escape(key_name)}\b", "key", t)
        b.lets = [(ln, ty, sub(t)) for ln, ty, t in loop]
        txt += "\n" + _def("drop_skip", "(key m_unique_id : Str)", "Bool", b, sub(out["skip"]),
                           "`drop_not_completed`: the loop's `continue` test for member `m`")
        txt += "\n" + _def("drop_file", "(m_unique_id : Str)", "Str", b, sub(out["file"]), "`drop_not_completed`: record file unlinked (under not_completed/)")
        txt += "\n" + _def("drop_md5", "(m_unique_id : Str)", "Str", b, sub(out["md5"]), "`drop_not_completed`: md5 side file unlinked (under md5/)")
        txt += "\n/-- `drop_not_completed`: effect statements in source order -/\ndef drop_events : List String :=\n  [" + ", ".join(f'"{e}"' for e in sl.events) + "]\n"
        return txt

    def s_md5():
        sl = Slice("md5", consts, {"unique_id": ("unique_id", STR), "self.suffix": ("self_suffix", STR)})
        out = walk_md5(sl, fns["md5"].body)
        return _def("md5_lookup", "(self_suffix unique_id : Str)", "Str", sl, out["lookup"], "`md5()`: the side file read (under md5/)")

    def s_glob():
        sl = Slice("completed", consts, {"self.suffix": ("self_suffix", STR)})
        g1 = glob_pattern(fns["completed"], sl)
        sl2 = Slice("not_completed", consts, {})
        g2 = glob_pattern(fns["not_completed"], sl2)
        return ("/-- `completed`: the glob pattern for a non-empty store suffix -/\n"
                f"def glob_completed (self_suffix : Str) : Str :=\n  {g1}\n\n"
                "/-- `not_completed`: the glob pattern -/\n"
                f"def glob_not_completed : Str :=\n  {g2}\n")

    for name, fn in (("_special_suffixes", s_special), ("__contains__", s_contains), ("_check_writable", s_check), ("_write", s_write),
                     ("drop_not_completed", s_drop), ("md5", s_md5), ("completed", s_glob)):
        section(name, fn)
    parts.append("end CogentModel.Gen.C13Names\n")
    if problems:
        return None, info, problems
    return "\n".join(parts), info, problems


def _reguard(fn, gsl):
    """re-translate the guard conjuncts of the membership early return in an environment that only knows the parameters"""
    for st in fn.body:
        if isinstance(st, ast.If) and any(isinstance(n, ast.Return) for n in st.body) and not _assigned([st]) and not any(isinstance(n, ast.With) for n in ast.walk(st)):
            conj = st.test.values if isinstance(st.test, ast.BoolOp) and isinstance(st.test.op, ast.And) else [st.test]
            g = [gsl.truth(c) for c in conj[:-1]]
            return " && ".join(_par(x) for x in g) if g else "true"
    gsl.err("no early return")


def write_if_changed(path: Path, text: str) -> bool:
    if path.exists() and path.read_text() == text:
        return False
    path.parent.mkdir(parents=True, exist_ok=True)
    path.write_text(text)
    return True


if __name__ == "__main__":
    import sys

    lean, info, problems = translate(Path(sys.argv[1]))
    print(lean if lean else "", file=sys.stdout)
    print(info, problems, file=sys.stderr)
