"""C13: Python -> Lean translator for `cogent3.util.io.get_format_suffixes` (the function every name the directory store derives
from an identifier goes through: format suffix / compression suffix of a file name).

Reads util/io.py and util/misc.py with the stdlib `ast` only (nothing of cogent3 is imported or executed) and writes
lean/CogentModel/Gen/C13Fmt.lean.  The function body is translated STATEMENT BY STATEMENT into a Lean `do` block of the `Option`
monad (`none` = the Python raises IndexError): assignments become `let mut` / `:=`, `if/elif/else` stays `if/else`, `return a, b`
stays `return (a, b)`, an index expression `xs[i]` becomes `(← pyIdx xs i)` (evaluated, as in Python, only when its statement /
branch is reached).  Props/C13.lean proves the generated function equal to the hand model `DataStore.getFormatSuffixes` for ALL
file names (`gen_get_format_suffixes_eq`) and characterises the IndexError case (`gen_get_format_suffixes_raises_iff`).

Supported: names, str constants, None, tuples of str constants, `Path(x)`, `.suffix`, `.suffixes`, `xs[-n:]`, `xs[<int>]`,
`[e for v in xs]`, `<module regex>.sub(<str>, s)` for a regex compiled from the literal `^\\.`, `.lower()`, `a in <tuple>`,
`len(xs)`, int constants, `==`/`!=`, `is None`/`is not None`, `not`/`and`/`or`, truth value of a string.  Anything else is a
reported translation PROBLEM.
Conventions F1 `Path(x)` is the identity on the string, `.suffix` = pathSuffixDot, `.suffixes` = pathSuffixesDot (pathlib of
CPython 3.12; tied by the exhaustive short-string stream); F2 `re.compile(r"^\\.").sub(r, s)` = reSubLeadDot r s; F3 `.lower()` =
List.map Char.toLower (ASCII identifiers); F4 `xs[i]` = pyIdx (none = IndexError), `xs[-n:]` = pyLastN n.
"""
from __future__ import annotations

import ast
from pathlib import Path

from .c13_names2lean import TranslationError, _lit, _par, write_if_changed

STR, OPT, LST, BOOL, INT, NONE = "Str", "Option Str", "List Str", "Bool", "Int", "None"


def join(a, b):
    if a is None:
        return b
    if b is None or a == b:
        return a
    if {a, b} <= {STR, OPT, NONE}:
        return OPT
    raise TranslationError(f"get_format_suffixes: a variable holds both {a} and {b}")


class Fn:
    def __init__(self, fn: ast.FunctionDef, regexes):
        self.fn = fn
        self.regexes = regexes  # module-level name -> pattern text
        self.types = {}
        self.lam = 0  # inside a comprehension body (no index expressions there)

    def err(self, msg):
        raise TranslationError(f"get_format_suffixes: {msg}")

    # ---- expressions: -> (text, type) ----
    def expr(self, e):
        if isinstance(e, ast.Name):
            if e.id in self.types and self.types[e.id] is not None:
                return e.id, self.types[e.id]
            self.err(f"unknown name {e.id}")
        if isinstance(e, ast.Constant):
            if isinstance(e.value, str):
                return _lit(e.value), STR
            if e.value is None:
                return "none", NONE
            if isinstance(e.value, int) and not isinstance(e.value, bool):
                return (str(e.value) if e.value >= 0 else f"({e.value})"), INT
            self.err(f"constant {e.value!r}")
        if isinstance(e, ast.UnaryOp) and isinstance(e.op, ast.USub) and isinstance(e.operand, ast.Constant) and isinstance(e.operand.value, int):
            return f"(-{e.operand.value})", INT
        if isinstance(e, ast.Tuple):
            parts = [self.expr(x) for x in e.elts]
            if not parts or any(t != STR for _, t in parts):
                self.err("tuple of non-strings")
            return "[" + ", ".join(p for p, _ in parts) + "]", LST
        if isinstance(e, ast.Attribute) and e.attr in ("suffix", "suffixes"):
            t, ty = self.expr(e.value)
            if ty != STR:
                self.err(f".{e.attr} of a {ty}")
            return (f"pathSuffixDot {_par(t)}", STR) if e.attr == "suffix" else (f"pathSuffixesDot {_par(t)}", LST)
        if isinstance(e, ast.Subscript):
            t, ty = self.expr(e.value)
            if ty != LST:
                self.err(f"subscript of a {ty}")
            s = e.slice
            if isinstance(s, ast.Slice):
                if s.upper is not None or s.step is not None or s.lower is None:
                    self.err("slice shape (only xs[-n:])")
                lo, tlo = self.expr(s.lower)
                if tlo != INT or not lo.startswith("(-"):
                    self.err("slice start is not a negative constant")
                return f"pyLastN {lo[2:-1]} {_par(t)}", LST
            i, ti = self.expr(s)
            if ti != INT:
                self.err("index is not an integer constant")
            if self.lam:
                self.err("index expression inside a comprehension")
            return f"(← pyIdx {_par(t)} {i})", STR
        if isinstance(e, ast.ListComp):
            if len(e.generators) != 1 or e.generators[0].ifs or e.generators[0].is_async or not isinstance(e.generators[0].target, ast.Name):
                self.err("comprehension shape")
            xs, tx = self.expr(e.generators[0].iter)
            if tx != LST:
                self.err("comprehension over a non-list")
            v = e.generators[0].target.id
            saved = self.types.get(v)
            self.types[v] = STR
            self.lam += 1
            try:
                body, tb = self.expr(e.elt)
            finally:
                self.lam -= 1
                self.types[v] = saved
            if tb != STR:
                self.err("comprehension element is not a string")
            return f"({xs}).map (fun {v} => {body})", LST
        if isinstance(e, ast.Call):
            fn = e.func
            if isinstance(fn, ast.Name) and fn.id == "Path" and len(e.args) == 1 and not e.keywords:
                t, ty = self.expr(e.args[0])
                if ty != STR:
                    self.err("Path() of a non-string")
                return t, STR
            if isinstance(fn, ast.Name) and fn.id == "len" and len(e.args) == 1 and not e.keywords:
                t, ty = self.expr(e.args[0])
                if ty != LST:
                    self.err("len of a non-list")
                return f"({_par(t)}.length : Int)", INT
            if isinstance(fn, ast.Attribute) and fn.attr == "lower" and not e.args and not e.keywords:
                t, ty = self.expr(fn.value)
                if ty != STR:
                    self.err("lower() of a non-string")
                return f"lower {_par(t)}", STR
            if isinstance(fn, ast.Attribute) and fn.attr == "sub" and isinstance(fn.value, ast.Name) and len(e.args) == 2 and not e.keywords:
                pat = self.regexes.get(fn.value.id)
                if pat is None:
                    self.err(f"{fn.value.id} is not a module-level compiled regular expression")
                if pat not in (r"^\.", "^[.]"):
                    self.err(f"regular expression {pat!r} of {fn.value.id} is not a leading literal dot")
                r, tr = self.expr(e.args[0])
                s, ts = self.expr(e.args[1])
                if (tr, ts) != (STR, STR):
                    self.err("regex sub on non-strings")
                return f"reSubLeadDot {_par(r)} {_par(s)}", STR
            self.err(f"unsupported call {ast.unparse(e)[:60]}")
        if isinstance(e, ast.UnaryOp) and isinstance(e.op, ast.Not):
            return f"!{_par(self.truth(e.operand))}", BOOL
        if isinstance(e, ast.BoolOp):
            # python's and/or are lazy; an index expression in a later operand would be hoisted by `←`: refuse it
            for v in e.values[1:]:
                if any(isinstance(n, ast.Subscript) and not isinstance(n.slice, ast.Slice) for n in ast.walk(v)):
                    self.err("index expression in a lazily evaluated operand")
            op = " && " if isinstance(e.op, ast.And) else " || "
            return op.join(_par(self.truth(v)) for v in e.values), BOOL
        if isinstance(e, ast.Compare) and len(e.ops) == 1:
            op, l, r = e.ops[0], e.left, e.comparators[0]
            if isinstance(op, (ast.Is, ast.IsNot)) and isinstance(r, ast.Constant) and r.value is None:
                t, ty = self.expr(l)
                if ty != OPT:
                    self.err(f"`is None` on a {ty}")
                return f"{_par(t)}.{'isNone' if isinstance(op, ast.Is) else 'isSome'}", BOOL
            a, ta = self.expr(l)
            b, tb = self.expr(r)
            if isinstance(op, (ast.In, ast.NotIn)):
                if (ta, tb) != (STR, LST):
                    self.err(f"`in` on {ta} / {tb}")
                t = f"{_par(b)}.contains {_par(a)}"
                return (t if isinstance(op, ast.In) else f"!({t})"), BOOL
            if isinstance(op, (ast.Eq, ast.NotEq)):
                if ta != tb or ta not in (STR, INT):
                    self.err(f"comparison of {ta} with {tb}")
                return f"{_par(a)} {'==' if isinstance(op, ast.Eq) else '!='} {_par(b)}", BOOL
            self.err(f"comparison {type(op).__name__}")
        self.err(f"unsupported expression {type(e).__name__}: {ast.unparse(e)[:60]}")

    def truth(self, e):
        t, ty = self.expr(e)
        if ty == BOOL:
            return t
        if ty == STR:
            return f"!{_par(t)}.isEmpty"
        self.err(f"truth value of a {ty}")

    def coerce(self, t, ty, want):
        if ty == want:
            return t
        if want == OPT and ty == STR:
            return f"some {_par(t)}"
        if want == OPT and ty == NONE:
            return "none"
        self.err(f"a {ty} where a {want} is expected")

    # ---- pass 1: variable types (join over all assignments) ----
    def infer(self, stmts):
        for st in stmts:
            if isinstance(st, ast.Assign):
                if len(st.targets) != 1 or not isinstance(st.targets[0], ast.Name):
                    self.err(f"assignment target {ast.unparse(st.targets[0])[:40]}")
                _, ty = self.expr(st.value)
                n = st.targets[0].id
                self.types[n] = join(self.types.get(n), ty)
            elif isinstance(st, ast.If):
                self.infer(st.body)
                self.infer(st.orelse)

    # ---- pass 2: statements ----
    def stmts(self, body, ind, declared):
        out = []
        for st in body:
            if isinstance(st, ast.Expr) and isinstance(st.value, ast.Constant):
                continue
            if isinstance(st, ast.Assign):
                n = st.targets[0].id
                t, ty = self.expr(st.value)
                t = self.coerce(t, ty, self.types[n])
                if n in declared:
                    out.append(f"{ind}{n} := {t}")
                else:
                    declared.add(n)
                    out.append(f"{ind}let mut {n} : {self.types[n]} := {t}")
                continue
            if isinstance(st, ast.If):
                # variables first assigned inside the branches are declared in front (Python binds them in every branch or
                # the later use is an UnboundLocalError, which the translation does not model: require every branch to bind)
                new = [n for n in _assigned_names(st) if n not in declared]
                for n in new:
                    if not _binds_everywhere(st, n):
                        self.err(f"{n} is not bound on every path through `if {ast.unparse(st.test)[:30]}`")
                    declared.add(n)
                    dflt = {STR: "[]", OPT: "none", LST: "[]", BOOL: "false"}.get(self.types[n])
                    if dflt is None:
                        self.err(f"no default for type {self.types[n]}")
                    out.append(f"{ind}let mut {n} : {self.types[n]} := {dflt}")
                out += self.if_(st, ind, declared)
                continue
            if isinstance(st, ast.Return):
                v = st.value
                if not (isinstance(v, ast.Tuple) and len(v.elts) == 2):
                    self.err("return is not a pair")
                parts = []
                for x in v.elts:
                    t, ty = self.expr(x)
                    parts.append(self.coerce(t, ty, OPT))
                out.append(f"{ind}return ({parts[0]}, {parts[1]})")
                continue
            self.err(f"unsupported statement {type(st).__name__}: {ast.unparse(st)[:60]}")
        return out

    def if_(self, st, ind, declared, kw="if"):
        out = [f"{ind}{kw} {self.truth(st.test)} then"]
        out += self.stmts(st.body, ind + "  ", set(declared)) or [f"{ind}  pure ()"]
        if st.orelse:
            if len(st.orelse) == 1 and isinstance(st.orelse[0], ast.If):
                out += self.if_(st.orelse[0], ind, declared, kw="else if")
            else:
                out.append(f"{ind}else")
                out += self.stmts(st.orelse, ind + "  ", set(declared))
        return out


def _assigned_names(st):
    out = []
    for n in ast.walk(st):
        if isinstance(n, ast.Assign):
            for t in n.targets:
                if isinstance(t, ast.Name) and t.id not in out:
                    out.append(t.id)
    return out


def _binds_everywhere(st: ast.If, name):
    def block(b):
        for s in b:
            if isinstance(s, ast.Assign) and any(isinstance(t, ast.Name) and t.id == name for t in s.targets):
                return True
            if isinstance(s, ast.Return):
                return True
            if isinstance(s, ast.If) and s.orelse and block(s.body) and block(s.orelse):
                return True
        return False

    return bool(st.orelse) and block(st.body) and block(st.orelse)


HEADER = """/- GENERATED by translator/c13_fmt2lean.py from cogent3/util/io.py (get_format_suffixes) on every run -- do not edit.
   A `do` block of the Option monad, statement by statement; `none` = the Python raises IndexError.
   Conventions: F1 `Path(x)` is the identity, `.suffix` = pathSuffixDot, `.suffixes` = pathSuffixesDot; F2 the regex `^\\.` with
   `.sub(r, s)` = reSubLeadDot r s; F3 `.lower()` = lower; F4 `xs[i]` = pyIdx xs i, `xs[-n:]` = pyLastN n xs. -/
import CogentModel.Model.DataStoreFmt
set_option linter.unusedVariables false
namespace CogentModel.Gen.C13Fmt
open CogentModel CogentModel.KV CogentModel.DataStore
"""


def module_regexes(tree):
    out = {}
    for n in tree.body:
        if isinstance(n, ast.Assign) and len(n.targets) == 1 and isinstance(n.targets[0], ast.Name) and isinstance(n.value, ast.Call) \
                and ast.unparse(n.value.func) in ("re.compile", "compile") and len(n.value.args) == 1 and not n.value.keywords \
                and isinstance(n.value.args[0], ast.Constant) and isinstance(n.value.args[0].value, str):
            out[n.targets[0].id] = n.value.args[0].value
    return out


def translate(io_path: Path, misc_path: Path):
    """-> (lean text | None, info, problems)"""
    problems, info = [], {}
    try:
        tree = ast.parse(Path(io_path).read_text())
        regexes = module_regexes(tree)
        # names imported from util/misc.py
        imported = [a.asname or a.name for n in tree.body if isinstance(n, ast.ImportFrom) and n.module == "cogent3.util.misc" for a in n.names]
        misc = module_regexes(ast.parse(Path(misc_path).read_text()))
        for k in imported:
            if k in misc:
                regexes.setdefault(k, misc[k])
        fns = [n for n in tree.body if isinstance(n, ast.FunctionDef) and n.name == "get_format_suffixes"]
        if len(fns) != 1:
            raise TranslationError("get_format_suffixes not found in util/io.py")
        fn = fns[0]
        a = fn.args
        if len(a.args) != 1 or a.vararg or a.kwarg or a.kwonlyargs or a.defaults:
            raise TranslationError("get_format_suffixes: parameter list")
        p = a.args[0].arg
        f = Fn(fn, regexes)
        f.types[p] = STR
        f.infer(fn.body)
        if f.types[p] != STR:
            raise TranslationError("get_format_suffixes: the parameter changes type")
        body = [s for s in fn.body if not (isinstance(s, ast.Expr) and isinstance(s.value, ast.Constant))]
        if not body or not isinstance(body[-1], ast.Return):
            raise TranslationError("get_format_suffixes: does not end with a return")
        lines = f.stmts(fn.body, "  ", {p})
        info["types"] = {k: v for k, v in f.types.items() if v}
        text = (HEADER + f"\n/-- `cogent3.util.io.get_format_suffixes`; `none` = IndexError -/\n"
                f"def get_format_suffixes ({p}0 : Str) : Option (Option Str × Option Str) := do\n  let mut {p} : Str := {p}0\n"
                + "\n".join(lines) + "\n\nend CogentModel.Gen.C13Fmt\n")
        return text, info, problems
    except (TranslationError, SyntaxError, OSError) as e:
        problems.append(str(e))
        return None, info, problems


if __name__ == "__main__":
    import sys

    lean, info, problems = translate(Path(sys.argv[1]), Path(sys.argv[2]))
    print(lean or "")
    print(info, problems, file=sys.stderr)
