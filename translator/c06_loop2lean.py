"""C06: Python -> Lean translator for the line LOOPS of the sequence parsers (generator functions).

Reads (stdlib `ast` only; nothing of cogent3 is imported or executed)

    parse/fasta.py   _faster_parser, _strict_parser      (whole function)
    parse/paml.py    PamlParser                          (state initialisation, the `for line in data` loop, the code after it;
                                                          the header statements before it stay hand-modelled, see PREAMBLE)

and writes lean/CogentModel/Gen/C06Loop.lean (a pure function of the source text).  Props/C06GenLoop.lean proves every
generated definition equal to the hand model (Model/SeqFormats.lean fasterGo / strictGo / pamlGo) for ALL arguments and ALL
line lists, so a semantic edit of one of these loops breaks a proof obligation.

Shape of a translated function:  <preamble> ; `for line in data:` <body> ; <post>.
  preamble  `x = None | [] | 0` declares a state variable (Option Str | List Str | Nat); any other statement must be listed
            verbatim (ast.unparse) in PREAMBLE[function] -- it is NOT translated (reported in the generated header) and the names it
            binds are parameters of the generated loop;
  the loop becomes a structurally recursive `<f>_go params state : List Str -> Except Err (List Rec)`: a `yield a, b` conses
            (a, b) onto the result of the rest of the run, a `raise E(...)` is `.error .e`, `continue` / the end of the body is
            the recursive call with the current state, the end of <post> is `.ok []`.
Supported statements: `x = e`, `x += e` (Nat), `l.append(e)`, `if/elif/else` (statements after an `if` are copied into both
  branches), `continue`, `yield e1, e2`, `raise RecordError(...)|ValueError(...)`;  `if x is None` / `if x is not None` on an
  Option variable becomes a `match` (the variable is a Str inside the `some` branch; using a possibly-None variable where a str
  is needed is a translation problem).
Supported expressions: names, str constants, `None`, `[]`, non-negative int constants, `not e`, `a and b`, `a or b` (as
  conditions), `x or ""` (x Option Str or Str), `s[0] in t`, `s[0] == "c"`, `"c" in t`, `"c" not in t`, `a == b`, `a != b`, `a < b`, `a <= b`, `a > b`, `a >= b` (Nat/Int),
  `len(s)`, `s.strip()`, `s.upper()`, `s[1:]`, `"".join(l)`, `_white_space.sub("", e)` (checked: `_white_space =
  re.compile(r"\\s+")`), `label_to_name(e)` (convention L1: the identity, its default `str` on a str).
Anything else is a translation PROBLEM (reported, never skipped).
"""
from __future__ import annotations

import ast
from pathlib import Path

FUNCS = [("parse/fasta.py", "_faster_parser"), ("parse/fasta.py", "_strict_parser"), ("parse/paml.py", "PamlParser")]
LEAN_NAME = {"_faster_parser": "faster_parser", "_strict_parser": "strict_parser", "PamlParser": "paml_parser"}
STR, BOOL, LST, NAT, INT, OPT, LINES, IDENT = "Str", "Bool", "List Str", "Nat", "Int", "Option Str", "lines", "ident"
PARAM_TYPES = {"data": LINES, "label_to_name": IDENT, "label_char": STR}
# statements before the loop that are NOT translated (hand-modelled header code) and the parameters they bind
PREAMBLE = {
    "PamlParser": (["if isinstance(data, TextIOWrapper):\n    data = data.read().splitlines()", "data = list(data)",
                    "num_seqs, seq_len = [int(v) for v in data.pop(0).split()]"], {"num_seqs": INT, "seq_len": INT}),
}
ERRS = {"RecordError": ".recordError", "ValueError": ".valueError"}


class TranslationError(Exception):
    pass


def _lit(s: str) -> str:
    return "[" + ", ".join("'" + ("\\\\" if c == "\\" else "\\'" if c == "'" else c) + "'" for c in s) + "]" if s else "([] : Str)"


def _par(t):
    return t if t.replace("_", "a").replace(".", "a").isalnum() or (t.startswith("(") and t.endswith(")")) or t.startswith("[") else f"({t})"


class Loop:
    def __init__(self, node: ast.FunctionDef, module: ast.Module):
        self.node, self.module, self.f = node, module, node.name
        if node.args.vararg or node.args.kwarg or node.args.kwonlyargs or node.args.defaults:
            raise TranslationError(f"{self.f}: only plain positional parameters are supported")
        self.params = []  # (name, type) of the generated definitions (without data / label_to_name)
        self.env = {}     # python name -> (lean text, type)
        for a in node.args.args:
            ty = PARAM_TYPES.get(a.arg)
            if ty is None:
                raise TranslationError(f"{self.f}: parameter {a.arg} has no declared type")
            self.env[a.arg] = (a.arg, ty)
            if ty == STR:
                self.params.append((a.arg, ty))
        self.state = []   # (name, declared type, initial lean text)
        self.skipped = []

    # ---------------- expressions ----------------
    def expr(self, e, env):
        f = self.f
        if isinstance(e, ast.Name):
            if e.id not in env:
                raise TranslationError(f"{f}: unknown name {e.id}")
            return env[e.id]
        if isinstance(e, ast.Constant):
            if isinstance(e.value, str):
                return _lit(e.value), STR
            if e.value is None:
                return "none", OPT
            if isinstance(e.value, int) and not isinstance(e.value, bool) and e.value >= 0:
                return str(e.value), NAT
            raise TranslationError(f"{f}: constant {e.value!r}")
        if isinstance(e, ast.List) and not e.elts:
            return "[]", LST
        if isinstance(e, ast.UnaryOp) and isinstance(e.op, ast.Not):
            return f"!({self.truth(e.operand, env)})", BOOL
        if isinstance(e, ast.BoolOp):
            if isinstance(e.op, ast.Or) and len(e.values) == 2 and isinstance(e.values[1], ast.Constant) and e.values[1].value == "":
                t, ty = self.expr(e.values[0], env)
                if ty == OPT:
                    return f"({t}).getD []", STR
                if ty == STR:
                    return t, STR
                raise TranslationError(f"{f}: `{ty} or \"\"`")
            op = " && " if isinstance(e.op, ast.And) else " || "
            return "(" + op.join(_par(self.truth(v, env)) for v in e.values) + ")", BOOL
        if isinstance(e, ast.Compare) and len(e.ops) == 1:
            return self.compare(e.left, e.ops[0], e.comparators[0], env)
        if isinstance(e, ast.Call):
            return self.call(e, env)
        if isinstance(e, ast.Subscript):
            v, ty = self.expr(e.value, env)
            s = e.slice
            if ty == STR and isinstance(s, ast.Constant) and s.value == 0:
                return f"PyStr.at0 {_par(v)}", STR
            if ty == STR and isinstance(s, ast.Slice) and s.step is None and s.upper is None and isinstance(s.lower, ast.Constant) \
                    and isinstance(s.lower.value, int) and s.lower.value >= 0:
                return f"{_par(v)}.drop {s.lower.value}", STR
            raise TranslationError(f"{f}: unsupported subscript {ast.unparse(e)}")
        raise TranslationError(f"{f}: unsupported expression {ast.unparse(e)}")

    def truth(self, e, env):
        t, ty = self.expr(e, env)
        if ty == BOOL:
            return t
        if ty == STR:
            return f"PyStr.truthy {_par(t)}"
        if ty == LST:
            return f"!({t}).isEmpty"
        raise TranslationError(f"{self.f}: truth value of a {ty} ({ast.unparse(e)})")

    def compare(self, l, op, r, env):
        f = self.f
        if isinstance(op, (ast.In, ast.NotIn)):
            neg = isinstance(op, ast.NotIn)
            rt, rty = self.expr(r, env)
            if rty != STR:
                raise TranslationError(f"{f}: `in` a {rty}")
            # s[0] in t   (IndexError on empty s is outside: false)
            if isinstance(l, ast.Subscript) and isinstance(l.slice, ast.Constant) and l.slice.value == 0:
                lt, lty = self.expr(l.value, env)
                if lty != STR:
                    raise TranslationError(f"{f}: {ast.unparse(l)}")
                t = f"PyStr.headIn {_par(lt)} {_par(rt)}"
            elif isinstance(l, ast.Constant) and isinstance(l.value, str) and len(l.value) == 1:
                t = f"({rt}).contains {_lit(l.value)[1:-1]}"
            else:
                raise TranslationError(f"{f}: unsupported membership test {ast.unparse(l)} in ...")
            return (f"!({t})" if neg else t), BOOL
        if isinstance(op, (ast.Eq, ast.NotEq)):
            lt, lty = self.expr(l, env)
            rt, rty = self.expr(r, env)
            if lty == STR and rty == STR:
                t = f"({lt} == {rt})"
            elif lty in (NAT, INT) and rty in (NAT, INT):
                if lty != rty:
                    lt, rt = (f"({lt} : Int)" if lty == NAT else lt), (f"({rt} : Int)" if rty == NAT else rt)
                t = f"({lt} == {rt})"
            else:
                raise TranslationError(f"{f}: comparison of a {lty} with a {rty}")
            return (f"!{t}" if isinstance(op, ast.NotEq) else t), BOOL
        ORD = {ast.Lt: "<", ast.LtE: "≤", ast.Gt: ">", ast.GtE: "≥"}
        if type(op) in ORD:
            lt, lty = self.expr(l, env)
            rt, rty = self.expr(r, env)
            if not (lty in (NAT, INT) and rty in (NAT, INT)):
                raise TranslationError(f"{f}: ordering of a {lty} and a {rty}")
            if lty != rty:
                lt, rt = (f"({lt} : Int)" if lty == NAT else lt), (f"({rt} : Int)" if rty == NAT else rt)
            return f"decide ({lt} {ORD[type(op)]} {rt})", BOOL
        raise TranslationError(f"{f}: unsupported comparison {type(op).__name__}")

    def call(self, e, env):
        f = self.f
        if e.keywords:
            raise TranslationError(f"{f}: keyword arguments")
        fn = e.func
        if isinstance(fn, ast.Name):
            if fn.id == "len" and len(e.args) == 1:
                t, ty = self.expr(e.args[0], env)
                if ty not in (STR, LST):
                    raise TranslationError(f"{f}: len of a {ty}")
                return f"{_par(t)}.length", NAT
            if fn.id in env and env[fn.id][1] == IDENT and len(e.args) == 1:
                t, ty = self.expr(e.args[0], env)
                if ty != STR:
                    raise TranslationError(f"{f}: {fn.id}() of a {ty} (a variable that may be None is used as a str)")
                return t, STR
            raise TranslationError(f"{f}: call of {fn.id}")
        if not isinstance(fn, ast.Attribute):
            raise TranslationError(f"{f}: call {ast.unparse(e)}")
        m = fn.attr
        if m == "join" and isinstance(fn.value, ast.Constant) and fn.value.value == "" and len(e.args) == 1:
            t, ty = self.expr(e.args[0], env)
            if ty != LST:
                raise TranslationError(f"{f}: join of a {ty}")
            return f"PyStr.joinEmpty {_par(t)}", STR
        if m == "sub" and isinstance(fn.value, ast.Name) and fn.value.id == "_white_space" and len(e.args) == 2 \
                and isinstance(e.args[0], ast.Constant) and e.args[0].value == "":
            self.check_white_space()
            t, ty = self.expr(e.args[1], env)
            if ty != STR:
                raise TranslationError(f"{f}: _white_space.sub of a {ty}")
            return f"removeWs {_par(t)}", STR
        r, ty = self.expr(fn.value, env)
        if ty != STR:
            raise TranslationError(f"{f}: method .{m} of a {ty} ({ast.unparse(e)})")
        if m == "strip" and not e.args:
            return f"strip {_par(r)}", STR
        if m == "upper" and not e.args:
            return f"upper {_par(r)}", STR
        raise TranslationError(f"{f}: unsupported method call {ast.unparse(e)}")

    def check_white_space(self):
        for n in self.module.body:
            if isinstance(n, ast.Assign) and len(n.targets) == 1 and isinstance(n.targets[0], ast.Name) and n.targets[0].id == "_white_space":
                if ast.unparse(n.value) == "re.compile('\\\\s+')":
                    return
                raise TranslationError(f"{self.f}: _white_space is {ast.unparse(n.value)}, expected re.compile(r'\\s+')")
        raise TranslationError(f"{self.f}: module constant _white_space not found")

    # ---------------- statements ----------------
    def cont(self, env):
        args = [p for p, _ in self.params]
        for name, ty, _ in self.state:
            t, cur = env[name]
            if cur == ty:
                args.append(_par(t))
            elif ty == OPT and cur == STR:
                args.append(f"(some {_par(t)})")
            else:
                raise TranslationError(f"{self.f}: state variable {name} is a {cur} at the end of an iteration, declared {ty}")
        return f"{LEAN_NAME[self.f]}_go {' '.join(args)} rest_"

    def none_test(self, test, env):
        """-> (name, is_none_branch_first) for `x is None` / `x is not None` on an Option variable"""
        if isinstance(test, ast.Compare) and len(test.ops) == 1 and isinstance(test.ops[0], (ast.Is, ast.IsNot)) \
                and isinstance(test.left, ast.Name) and isinstance(test.comparators[0], ast.Constant) and test.comparators[0].value is None:
            return test.left.id, isinstance(test.ops[0], ast.Is)
        return None

    def block(self, stmts, env, ind, in_loop):
        f = self.f
        if not stmts:
            return ind + (self.cont(env) if in_loop else ".ok []")
        s, rest = stmts[0], stmts[1:]
        if isinstance(s, ast.Expr) and isinstance(s.value, ast.Constant) and isinstance(s.value.value, str):
            return self.block(rest, env, ind, in_loop)
        if isinstance(s, ast.Continue):
            if not in_loop:
                raise TranslationError(f"{f}: continue outside the loop")
            return ind + self.cont(env)
        if isinstance(s, ast.Raise):
            exc = s.exc
            name = exc.func.id if isinstance(exc, ast.Call) and isinstance(exc.func, ast.Name) else exc.id if isinstance(exc, ast.Name) else None
            if name not in ERRS:
                raise TranslationError(f"{f}: raise of {ast.unparse(exc) if exc else None}")
            return f"{ind}.error {ERRS[name]}"
        if isinstance(s, ast.Expr) and isinstance(s.value, ast.Yield):
            v = s.value.value
            if not (isinstance(v, ast.Tuple) and len(v.elts) == 2):
                raise TranslationError(f"{f}: yield of something that is not a pair")
            a, at = self.expr(v.elts[0], env)
            b, bt = self.expr(v.elts[1], env)
            if at != STR or bt != STR:
                raise TranslationError(f"{f}: yield of a ({at}, {bt}) (a variable that may be None is used as a str)")
            return f"{ind}PyStr.ycons ({a}, {b}) (\n{self.block(rest, env, ind + '  ', in_loop)})"
        if isinstance(s, ast.Expr) and isinstance(s.value, ast.Call) and isinstance(s.value.func, ast.Attribute) \
                and s.value.func.attr == "append" and isinstance(s.value.func.value, ast.Name) and len(s.value.args) == 1:
            name = s.value.func.value.id
            if env.get(name, (None, None))[1] != LST:
                raise TranslationError(f"{f}: append to {name} which is not a list of str")
            t, ty = self.expr(s.value.args[0], env)
            if ty != STR:
                raise TranslationError(f"{f}: append of a {ty}")
            env = dict(env)
            pre = f"{ind}let {name} : {LST} := {env[name][0]} ++ [{t}]\n"
            env[name] = (name, LST)
            return pre + self.block(rest, env, ind, in_loop)
        if isinstance(s, ast.AugAssign) and isinstance(s.op, ast.Add) and isinstance(s.target, ast.Name):
            name = s.target.id
            if env.get(name, (None, None))[1] != NAT:
                raise TranslationError(f"{f}: += on {name} which is not a Nat")
            t, ty = self.expr(s.value, env)
            if ty != NAT:
                raise TranslationError(f"{f}: += of a {ty}")
            env = dict(env)
            pre = f"{ind}let {name} : {NAT} := {env[name][0]} + {_par(t)}\n"
            env[name] = (name, NAT)
            return pre + self.block(rest, env, ind, in_loop)
        if isinstance(s, ast.Assign) and len(s.targets) == 1 and isinstance(s.targets[0], ast.Name):
            name = s.targets[0].id
            t, ty = self.expr(s.value, env)
            decl = next((d for n, d, _ in self.state if n == name), None)
            if name in env and env[name][1] in (LINES, IDENT):
                raise TranslationError(f"{f}: assignment to {name}")
            if decl is not None and not (ty == decl or (decl == OPT and ty == STR)):
                raise TranslationError(f"{f}: {name} (declared {decl}) is assigned a {ty}")
            if decl is None and name in env and env[name][1] != ty:
                raise TranslationError(f"{f}: {name} changes its type")
            env = dict(env)
            env[name] = (name, ty)
            return f"{ind}let {name} : {ty} := {t}\n" + self.block(rest, env, ind, in_loop)
        if isinstance(s, ast.If):
            nt = self.none_test(s.test, env)
            if nt is not None and env.get(nt[0], (None, None))[1] == OPT:
                name, none_first = nt
                env_some = dict(env)
                env_some[name] = (name + "_v", STR)
                b_none, b_some = (s.body, s.orelse) if none_first else (s.orelse, s.body)
                a = self.block(list(b_none) + rest, dict(env), ind + "    ", in_loop)
                b = self.block(list(b_some) + rest, env_some, ind + "    ", in_loop)
                return f"{ind}match {env[name][0]} with\n{ind}  | none =>\n{a}\n{ind}  | some {name}_v =>\n{b}"
            if nt is not None and env.get(nt[0], (None, None))[1] == STR:
                # the variable is known to be a str here: the test is decided
                return self.block(list(s.orelse if nt[1] else s.body) + rest, env, ind, in_loop)
            c = self.truth(s.test, env)
            a = self.block(list(s.body) + rest, dict(env), ind + "  ", in_loop)
            b = self.block(list(s.orelse) + rest, dict(env), ind + "  ", in_loop)
            return f"{ind}if {c} then\n{a}\n{ind}else\n{b}"
        raise TranslationError(f"{f}: unsupported statement {ast.unparse(s).splitlines()[0]}")

    def emit(self):
        f, body = self.f, list(self.node.body)
        loops = [i for i, s in enumerate(body) if isinstance(s, ast.For)]
        if len(loops) != 1:
            raise TranslationError(f"{f}: expected exactly one top-level for loop, found {len(loops)}")
        pre, loop, post = body[:loops[0]], body[loops[0]], body[loops[0] + 1:]
        if not (isinstance(loop.target, ast.Name) and isinstance(loop.iter, ast.Name) and self.env.get(loop.iter.id, (0, 0))[1] == LINES
                and not loop.orelse):
            raise TranslationError(f"{f}: the loop is not `for <name> in data:`")
        expected, binds = PREAMBLE.get(f, ([], {}))
        expected = list(expected)
        for s in pre:
            if isinstance(s, ast.Expr) and isinstance(s.value, ast.Constant) and isinstance(s.value.value, str):
                continue
            if isinstance(s, ast.Assign) and len(s.targets) == 1 and isinstance(s.targets[0], ast.Name) and \
                    (isinstance(s.value, ast.Constant) and (s.value.value is None or s.value.value == 0 and s.value.value is not False)
                     or isinstance(s.value, ast.List) and not s.value.elts):
                t, ty = self.expr(s.value, self.env)
                self.state.append((s.targets[0].id, ty, t))
                self.env[s.targets[0].id] = (s.targets[0].id, ty)
                continue
            txt = ast.unparse(s)
            if expected and expected[0] == txt:
                expected.pop(0)
                self.skipped.append(txt)
                continue
            raise TranslationError(f"{f}: statement before the loop is neither a state initialisation nor the known header code: {txt.splitlines()[0]}")
        if expected:
            raise TranslationError(f"{f}: header statement not found before the loop: {expected[0].splitlines()[0]}")
        for n, ty in binds.items():
            self.params.append((n, ty))
            self.env[n] = (n, ty)
        name = LEAN_NAME[f]
        env_loop = dict(self.env)
        env_loop[loop.target.id] = (loop.target.id, STR)
        nil_case = self.block(post, dict(self.env), "    ", False)
        cons_case = self.block(list(loop.body), env_loop, "    ", True)
        psig = " ".join(f"({n} : {t})" for n, t in self.params)
        stypes = " → ".join(f"({n} : {t})" for n, t, _ in self.state)
        spat = ", ".join(n for n, _, _ in self.state)
        out = [f"/-- the loop of `{f}` and the code after it -/",
               f"def {name}_go {psig} : {stypes} → List Str → Except Err (List Rec)",
               f"  | {spat}, [] =>\n{nil_case}",
               f"  | {spat}, {loop.target.id} :: rest_ =>\n{cons_case}",
               f"/-- `{f}` from its state initialisation on" + (" (header code NOT translated: " + " ; ".join(x.replace("\n", " ") for x in self.skipped) + ")" if self.skipped else "") + " -/",
               f"def {name} {psig} (data : List Str) : Except Err (List Rec) :=",
               f"  {name}_go {' '.join(n for n, _ in self.params)} {' '.join(_par(t) for _, _, t in self.state)} data", ""]
        return "\n".join(out)


HEADER = """/- GENERATED by translator/c06_loop2lean.py from cogent3/parse/fasta.py and cogent3/parse/paml.py on every run -- do not edit.
   A generator is translated to the list of what it yields, or its first error.  Conventions: L1 `label_to_name` is the identity
   (its default `str`, applied to a str); L2 `s[0] in t` on an empty `s` (IndexError) is false; statements following an `if` are
   copied into both branches. -/
import CogentModel.Model.PyStr
namespace CogentModel.Gen.C06Loop
open CogentModel CogentModel.SeqFormats

"""


def translate(src: Path):
    problems, defs, trees = [], [], {}
    for rel, name in FUNCS:
        try:
            tree = trees.setdefault(rel, ast.parse((src / rel).read_text()))
        except (OSError, SyntaxError) as e:
            problems.append(f"{rel}: cannot be read/parsed ({type(e).__name__})")
            continue
        fns = [n for n in tree.body if isinstance(n, ast.FunctionDef) and n.name == name]
        if len(fns) != 1:
            problems.append(f"{rel}: expected exactly one module-level function {name}, found {len(fns)}")
            continue
        try:
            defs.append(Loop(fns[0], tree).emit())
        except TranslationError as e:
            problems.append(str(e))
    if problems:
        return None, problems
    return HEADER + "\n".join(defs) + "\nend CogentModel.Gen.C06Loop\n", []


def generate(src: Path, gen_path: Path):
    text, problems = translate(src)
    if text is None:
        return problems, False
    changed = (not gen_path.exists()) or gen_path.read_text() != text
    if changed:
        gen_path.write_text(text)
    return [], changed


if __name__ == "__main__":
    import sys

    t, p = translate(Path(sys.argv[1]))
    print(t if t else "\n".join(p))
