"""C10 translator: the integer / decision part of the three view exporters -> lean/CogentModel/Gen/C10Rich.lean   (`ast` only)

  old   core/sequence.py      SeqView.to_rich_dict      (+ the `is_reversed` property it reads)
  new   core/new_sequence.py  SeqView.to_rich_dict
  dataview core/new_alignment.py SeqDataView.to_rich_dict (is_reversed comes from new_sequence.SliceRecordABC)

Per exporter: `is_reversed_<tag>` (the property's return expression), `bounds_<tag>` (the values of the local names `start`, `stop`
at the statement `data["init_args"]["seq"] = <base>[start:stop]`, by symbolic execution of the assignments / the if-else in front
of it), `sliced_<tag>` (the source text of <base>) and `init_args_<tag>` (every `data["init_args"][key] = <expr>` in statement order,
as source text).  Supported expressions: int constants, local names, `self.<attr>`, + - * unary -, comparisons, `self.is_reversed`.
Anything else in those positions is a reported translation problem.
"""
from __future__ import annotations

import ast
from pathlib import Path

TARGETS = [
    ("old", "core/sequence.py", "SeqView", "core/sequence.py"),
    ("new", "core/new_sequence.py", "SeqView", "core/new_sequence.py"),
    ("dataview", "core/new_alignment.py", "SeqDataView", "core/new_sequence.py"),
]
PARAMS = ["start", "stop", "step", "seq_len"]


class TranslationError(Exception):
    pass


class Unsupported(Exception):
    pass


def _expr(e, env, tag):
    if isinstance(e, ast.Constant) and isinstance(e.value, int) and not isinstance(e.value, bool):
        return f"({e.value})" if e.value < 0 else str(e.value)
    if isinstance(e, ast.Name):
        if e.id in env:
            return env[e.id]
        raise Unsupported(f"name {e.id!r} read before assignment")
    if isinstance(e, ast.Attribute) and isinstance(e.value, ast.Name) and e.value.id == "self":
        if e.attr in PARAMS:
            return e.attr
        if e.attr == "is_reversed":
            return f"is_reversed_{tag} step"
        raise Unsupported(f"self.{e.attr}")
    if isinstance(e, ast.BinOp) and isinstance(e.op, (ast.Add, ast.Sub, ast.Mult)):
        op = {ast.Add: "+", ast.Sub: "-", ast.Mult: "*"}[type(e.op)]
        return f"({_expr(e.left, env, tag)} {op} {_expr(e.right, env, tag)})"
    if isinstance(e, ast.UnaryOp) and isinstance(e.op, ast.USub):
        return f"(-{_expr(e.operand, env, tag)})"
    if isinstance(e, ast.Compare) and len(e.ops) == 1:
        ops = {ast.Lt: "<", ast.LtE: "≤", ast.Gt: ">", ast.GtE: "≥", ast.Eq: "=", ast.NotEq: "≠"}
        if type(e.ops[0]) in ops:
            return f"decide ({_expr(e.left, env, tag)} {ops[type(e.ops[0])]} {_expr(e.comparators[0], env, tag)})"
    raise Unsupported(ast.unparse(e))


def _assign(st, env, tag):
    """symbolic execution of one assignment to local names (simultaneous for tuples)"""
    if len(st.targets) != 1:
        raise Unsupported(ast.unparse(st))
    t = st.targets[0]
    if isinstance(t, ast.Name):
        new = {t.id: _expr(st.value, env, tag)}
    elif isinstance(t, ast.Tuple) and all(isinstance(x, ast.Name) for x in t.elts) and isinstance(st.value, ast.Tuple) and len(t.elts) == len(st.value.elts):
        new = {x.id: _expr(v, env, tag) for x, v in zip(t.elts, st.value.elts)}
    else:
        raise Unsupported(ast.unparse(st))
    env.update(new)


def _init_key(t):
    """key K if t is data["init_args"][K]"""
    if isinstance(t, ast.Subscript) and isinstance(t.slice, ast.Constant) and isinstance(t.value, ast.Subscript):
        inner = t.value
        if isinstance(inner.value, ast.Name) and isinstance(inner.slice, ast.Constant) and inner.slice.value == "init_args":
            return t.slice.value
    return None


def _find(tree, cls, meth):
    for node in tree.body:
        if isinstance(node, ast.ClassDef) and node.name == cls:
            for m in node.body:
                if isinstance(m, ast.FunctionDef) and m.name == meth:
                    return m
    return None


def _is_reversed(tree, tag):
    for node in ast.walk(tree):
        if isinstance(node, ast.FunctionDef) and node.name == "is_reversed":
            body = [s for s in node.body if not (isinstance(s, ast.Expr) and isinstance(s.value, ast.Constant))]
            if len(body) == 1 and isinstance(body[0], ast.Return):
                return _expr(body[0].value, {}, tag)
            raise Unsupported("is_reversed is not a single return")
    raise Unsupported("is_reversed not found")


def _exporter(fn, tag):
    env = {}
    init_args = []
    bounds = sliced = None
    for st in fn.body:
        if isinstance(st, ast.Expr) and isinstance(st.value, ast.Constant):
            continue
        if isinstance(st, ast.Return):
            break
        if isinstance(st, ast.If):
            if bounds is not None:
                raise Unsupported("if statement after the slice")
            branches = []
            for body in (st.body, st.orelse):
                e2 = dict(env)
                for s in body:
                    if not isinstance(s, ast.Assign):
                        raise Unsupported(ast.unparse(s))
                    _assign(s, e2, tag)
                branches.append(e2)
            names = set(branches[0]) | set(branches[1])
            test = _expr(st.test, env, tag)
            for n in names:
                if n not in branches[0] or n not in branches[1]:
                    if n in ("start", "stop"):
                        raise Unsupported(f"{n} assigned in one branch only")
                    continue
                a, b = branches[0][n], branches[1][n]
                env[n] = a if a == b else f"(if {test} then {a} else {b})"
            continue
        if isinstance(st, ast.Assign) and len(st.targets) == 1:
            t = st.targets[0]
            k = _init_key(t)
            if k is not None:
                v = st.value
                if isinstance(v, ast.Subscript) and isinstance(v.slice, ast.Slice):
                    sl = v.slice
                    if not (isinstance(sl.lower, ast.Name) and isinstance(sl.upper, ast.Name) and sl.step is None):
                        raise Unsupported(ast.unparse(v))
                    if k != "seq" or bounds is not None:
                        raise Unsupported(f"slice stored under {k!r}")
                    bounds = (_expr(sl.lower, env, tag), _expr(sl.upper, env, tag))
                    sliced = ast.unparse(v.value)
                init_args.append((k, ast.unparse(v)))
                continue
            if isinstance(t, ast.Subscript) or (isinstance(t, ast.Name) and t.id == "data"):
                continue  # data = {...} / data["init_args"] = self._get_init_kwargs()
            _assign(st, env, tag)
            continue
        raise Unsupported(ast.unparse(st)[:80])
    if bounds is None:
        raise Unsupported('no `data["init_args"]["seq"] = <base>[start:stop]` statement')
    return bounds, sliced, init_args


HEADER = """/- GENERATED by translator/c10_rich2lean.py from core/sequence.py, core/new_sequence.py, core/new_alignment.py on every run -- do not edit.
   Integer / decision part of SeqView.to_rich_dict (old, new) and SeqDataView.to_rich_dict: the bounds of the slice that truncates the
   exported string, which string is sliced, and the init_args keys written (source text, statement order). -/
namespace CogentModel.Gen.C10Rich
"""


def translate(src: Path):
    src = Path(src)
    problems, out, info = [], [HEADER], {}
    for tag, f, cls, revf in TARGETS:
        try:
            fn = _find(ast.parse((src / f).read_text()), cls, "to_rich_dict")
            if fn is None:
                raise Unsupported(f"{cls}.to_rich_dict not found in {f}")
            rev = _is_reversed(ast.parse((src / revf).read_text()), tag)
            (lo, hi), sliced, init_args = _exporter(fn, tag)
        except Unsupported as e:
            problems.append(f"{tag}: unsupported: {e}")
            continue
        info[tag] = dict(sliced=sliced, keys=[k for k, _ in init_args])
        out.append(f"/-- `is_reversed` read by {cls}.to_rich_dict ({revf}) -/")
        out.append(f"def is_reversed_{tag} (step : Int) : Bool :=\n  {rev}\n")
        out.append(f"/-- {f} {cls}.to_rich_dict: (start, stop) of `<base>[start:stop]` -/")
        out.append(f"def bounds_{tag} (start stop step seq_len : Int) : Int × Int :=\n  ({lo}, {hi})\n")
        out.append(f"def sliced_{tag} : String := \"{sliced}\"\n")
        rows = ", ".join(f'("{k}", "{v}")' for k, v in init_args)
        out.append(f"def init_args_{tag} : List (String × String) :=\n  [{rows}]\n")
    out.append("end CogentModel.Gen.C10Rich\n")
    if problems:
        return None, info, problems
    return "\n".join(out), info, problems


def write_if_changed(path: Path, text: str) -> bool:
    if path.exists() and path.read_text() == text:
        return False
    path.parent.mkdir(parents=True, exist_ok=True)
    path.write_text(text)
    return True


if __name__ == "__main__":
    import sys

    lean, info, problems = translate(Path(sys.argv[1] if len(sys.argv) > 1 else "/repo/src/cogent3"))
    print(lean)
    print(info, problems)
