"""C13: Python -> Lean translator for the pure-Python identifier / guard / statement-choice logic of `DataStoreSqlite`
(app/sqlite_data_store.py) and of the base-class membership test it relies on (app/data_store.py DataStoreABC).

stdlib `ast` only; nothing of cogent3 is imported or executed.  Output lean/CogentModel/Gen/C13Sql.lean (a pure function of the
source text).  Translated:

    DataStoreABC.__contains__ / members      -> abc_contains          `any(m.unique_id == identifier for m in self)` over completed + not_completed
    DataStoreABC.write_not_completed / write_log -> (checked) both are exactly `self._check_writable(unique_id)` like `write`
    DataStoreSqlite.write / write_not_completed / write_log
                                             -> write_id, write_nc_id, write_log_id   (the identifier after `if unique_id.startswith(T): unique_id = Path(unique_id).name`)
                                                write_plan, write_nc_plan, write_log_plan : the ORDER of the effect statements + the
                                                table / is_completed arguments of `_write` + which cache is appended and under which test
    DataStoreSqlite._write                   -> write_is_log (table test of the log branch), write_updates (UPDATE rather than INSERT),
                                                update_sets / update_where / insert_cols / insert_vals / log_update_sets (the SQL text + bound tuples)
    DataStoreSqlite.drop_not_completed       -> drop_deletes (does the DELETE chosen by `if not unique_id` remove a row), drop_events
    DataStoreSqlite.md5                      -> md5_where, md5_column

SQL strings are f-strings over the module's table constants; only the shapes
    UPDATE <t> SET c=?, c=? WHERE c=?     INSERT INTO <t> (c,c,…) VALUES (?,?,…)     DELETE FROM <t> WHERE c=? [AND c=?]     SELECT * FROM <t> WHERE c = ?
are read (anything else is a translation PROBLEM); every `?` is paired with the element of the bound tuple at its position.
Props/C13.lean proves every generated definition equal to what the hand model Model/DataStoreSqlite.lean does, for all arguments.
Conventions: S1 `s.startswith(p)` = DataStore.startsWith, `Path(s).name` = DataStore.pathName; S2 a bound value `0` for the column
is_completed is `false`, a bound name is the row's / call's value of that name; S3 `x in self` is the parameter `member`
(its definition is abc_contains, translated separately).
"""
from __future__ import annotations

import ast
import re
from pathlib import Path

from .c13_names2lean import TranslationError, _lit, _par


def _docless(body):
    return [s for s in body if not (isinstance(s, ast.Expr) and isinstance(s.value, ast.Constant))]


def _err(where, msg):
    raise TranslationError(f"{where}: {msg}")


def sql_text(e, consts, where):
    """f-string / constant -> SQL text with the table constants substituted"""
    if isinstance(e, ast.Constant) and isinstance(e.value, str):
        return e.value
    if isinstance(e, ast.JoinedStr):
        out = ""
        for v in e.values:
            if isinstance(v, ast.Constant):
                out += v.value
            elif isinstance(v, ast.FormattedValue) and isinstance(v.value, ast.Name) and v.conversion == -1 and v.format_spec is None:
                if v.value.id in consts:
                    out += consts[v.value.id]
                else:
                    out += "{" + v.value.id + "}"
            else:
                _err(where, "SQL f-string field")
        return out
    _err(where, "SQL text is not a literal / f-string")


def bound(e, where):
    """the tuple of bound values -> list of python source texts"""
    if not isinstance(e, ast.Tuple):
        _err(where, "bound values are not a tuple")
    return [ast.unparse(x) for x in e.elts]


def parse_sql(text, vals, where):
    """-> dict(kind, table, sets=[(col,val)], where=[(col,val)], cols, vals)"""
    t = " ".join(text.split())
    m = re.fullmatch(r"UPDATE (\S+) SET (.+?) WHERE (.+)", t)
    if m:
        sets = [x.strip() for x in m.group(2).split(",")]
        wh = [x.strip() for x in re.split(r"\bAND\b", m.group(3))]
        cols = []
        for x in sets + wh:
            mm = re.fullmatch(r"(\w+)\s*=\s*\?", x)
            if not mm:
                _err(where, f"UPDATE clause {x!r}")
            cols.append(mm.group(1))
        if len(cols) != len(vals):
            _err(where, "number of ? and bound values differ")
        pairs = list(zip(cols, vals))
        return dict(kind="UPDATE", table=m.group(1), sets=pairs[: len(sets)], where=pairs[len(sets):])
    m = re.fullmatch(r"INSERT INTO (\S+) \(([\w, ]+)\) VALUES \(([?, ]+)\)", t)
    if m:
        cols = [c.strip() for c in m.group(2).split(",")]
        qs = [q.strip() for q in m.group(3).split(",")]
        if len(cols) != len(qs) or len(cols) != len(vals) or any(q != "?" for q in qs):
            _err(where, "INSERT columns / ? / bound values differ in number")
        return dict(kind="INSERT", table=m.group(1), sets=list(zip(cols, vals)), where=[])
    m = re.fullmatch(r"DELETE FROM (\S+) WHERE (.+)", t)
    if m:
        wh = [x.strip() for x in re.split(r"\bAND\b", m.group(2))]
        cols = []
        for x in wh:
            mm = re.fullmatch(r"(\w+)\s*=\s*\?", x)
            if not mm:
                _err(where, f"DELETE clause {x!r}")
            cols.append(mm.group(1))
        if len(cols) != len(vals):
            _err(where, "number of ? and bound values differ")
        return dict(kind="DELETE", table=m.group(1), sets=[], where=list(zip(cols, vals)))
    m = re.fullmatch(r"SELECT \* FROM (\S+) WHERE (\w+)\s*=\s*\?", t)
    if m:
        if len(vals) != 1:
            _err(where, "SELECT with more than one bound value")
        return dict(kind="SELECT", table=m.group(1), sets=[], where=[(m.group(2), vals[0])])
    _err(where, f"unsupported SQL {t[:60]!r}")


def _pairs(ps):
    return "[" + ", ".join(f'("{c}", "{v}")' for c, v in ps) + "]"


def exec_call(st, where):
    """`self.db.execute(cmnd, vals)` -> (cmnd expr, vals expr) or None"""
    if isinstance(st, ast.Expr) and isinstance(st.value, ast.Call) and ast.unparse(st.value.func) == "self.db.execute" and len(st.value.args) == 2 and not st.value.keywords:
        return st.value.args
    return None


def cmnd_block(stmts, consts, where, env=None):
    """a block `cmnd = <sql>; [vals = <tuple>;] self.db.execute(cmnd, <tuple|vals>)` -> parsed SQL (exactly one execute)"""
    env = dict(env or {})
    res, rest = None, []
    for st in stmts:
        if isinstance(st, ast.Assign) and len(st.targets) == 1 and isinstance(st.targets[0], ast.Name) and st.targets[0].id in ("cmnd", "vals"):
            env[st.targets[0].id] = st.value
            continue
        ex = exec_call(st, where)
        if ex is not None:
            if res is not None:
                _err(where, "two execute calls in one block")
            c = env.get(ex[0].id) if isinstance(ex[0], ast.Name) else ex[0]
            v = env.get(ex[1].id) if isinstance(ex[1], ast.Name) else ex[1]
            if c is None or v is None:
                _err(where, "execute arguments not bound in the block")
            res = parse_sql(sql_text(c, consts, where), bound(v, where), where)
            continue
        rest.append(st)
    return res, rest, env


def translate(sql_path: Path, ds_path: Path):
    """-> (lean text | None, info, problems)"""
    problems, info, parts = [], {}, []
    try:
        tree = ast.parse(Path(sql_path).read_text())
        dtree = ast.parse(Path(ds_path).read_text())
    except (SyntaxError, OSError) as e:
        return None, info, [str(e)]
    consts = {}
    for tr in (dtree, tree):
        for n in tr.body:
            if isinstance(n, ast.Assign) and len(n.targets) == 1 and isinstance(n.targets[0], ast.Name) and isinstance(n.value, ast.Constant) and isinstance(n.value.value, str):
                consts[n.targets[0].id] = n.value.value
    classes = {n.name: n for n in tree.body if isinstance(n, ast.ClassDef)}
    dclasses = {n.name: n for n in dtree.body if isinstance(n, ast.ClassDef)}

    def section(name, fn):
        try:
            parts.append(fn())
        except TranslationError as e:
            problems.append(str(e))
        except (KeyError, AttributeError, IndexError, TypeError) as e:
            problems.append(f"{name}: unexpected shape ({type(e).__name__}: {e})")

    def fns_of(cls):
        return {n.name: n for n in cls.body if isinstance(n, ast.FunctionDef)}

    # ---------------- DataStoreABC.__contains__ / members / the three abstract writers ----------------
    def s_abc():
        f = fns_of(dclasses["DataStoreABC"])
        w = "DataStoreABC"
        body = _docless(f["__contains__"].body)
        arg = f["__contains__"].args.args[1].arg
        if len(body) != 1 or not isinstance(body[0], ast.Return):
            _err(w, "__contains__ is not a single return")
        v = body[0].value
        if not (isinstance(v, ast.Call) and isinstance(v.func, ast.Name) and v.func.id == "any" and len(v.args) == 1 and isinstance(v.args[0], ast.GeneratorExp)):
            _err(w, "__contains__ is not any(<generator>)")
        g = v.args[0]
        if len(g.generators) != 1 or g.generators[0].ifs or ast.unparse(g.generators[0].iter) != "self" or not isinstance(g.generators[0].target, ast.Name):
            _err(w, "__contains__ generator is not `for m in self`")
        m = g.generators[0].target.id
        e = g.elt
        if not (isinstance(e, ast.Compare) and len(e.ops) == 1 and isinstance(e.ops[0], ast.Eq)):
            _err(w, "__contains__ element test is not an equality")
        sides = {ast.unparse(e.left), ast.unparse(e.comparators[0])}
        if sides != {f"{m}.unique_id", arg}:
            _err(w, f"__contains__ compares {sorted(sides)}")
        it = _docless(f["__iter__"].body)
        if len(it) != 1 or ast.unparse(it[0]) != "yield from self.members":
            _err(w, "__iter__ is not `yield from self.members`")
        mem = _docless(f["members"].body)
        if len(mem) != 1 or not isinstance(mem[0], ast.Return) or not isinstance(mem[0].value, ast.BinOp) or not isinstance(mem[0].value.op, ast.Add):
            _err(w, "members is not a sum of two lists")
        order = [ast.unparse(mem[0].value.left), ast.unparse(mem[0].value.right)]
        if sorted(order) != ["self.completed", "self.not_completed"]:
            _err(w, f"members = {order}")
        for k in ("write", "write_not_completed", "write_log"):
            b = _docless(f[k].body)
            if len(b) != 1 or ast.unparse(b[0]) != "self._check_writable(unique_id)":
                _err(w, f"{k} is not `self._check_writable(unique_id)`")
        names = ["completed" if o == "self.completed" else "not_completed" for o in order]
        return ("/-- `DataStoreABC.__contains__`: `any(m.unique_id == identifier for m in self)`, `self` iterating `members` -/\n"
                f"def abc_contains (completed not_completed : List Str) (identifier : Str) : Bool :=\n  ({names[0]} ++ {names[1]}).any (fun m_unique_id => m_unique_id == identifier)\n")

    # ---------------- write / write_not_completed / write_log ----------------
    def writer(fname, lname):
        w = f"DataStoreSqlite.{fname}"
        f = fns_of(classes["DataStoreSqlite"])[fname]
        body = _docless(f.body)
        idtxt, events, plan = "unique_id", [], {}
        for st in body:
            u = ast.unparse(st)
            if isinstance(st, ast.If) and not st.orelse and len(st.body) == 1 and isinstance(st.test, ast.Call) and isinstance(st.test.func, ast.Attribute) \
                    and st.test.func.attr == "startswith" and ast.unparse(st.test.func.value) == "unique_id" and len(st.test.args) == 1:
                a = st.test.args[0]
                p = consts.get(a.id) if isinstance(a, ast.Name) else (a.value if isinstance(a, ast.Constant) and isinstance(a.value, str) else None)
                if p is None:
                    _err(w, "startswith argument is not a string constant")
                if ast.unparse(st.body[0]) != "unique_id = Path(unique_id).name":
                    _err(w, f"strip statement {ast.unparse(st.body[0])[:50]}")
                if events:
                    _err(w, "identifier rewritten after an effect")
                idtxt = f"if startsWith unique_id {_lit(p)} then pathName unique_id else unique_id"
                continue
            if u == f"super().{fname}(unique_id=unique_id, data=data)":
                events.append("check_writable")
                continue
            if u == "self.drop_not_completed(unique_id=unique_id)":
                events.append("drop_not_completed")
                continue
            if isinstance(st, ast.Assign) and isinstance(st.value, ast.Call) and ast.unparse(st.value.func) == "self._write" and not st.value.args:
                kw = {k.arg: k.value for k in st.value.keywords}
                if set(kw) != {"table_name", "unique_id", "data", "is_completed"} or ast.unparse(kw["unique_id"]) != "unique_id" or ast.unparse(kw["data"]) != "data":
                    _err(w, "_write call shape")
                tn = kw["table_name"]
                plan["table"] = consts.get(tn.id) if isinstance(tn, ast.Name) else None
                if plan["table"] is None or not isinstance(kw["is_completed"], ast.Constant) or not isinstance(kw["is_completed"].value, bool):
                    _err(w, "_write table / is_completed are not constants")
                plan["completed"] = kw["is_completed"].value
                events.append("_write")
                continue
            if isinstance(st, ast.If) and not st.orelse and len(st.body) == 1 and isinstance(st.body[0], ast.Expr):
                b = ast.unparse(st.body[0])
                t = ast.unparse(st.test)
                mm = re.fullmatch(r"self\.(_completed|_not_completed)\.append\(member\)", b)
                if not mm:
                    _err(w, f"unsupported statement {b[:50]}")
                if t == "member is not None":
                    events.append(f"append{mm.group(1)}")
                elif t == f"member is not None and member not in self.{mm.group(1)}":
                    events.append(f"append{mm.group(1)}_if_absent")
                else:
                    _err(w, f"cache append under the test {t[:50]}")
                continue
            if u == "return member":
                events.append("return_member")
                continue
            _err(w, f"unsupported statement {u[:60]}")
        if "table" not in plan:
            _err(w, "no _write call")
        info[fname] = events
        return (f"/-- `{fname}`: the identifier after the table-prefix rewrite -/\ndef {lname}_id (unique_id : Str) : Str :=\n  {idtxt}\n\n"
                f"/-- `{fname}`: (table handed to `_write`, is_completed, effect statements in source order) -/\n"
                f"def {lname}_plan : Str × Bool × List String :=\n  ({_lit(plan['table'])}, {'true' if plan['completed'] else 'false'}, [" + ", ".join(f'"{e}"' for e in events) + "])\n")

    # ---------------- _write ----------------
    def s_write():
        w = "DataStoreSqlite._write"
        body = _docless(fns_of(classes["DataStoreSqlite"])["_write"].body)
        out = {}
        events = []
        for st in body:
            u = ast.unparse(st)
            if isinstance(st, ast.If) and ast.unparse(st.test) == "self._log_id is None" and not st.orelse and [ast.unparse(x) for x in st.body] == ["self._init_log()"]:
                events.append("init_log_if_none")
                continue
            if isinstance(st, ast.If) and isinstance(st.test, ast.Compare) and ast.unparse(st.test.left) == "table_name" and len(st.test.ops) == 1 \
                    and isinstance(st.test.ops[0], ast.Eq) and isinstance(st.test.comparators[0], ast.Name) and not st.orelse and "log" not in out:
                t = consts.get(st.test.comparators[0].id)
                if t is None:
                    _err(w, "table test against a non-constant")
                sql, rest, _ = cmnd_block(st.body, consts, w)
                if sql is None or [ast.unparse(x) for x in rest] != ["return None"]:
                    _err(w, "log branch is not `cmnd; execute; return None`")
                if sql["kind"] != "UPDATE" or sql["table"] != "{table_name}":
                    _err(w, "log branch statement is not UPDATE {table_name}")
                out["log"] = (t, sql)
                events.append("log_branch")
                continue
            if u == "md5 = get_text_hexdigest(data)":
                events.append("md5_of_data")
                continue
            if isinstance(st, ast.If) and st.orelse and "upd" not in out:
                conj = st.test.values if isinstance(st.test, ast.BoolOp) and isinstance(st.test.op, ast.And) else [st.test]
                terms = []
                for c in conj:
                    cu = ast.unparse(c)
                    if cu == "unique_id in self":
                        terms.append("member")
                    elif cu == "self.mode is not APPEND":
                        terms.append("!append")
                    elif cu == "self.mode is APPEND":
                        terms.append("append")
                    elif cu == "unique_id not in self":
                        terms.append("!member")
                    else:
                        _err(w, f"UPDATE/INSERT test term {cu[:40]}")
                a, ra, _ = cmnd_block(st.body, consts, w)
                b, rb, _ = cmnd_block(st.orelse, consts, w)
                if a is None or b is None or ra or rb:
                    _err(w, "UPDATE/INSERT branches are not `cmnd; execute`")
                out["upd"] = (" && ".join(terms), a, b)
                events.append("update_or_insert")
                continue
            if u == "return DataMember(data_store=self, unique_id=unique_id)":
                events.append("return_member")
                continue
            _err(w, f"unsupported statement {u[:60]}")
        for k in ("log", "upd"):
            if k not in out:
                _err(w, f"no {k} branch")
        cond, a, b = out["upd"]
        kinds = (a["kind"], b["kind"])
        if sorted(kinds) != ["INSERT", "UPDATE"] or a["table"] != "{table_name}" or b["table"] != "{table_name}":
            _err(w, f"the two branches are {kinds}")
        if kinds[0] != "UPDATE":
            cond, a, b = f"!({cond})", b, a
        info["_write"] = events
        t, lsql = out["log"]
        return ("/-- `_write`: the table test of the log branch -/\n"
                f"def write_is_log (table_name : Str) : Bool :=\n  table_name == {_lit(t)}\n\n"
                "/-- `_write`: UPDATE (true) rather than INSERT (false); `member` = `unique_id in self`, `append` = `self.mode is APPEND` -/\n"
                f"def write_updates (member append : Bool) : Bool :=\n  {cond}\n\n"
                "/-- `_write`: (column, bound python value) of the UPDATE's SET and WHERE, the INSERT's columns, the log UPDATE's SET and WHERE -/\n"
                f"def update_sets : List (String × String) := {_pairs(a['sets'])}\n"
                f"def update_where : List (String × String) := {_pairs(a['where'])}\n"
                f"def insert_cols : List (String × String) := {_pairs(b['sets'])}\n"
                f"def log_update_sets : List (String × String) := {_pairs(lsql['sets'])}\n"
                f"def log_update_where : List (String × String) := {_pairs(lsql['where'])}\n\n"
                "/-- `_write`: statements in source order -/\n"
                "def write_events : List String := [" + ", ".join(f'"{e}"' for e in events) + "]\n")

    # ---------------- drop_not_completed ----------------
    def where_pred(sql, w):
        """WHERE clause of a DELETE on the results table -> Lean Bool over (unique_id record_id : Str) (is_completed : Bool)"""
        if sql["kind"] != "DELETE" or sql["table"] != consts.get("_RESULT_TABLE"):
            _err(w, f"not a DELETE on the results table: {sql['kind']} {sql['table']}")
        terms = []
        for col, val in sql["where"]:
            if col == "is_completed" and val in ("0", "False"):
                terms.append("(is_completed == false)")
            elif col == "is_completed" and val in ("1", "True"):
                terms.append("(is_completed == true)")
            elif col == "record_id" and val == "unique_id":
                terms.append("(record_id == unique_id)")
            else:
                _err(w, f"WHERE {col} = {val}")
        return " && ".join(terms) if terms else "true"

    def s_drop():
        w = "DataStoreSqlite.drop_not_completed"
        body = _docless(fns_of(classes["DataStoreSqlite"])["drop_not_completed"].body)
        events, pred = [], None
        env = {}
        for st in body:
            u = ast.unparse(st)
            if isinstance(st, ast.If) and st.orelse and pred is None:
                tu = ast.unparse(st.test)
                if tu == "not unique_id":
                    c = "unique_id.isEmpty"
                elif tu == "unique_id":
                    c = "!unique_id.isEmpty"
                else:
                    _err(w, f"test {tu[:40]}")
                ea = {}
                for br, key in ((st.body, "a"), (st.orelse, "b")):
                    e = {}
                    for s in br:
                        if isinstance(s, ast.Assign) and len(s.targets) == 1 and isinstance(s.targets[0], ast.Name) and s.targets[0].id in ("cmnd", "vals"):
                            e[s.targets[0].id] = s.value
                        else:
                            _err(w, f"branch statement {ast.unparse(s)[:50]}")
                    if set(e) != {"cmnd", "vals"}:
                        _err(w, "a branch does not bind cmnd and vals")
                    ea[key] = e
                pa = where_pred(parse_sql(sql_text(ea["a"]["cmnd"], consts, w), bound(ea["a"]["vals"], w), w), w)
                pb = where_pred(parse_sql(sql_text(ea["b"]["cmnd"], consts, w), bound(ea["b"]["vals"], w), w), w)
                pred = f"if {c} then {pa} else {pb}"
                events.append("choose_delete")
                continue
            if u == "self.db.execute(cmnd, vals)" and pred is not None:
                events.append("execute")
                continue
            if u == "self._not_completed = []":
                events.append("cache_reset")
                continue
            _err(w, f"unsupported statement {u[:60]}")
        if pred is None:
            _err(w, "no DELETE choice")
        info["drop_not_completed"] = events
        return ("/-- `drop_not_completed`: does the executed DELETE remove the row (record_id, is_completed) -/\n"
                f"def drop_deletes (unique_id record_id : Str) (is_completed : Bool) : Bool :=\n  {pred}\n\n"
                "/-- `drop_not_completed`: statements in source order -/\n"
                "def drop_events : List String := [" + ", ".join(f'"{e}"' for e in events) + "]\n")

    # ---------------- md5 ----------------
    def s_md5():
        w = "DataStoreSqlite.md5"
        body = _docless(fns_of(classes["DataStoreSqlite"])["md5"].body)
        if len(body) != 3:
            _err(w, "expected cmnd / execute / return")
        if not (isinstance(body[0], ast.Assign) and ast.unparse(body[0].targets[0]) == "cmnd"):
            _err(w, "first statement is not cmnd = …")
        ex = body[1]
        if not (isinstance(ex, ast.Assign) and ast.unparse(ex.targets[0]) == "result" and isinstance(ex.value, ast.Call) and ast.unparse(ex.value.func).endswith(".fetchone")
                and isinstance(ex.value.func.value, ast.Call) and ast.unparse(ex.value.func.value.func) == "self.db.execute"):
            _err(w, "second statement is not result = self.db.execute(…).fetchone()")
        args = ex.value.func.value.args
        if len(args) != 2 or ast.unparse(args[0]) != "cmnd":
            _err(w, "execute arguments")
        sql = parse_sql(sql_text(body[0].value, consts, w), bound(args[1], w), w)
        if sql["kind"] != "SELECT" or sql["table"] != consts.get("_RESULT_TABLE"):
            _err(w, "not a SELECT on the results table")
        r = body[2]
        mm = re.fullmatch(r"return result\['(\w+)'\] if result else None", ast.unparse(r))
        if not mm:
            _err(w, f"return shape {ast.unparse(r)[:50]}")
        return ("/-- `md5()`: WHERE clause of the SELECT on the results table, and the column returned (None when there is no row) -/\n"
                f"def md5_where : List (String × String) := {_pairs(sql['where'])}\n"
                f"def md5_column : String := \"{mm.group(1)}\"\n")

    parts.append("""/- GENERATED by translator/c13_sql2lean.py from cogent3/app/sqlite_data_store.py (+ DataStoreABC of app/data_store.py) on every
   run -- do not edit.  Identifier rewriting, guards, the UPDATE/INSERT and DELETE choice, the SQL column/value pairing and the
   statement ORDER of DataStoreSqlite.  Conventions: S1 `s.startswith(p)` = startsWith, `Path(s).name` = pathName; S2 bound `0`
   for is_completed = false; S3 `x in self` = the parameter `member` (abc_contains). -/
import CogentModel.Model.DataStore
set_option linter.unusedVariables false
namespace CogentModel.Gen.C13Sql
open CogentModel CogentModel.KV CogentModel.DataStore
""")
    section("DataStoreABC", s_abc)
    section("write", lambda: writer("write", "write"))
    section("write_not_completed", lambda: writer("write_not_completed", "write_nc"))
    section("write_log", lambda: writer("write_log", "write_log"))
    section("_write", s_write)
    section("drop_not_completed", s_drop)
    section("md5", s_md5)
    parts.append("end CogentModel.Gen.C13Sql\n")
    if problems:
        return None, info, problems
    return "\n".join(parts), info, problems


if __name__ == "__main__":
    import sys

    lean, info, problems = translate(Path(sys.argv[1]), Path(sys.argv[2]))
    print(lean or "")
    print(info, problems, file=sys.stderr)
