"""Python -> Lean translator for the integer arithmetic of cogent3 slice records (C01).

On every run this re-reads, with ``ast`` only (nothing of cogent3 is imported or executed),

    core/sequence.py      module functions _input_vals_pos_step/_input_vals_neg_step,
                          class SliceRecordABC, class SeqView            -> namespace GenOld
    core/new_sequence.py  the same names                                 -> namespace GenNew
    core/new_sequence.py  SliceRecordABC + core/new_alignment.py SeqDataView -> namespace GenData

and emits ``lean/CogentModel/Gen/C01View.lean``.  The output is a pure function of the
source text (no timestamps), so an unchanged source gives a byte-identical file.

Supported fragment (anything else is a *translation problem*, never skipped):
  * parameters / locals of type int, Optional[int], bool, 3-tuples of int; ``slice`` parameters
    (three Optional[int] components); ``Union[int, slice]`` parameters (two variants of the function);
  * ``self.start/stop/step/offset/seq_len`` (and the private spellings), ``len(self)``,
    ``self.is_reversed``, truthiness of ``self`` (= ``len(self) != 0``), ``len(seq)`` of a str parameter;
  * ``if/elif/else``, early ``return``, tuple returns, ``+ - *``, ``//`` -> ``Int.fdiv``,
    ``%`` -> ``Int.fmod``, ``abs/max/min``, (chained) comparisons, ``and/or/not``, conditional
    expressions, walrus, augmented / chained / tuple assignment;
  * ``raise X(...)`` -> ``Except.error`` (ValueError, IndexError, AssertionError),
    ``assert c, msg`` -> ``.error .assertionError`` when false;
  * ``x is None`` / ``x is not None`` / ``==`` on Optional values: STATIC SPECIALISATION -- a ``match``
    on the Option parameters that are inspected is emitted at the top of the function and the body
    is partially evaluated for every None/some combination (constant folding of tests, pruning);
  * ``self.__class__(...)`` -> the generated constructor ``mk``; calls of the other translated
    methods; ``self._zero_slice``; ``self.copy()``; ``func = f if c else g`` followed by ``func(...)``.

Code shape: nested if-then-else; an ``if`` whose branches only assign becomes
``let x := if c then a else b`` (so ``a if c else b`` and the if/else statement translate to the
same text); "the rest of the function after an if with an early return in some branch" becomes a
local function ``let k : ... := fun ... => ...``.

Modelling conventions (stated in the generated header as well):
  A1 ``len(self.seq)`` of an existing view is ``self.seq_len`` (class invariant established by the
     constructor's check ``seq_len != len(seq) -> AssertionError``);
  A2 an ``if self.step > 0: ... elif self.step < 0: ...`` chain without ``else`` at the end of a function
     is exhaustive (``step != 0`` is part of the proved invariant ``Inv``), so the implicit
     ``return None`` is not modelled;
  A3 ``x // 0`` / ``x % 0`` are ``Int.fdiv x 0 = 0`` / ``Int.fmod x 0 = x`` (Python raises; excluded by ``Inv``).

Sequence-level getters (``Sequence.annotation_offset``, ``Sequence.parent_coordinates`` of the module's ``Sequence``
class) are translated as functions of the VIEW the sequence wraps:
  A4 ``self._seq`` is the slice record (the generated function takes it as its ``self``); the python text is
     first put into a normal form that keeps python's left-to-right evaluation order: attribute loads inside a
     returned tuple are bound to temporaries in order (so a raising ``parent_start`` raises before ``parent_stop``
     is asked);
  A5 components of the returned tuple that are opaque strings (``seqid``) are dropped: the generated function is
     the program slice on the integer components ``(start, stop, strand)``.
"""
from __future__ import annotations

import ast
from pathlib import Path


class TranslationError(Exception):
    pass


ERR = {"ValueError": "valueError", "IndexError": "indexError", "AssertionError": "assertionError"}
FIELDS = {"start": "start", "stop": "stop", "step": "step", "offset": "offset", "_offset": "offset",
          "seq_len": "seqLen", "_seq_len": "seqLen"}
OPAQUE_ATTRS = {"seq", "seqid", "_seqid", "alphabet"}
LEAN_KEYWORDS = {"at", "from", "end", "then", "else", "if", "fun", "let", "do", "in", "with", "match", "have",
                 "show", "by", "where", "open", "def", "instance", "structure", "class", "namespace", "section",
                 "variable", "theorem", "example", "set_option", "import", "return", "for", "unless", "mut", "Type"}

METHOD_NAMES = {
    "_input_vals_pos_step": "inputValsPos", "_input_vals_neg_step": "inputValsNeg",
    "__len__": "len", "is_reversed": "isReversed", "parent_start": "parentStart", "parent_stop": "parentStop",
    "_get_index": "getIndex", "absolute_position": "absolutePosition", "relative_position": "relativePosition",
    "_get_forward_slice_from_forward_seqview_": "fwdFromFwd", "_get_forward_slice_from_reverse_seqview_": "fwdFromRev",
    "_get_reverse_slice_from_forward_seqview_": "revFromFwd", "_get_reverse_slice_from_reverse_seqview_": "revFromRev",
    "_get_slice": "getSlice", "_get_reverse_slice": "getReverseSlice", "__getitem__": "getitem",
    "__init__": "mk", "_zero_slice": "zeroSlice", "copy": "copy", "to_rich_dict": "richDictBounds",
    "_checked_seq_len": "checkedSeqLen",
}

T_INT, T_OPT, T_BOOL, T_VIEW = "Int", "Option Int", "Bool", "View"
T_T3, T_T2 = "Int × Int × Int", "Int × Int"


def lname(n: str) -> str:
    return n + "_" if n in LEAN_KEYWORDS else n


# ---------------------------------------------------------------------------
# Lean expression IR (tuples) and printer
# ---------------------------------------------------------------------------
def pe(e) -> str:
    """print an expression / proposition, fully parenthesised where compound"""
    k = e[0]
    if k == "var":
        return e[1]
    if k == "int":
        return str(e[1]) if e[1] >= 0 else f"({e[1]})"
    if k == "none":
        return "none"
    if k == "some":
        return f"(some {pe(e[1])})"
    if k == "bin":
        return f"({pe(e[2])} {e[1]} {pe(e[3])})"
    if k == "neg":
        return f"(-{pe(e[1])})"
    if k == "call":
        return "(" + " ".join([e[1]] + [pe(a) for a in e[2]]) + ")" if e[2] else e[1]
    if k == "field":
        return f"{pe(e[1])}.{e[2]}"
    if k == "tuple":
        return "(" + ", ".join(pe(x) for x in e[1]) + ")"
    if k == "proj":
        base, i, n = pe(e[1]), e[2], e[3]
        return base + ".2" * i + (".1" if i < n - 1 else "")
    if k == "ite":
        return f"(if {pe(e[1])} then {pe(e[2])} else {pe(e[3])})"
    if k == "cmp":
        return f"({pe(e[2])} {e[1]} {pe(e[3])})"
    if k == "and":
        return "(" + " ∧ ".join(pe(x) for x in e[1]) + ")"
    if k == "or":
        return "(" + " ∨ ".join(pe(x) for x in e[1]) + ")"
    if k == "not":
        return f"(¬ {pe(e[1])})"
    if k == "istrue":
        return f"({pe(e[1])} = true)"
    if k == "decide":
        return f"(decide {pe(e[1])})"
    if k == "true":
        return "True"
    if k == "false":
        return "False"
    if k == "struct":
        a = e[1]
        return ("({ start := %s, stop := %s, step := %s, offset := %s, seqLen := %s } : View)" % tuple(pe(x) for x in a))
    if k == "blit":
        return "true" if e[1] else "false"
    raise TranslationError(f"internal: cannot print {e!r}")


def free_vars(e, acc=None):
    acc = set() if acc is None else acc
    if isinstance(e, tuple):
        if e and e[0] == "var":
            acc.add(e[1])
        else:
            for x in e[1:]:
                free_vars(x, acc)
    elif isinstance(e, list):
        for x in e:
            free_vars(x, acc)
    return acc


TRUE, FALSE = ("true",), ("false",)


def p_and(ps):
    out = []
    for p in ps:
        if p == FALSE:
            return FALSE
        if p != TRUE:
            out.append(p)
    if not out:
        return TRUE
    return out[0] if len(out) == 1 else ("and", out)


def p_or(ps):
    out = []
    for p in ps:
        if p == TRUE:
            return TRUE
        if p != FALSE:
            out.append(p)
    if not out:
        return FALSE
    return out[0] if len(out) == 1 else ("or", out)


def p_not(p):
    if p == TRUE:
        return FALSE
    if p == FALSE:
        return TRUE
    return ("not", p)


# ---------------------------------------------------------------------------
# values during translation: (type, lean-expr)
#   type in: int, none, bool (lean Bool expr), optint (unspecialised Option Int), tuple<n>, view,
#            func (conditional function reference), kwargs, sized (str whose length is an Int expr),
#            opaque, slice (components)
# ---------------------------------------------------------------------------
class Val:
    __slots__ = ("t", "e", "x")

    def __init__(self, t, e=None, x=None):
        self.t, self.e, self.x = t, e, x

    def __repr__(self):
        return f"Val({self.t},{self.e},{self.x})"

    def key(self):
        return (self.t, repr(self.e), repr(self.x))


def lean_type(t):
    if t == "int":
        return T_INT
    if t == "bool":
        return T_BOOL
    if t == "view":
        return T_VIEW
    if t == "optint":
        return T_OPT
    if t == "tuple3":
        return T_T3
    if t == "tuple2":
        return T_T2
    raise TranslationError(f"no Lean type for a value of kind {t}")


class FnInfo:
    """a translated function, as seen by its callers"""

    def __init__(self, lean, params, ret_t, raises, uses_self):
        self.lean = lean          # fully qualified lean name
        self.params = params      # [(pyname, kind, default-ast-or-None)], kind in int/optint/bool/slice/sized/opaque/kwargs
        self.ret_t = ret_t        # int / tuple3 / tuple2 / view / bool
        self.raises = raises
        self.uses_self = uses_self


# ---------------------------------------------------------------------------
# statement IR printer
# ---------------------------------------------------------------------------
def stmt_raises(s) -> bool:
    k = s[0]
    if k == "err" or k == "bind":
        return True
    if k == "retcall":
        return s[2]
    if k in ("ret", "tailk"):
        return False
    if k == "let":
        return stmt_raises(s[4])
    if k == "letk":
        return stmt_raises(s[3]) or stmt_raises(s[4])
    if k == "if":
        return stmt_raises(s[2]) or stmt_raises(s[3])
    raise TranslationError(f"internal: stmt {k}")


def ret_types(s, acc):
    k = s[0]
    if k == "ret":
        acc.add(s[1].t)
    elif k == "retcall":
        acc.add(s[3])
    elif k == "let":
        ret_types(s[4], acc)
    elif k == "letk":
        ret_types(s[3], acc)
        ret_types(s[4], acc)
    elif k == "if":
        ret_types(s[2], acc)
        ret_types(s[3], acc)
    elif k == "bind":
        ret_types(s[4], acc)
    return acc


def print_stmt(s, ind, raises, rett) -> list:
    """lines of a statement-IR tree; `raises`: the enclosing function returns Except Err rett"""
    sp = " " * ind
    k = s[0]
    if k == "ret":
        return [sp + (f".ok {pe(s[1].e)}" if raises else pe(s[1].e))]
    if k == "retcall":
        if s[2] or not raises:
            return [sp + pe(s[1])]
        return [sp + f".ok {pe(s[1])}"]
    if k == "err":
        return [sp + f".error .{s[1]}"]
    if k == "tailk":
        return [sp + " ".join([s[1]] + [pe(a) for a in s[2]])]
    if k == "let":
        return [sp + f"let {s[1]} : {s[2]} := {pe(s[3])}"] + print_stmt(s[4], ind, raises, rett)
    if k == "letk":
        full = f"Except Err ({rett})" if raises else rett
        ty = " → ".join([t for _, t in s[2]] + [full])
        ps = " ".join(f"({n} : {t})" for n, t in s[2])
        return ([sp + f"let {s[1]} : {ty} := fun {ps} =>"] + print_block(s[3], ind + 2, raises, rett, force=True)
                + print_stmt(s[4], ind, raises, rett))
    if k == "if":
        return ([sp + f"if {pe(s[1])} then"] + print_block(s[2], ind + 2, raises, rett) + [sp + "else"]
                + print_block(s[3], ind + 2, raises, rett))
    if k == "bind":
        return ([sp + f"match {pe(s[3])} with", sp + "| .error e' => .error e'", sp + f"| .ok {s[1]} =>"]
                + print_block(s[4], ind + 2, raises, rett))
    raise TranslationError(f"internal: stmt {k}")


def print_block(s, ind, raises, rett, force=False) -> list:
    lines = print_stmt(s, ind, raises, rett)
    if force or s[0] in ("let", "letk", "bind"):
        lines[0] = " " * ind + "(" + lines[0][ind:]
        lines[-1] = lines[-1] + ")"
    return lines


# ---------------------------------------------------------------------------
# one function variant
# ---------------------------------------------------------------------------
class TailK(ast.stmt):
    """pseudo statement: call the local continuation with the current values"""

    _fields = ()

    def __init__(self, name, names):
        super().__init__()
        self.name, self.names = name, names


def _dump(n):
    return ast.dump(n)


def _is_self_attr(n, attr=None):
    return (isinstance(n, ast.Attribute) and isinstance(n.value, ast.Name) and n.value.id == "self"
            and (attr is None or n.attr == attr))


class FnTranslator:
    def __init__(self, ns, pyname, where, is_init=False, end_tuple=None):
        self.ns = ns                # Namespace (callee table, class info)
        self.pyname = pyname
        self.where = where          # for messages
        self.is_init = is_init
        self.end_tuple = end_tuple  # names returned as a tuple when the (sliced) body ends
        self.kcount = 0
        self.cond_depth = 0
        self.walrus = []
        self.var_order = []
        self.versions = {}
        self.assumptions = []
        self.union_is_int = {}      # param name -> bool (variant of a Union[int, slice] parameter)

    # -- helpers ------------------------------------------------------------
    def fail(self, node, msg):
        ln = getattr(node, "lineno", "?")
        raise TranslationError(f"{self.where}:{ln}: {msg}")

    def bind(self, env, name, val):
        env[name] = val
        self.versions[name] = self.versions.get(name, 0) + 1
        if name not in self.var_order:
            self.var_order.append(name)

    # -- expressions ----------------------------------------------------------
    def boolish(self, n, env):
        if isinstance(n, ast.Compare):
            return True
        if isinstance(n, ast.BoolOp):
            return all(self.boolish(v, env) for v in n.values)
        if isinstance(n, ast.UnaryOp) and isinstance(n.op, ast.Not):
            return True
        if isinstance(n, ast.Constant) and isinstance(n.value, bool):
            return True
        if isinstance(n, ast.Name) and n.id in env and env[n.id].t == "bool":
            return True
        if isinstance(n, ast.Call) and isinstance(n.func, ast.Name) and n.func.id == "_is_int":
            return True
        if _is_self_attr(n, "is_reversed"):
            return True
        return False

    def truthy(self, v, node):
        if v.t == "int":
            if v.e[0] == "int":
                return TRUE if v.e[1] != 0 else FALSE
            return ("cmp", "≠", v.e, ("int", 0))
        if v.t == "none":
            return FALSE
        if v.t == "bool":
            if v.e[0] == "blit":
                return TRUE if v.e[1] else FALSE
            if v.e[0] == "decide":
                return v.e[1]
            return ("istrue", v.e)
        if v.t == "view" and v.x == "self":
            if self.ns.has_bool:
                self.fail(node, "truthiness of self with a user-defined __bool__ is outside the fragment")
            return ("cmp", "≠", self.ns.call_len(self, node), ("int", 0))
        self.fail(node, f"truthiness of a value of kind {v.t} is outside the fragment")

    def test(self, n, env):
        """python expression in boolean context -> proposition (TRUE/FALSE when static)"""
        if isinstance(n, ast.BoolOp):
            parts = []
            for i, v in enumerate(n.values):
                if i:
                    self.cond_depth += 1
                try:
                    p = self.test(v, env)
                finally:
                    if i:
                        self.cond_depth -= 1
                if isinstance(n.op, ast.Or) and p == TRUE:
                    return TRUE
                if isinstance(n.op, ast.And) and p == FALSE:
                    return FALSE
                parts.append(p)
            return p_or(parts) if isinstance(n.op, ast.Or) else p_and(parts)
        if isinstance(n, ast.UnaryOp) and isinstance(n.op, ast.Not):
            p = self.test(n.operand, env)
            if p[0] == "cmp" and p[1] == "≠":
                return ("cmp", "=", p[2], p[3])
            if p[0] == "cmp" and p[1] == "=":
                return ("cmp", "≠", p[2], p[3])
            return p_not(p)
        if isinstance(n, ast.Compare):
            return self.compare(n, env)
        if isinstance(n, ast.Constant) and isinstance(n.value, bool):
            return TRUE if n.value else FALSE
        if isinstance(n, ast.Call) and isinstance(n.func, ast.Name) and n.func.id == "_is_int":
            if len(n.args) == 1 and isinstance(n.args[0], ast.Name) and n.args[0].id in self.union_is_int:
                return TRUE if self.union_is_int[n.args[0].id] else FALSE
            if len(n.args) == 1:
                v = self.value(n.args[0], env)
                if v.t == "int":
                    return TRUE
                if v.t in ("none", "slice"):
                    return FALSE
            self.fail(n, "_is_int(...) on a value whose kind is not static")
        if _is_self_attr(n, "is_reversed") and not self.is_init:
            return self.ns.inline_is_reversed(self, n, env)
        return self.truthy(self.value(n, env), n)

    def compare(self, n, env):
        operands = [n.left] + list(n.comparators)
        vals = [self.value(o, env) for o in operands]
        if len(operands) > 2:
            for o in operands[1:-1]:
                if any(isinstance(x, (ast.Call, ast.NamedExpr)) for x in ast.walk(o)):
                    self.fail(n, "chained comparison with a call in a middle operand")
        parts, unknown = [], None
        for op, a, b in zip(n.ops, vals, vals[1:]):
            p = self.cmp1(op, a, b, n)
            if p is None:
                unknown = op
                p = ("unknown",)
            parts.append(p)
        if any(p == FALSE for p in parts):
            return FALSE
        if unknown is not None:
            self.fail(n, "identity test (`is`) between two integers is implementation-defined; outside the fragment")
        return p_and(parts)

    def cmp1(self, op, a, b, node):
        for v in (a, b):
            if v.t == "optint":
                self.fail(node, "internal: Optional value compared without specialisation")
            if v.t not in ("int", "none"):
                self.fail(node, f"comparison of a value of kind {v.t} is outside the fragment")
        if isinstance(op, (ast.Is, ast.IsNot, ast.Eq, ast.NotEq)):
            neg = isinstance(op, (ast.IsNot, ast.NotEq))
            if a.t == "none" and b.t == "none":
                return FALSE if neg else TRUE
            if a.t == "none" or b.t == "none":
                return TRUE if neg else FALSE
            if isinstance(op, (ast.Is, ast.IsNot)):
                return None
            return ("cmp", "≠" if neg else "=", a.e, b.e)
        sym = {ast.Lt: "<", ast.Gt: ">", ast.LtE: "≤", ast.GtE: "≥"}.get(type(op))
        if sym is None:
            self.fail(node, f"comparison operator {type(op).__name__} is outside the fragment")
        if a.t != "int" or b.t != "int":
            self.fail(node, "ordering comparison with None (TypeError in Python)")
        return ("cmp", sym, a.e, b.e)

    def as_bool(self, p):
        if p == TRUE:
            return Val("bool", ("blit", True))
        if p == FALSE:
            return Val("bool", ("blit", False))
        if p[0] == "istrue":
            return Val("bool", p[1])
        return Val("bool", ("decide", p))

    def value(self, n, env):
        """python expression -> Val (non-raising expressions only)"""
        if isinstance(n, ast.Constant):
            c = n.value
            if c is None:
                return Val("none")
            if isinstance(c, bool):
                return Val("bool", ("blit", c))
            if isinstance(c, int):
                return Val("int", ("int", c))
            if isinstance(c, str):
                return Val("sized", ("int", len(c)))
            self.fail(n, f"constant {c!r} is outside the fragment")
        if isinstance(n, ast.Name):
            if n.id not in env:
                self.fail(n, f"name `{n.id}` is not a known integer/Optional/bool variable here")
            v = env[n.id]
            if v.t in ("undef", "mixed"):
                self.fail(n, f"variable `{n.id}` is not defined (or not of one kind) on every path reaching this use")
            return v
        if isinstance(n, ast.NamedExpr):
            if self.cond_depth:
                self.fail(n, "walrus in a conditionally evaluated position is outside the fragment")
            if not isinstance(n.target, ast.Name):
                self.fail(n, "walrus target must be a name")
            v = self.value(n.value, env)
            if v.t not in ("int", "bool"):
                self.fail(n, "walrus of a non-integer value")
            self.bind(env, n.target.id, v)
            self.walrus.append(n.target.id)
            return v
        if isinstance(n, ast.Attribute):
            return self.attribute(n, env)
        if isinstance(n, ast.UnaryOp):
            if isinstance(n.op, ast.USub):
                v = self.value(n.operand, env)
                if v.t != "int":
                    self.fail(n, "unary minus on a non-integer")
                return Val("int", ("int", -v.e[1]) if v.e[0] == "int" else ("neg", v.e))
            if isinstance(n.op, ast.UAdd):
                return self.value(n.operand, env)
            if isinstance(n.op, ast.Not):
                return self.as_bool(self.test(n, env))
            self.fail(n, f"unary operator {type(n.op).__name__} is outside the fragment")
        if isinstance(n, ast.BinOp):
            a, b = self.value(n.left, env), self.value(n.right, env)
            if a.t != "int" or b.t != "int":
                self.fail(n, f"arithmetic on values of kind {a.t}/{b.t} (TypeError or outside the fragment)")
            if isinstance(n.op, (ast.Add, ast.Sub, ast.Mult)):
                return Val("int", ("bin", {ast.Add: "+", ast.Sub: "-", ast.Mult: "*"}[type(n.op)], a.e, b.e))
            if isinstance(n.op, ast.FloorDiv):
                return Val("int", ("call", "Int.fdiv", [a.e, b.e]))
            if isinstance(n.op, ast.Mod):
                return Val("int", ("call", "Int.fmod", [a.e, b.e]))
            self.fail(n, f"binary operator {type(n.op).__name__} is outside the fragment")
        if isinstance(n, ast.IfExp):
            c = self.test(n.test, env)
            if c == TRUE:
                return self.value(n.body, env)
            if c == FALSE:
                return self.value(n.orelse, env)
            self.cond_depth += 1
            try:
                fa, fb = self.ns.func_ref(n.body), self.ns.func_ref(n.orelse)
                if fa and fb:
                    return Val("func", c, (fa, fb, {v: self.versions.get(v, 0) for v in free_vars(c)}))
                a, b = self.value(n.body, env), self.value(n.orelse, env)
            finally:
                self.cond_depth -= 1
            if a.t != b.t or a.t not in ("int", "bool", "tuple2", "tuple3"):
                self.fail(n, f"conditional expression with branches of kind {a.t}/{b.t} that is not decided statically")
            return Val(a.t, ("ite", c, a.e, b.e))
        if isinstance(n, ast.BoolOp):
            if self.boolish(n, env):
                return self.as_bool(self.test(n, env))
            # value-returning and/or on integers / None
            cur = self.value(n.values[0], env)
            for nxt in n.values[1:]:
                if cur.t == "none":
                    take_next = isinstance(n.op, ast.Or)
                elif cur.t == "int" and cur.e[0] == "int":
                    take_next = (cur.e[1] == 0) == isinstance(n.op, ast.Or)
                elif cur.t == "int":
                    take_next = None
                else:
                    self.fail(n, f"`and`/`or` on a value of kind {cur.t} in value position")
                if take_next is False:
                    return cur
                self.cond_depth += 1
                try:
                    nv = self.value(nxt, env)
                finally:
                    self.cond_depth -= 1
                if take_next is True:
                    cur = nv
                    continue
                if nv.t != "int":
                    self.fail(n, "`and`/`or` in value position mixing int and non-int")
                c = ("cmp", "≠", cur.e, ("int", 0))
                cur = Val("int", ("ite", c, cur.e, nv.e) if isinstance(n.op, ast.Or) else ("ite", c, nv.e, cur.e))
            return cur
        if isinstance(n, ast.Compare):
            return self.as_bool(self.test(n, env))
        if isinstance(n, ast.Tuple):
            vs = [self.value(x, env) for x in n.elts]
            if any(v.t != "int" for v in vs) or len(vs) not in (2, 3):
                self.fail(n, "only 2-/3-tuples of integers are in the fragment")
            return Val(f"tuple{len(vs)}", ("tuple", [v.e for v in vs]))
        if isinstance(n, ast.Call):
            v, raises = self.call(n, env)
            if raises:
                self.fail(n, "a call that can raise is only supported as a whole assignment right-hand side or return value")
            return v
        self.fail(n, f"expression {type(n).__name__} is outside the fragment")

    def attribute(self, n, env):
        if isinstance(n.value, ast.Name) and n.value.id in env and env[n.value.id].t == "slice":
            comp = env[n.value.id].x
            if n.attr not in comp:
                self.fail(n, f"slice attribute .{n.attr}")
            v = comp[n.attr]
            if v.t == "optint":
                self.fail(n, "internal: slice component used without specialisation")
            return v
        if _is_self_attr(n):
            if self.is_init:
                key = "self." + n.attr
                if key in env:
                    return env[key]
                if n.attr in OPAQUE_ATTRS:
                    return Val("opaque")
                self.fail(n, f"self.{n.attr} read in __init__ before it is assigned")
            if n.attr in FIELDS:
                self.ns.check_getter(self, n)
                return Val("int", ("field", ("var", "self"), FIELDS[n.attr]))
            if n.attr == "seq":
                return Val("sized", ("field", ("var", "self"), "seqLen"), "A1")
            if n.attr in OPAQUE_ATTRS:
                return Val("opaque")
            if n.attr == "is_reversed":
                return self.as_bool(self.ns.inline_is_reversed(self, n, env))
            if n.attr in self.ns.properties:
                v, raises = self.ns.call_method(self, n, n.attr, [], [], env)
                if raises:
                    self.fail(n, "a property that can raise is only supported as a whole right-hand side or return value")
                return v
            self.fail(n, f"attribute self.{n.attr} is outside the fragment")
        self.fail(n, f"attribute access {ast.unparse(n)} is outside the fragment")

    def call(self, n, env):
        """returns (Val, raises)"""
        f = n.func
        if isinstance(f, ast.Name):
            if f.id in ("abs", "max", "min"):
                if n.keywords or len(n.args) != (1 if f.id == "abs" else 2):
                    self.fail(n, f"{f.id}() with this argument shape is outside the fragment")
                vs = [self.value(a, env) for a in n.args]
                if any(v.t != "int" for v in vs):
                    self.fail(n, f"{f.id}() of a non-integer")
                return Val("int", ("call", "pyabs" if f.id == "abs" else f.id, [v.e for v in vs])), False
            if f.id == "len":
                if len(n.args) != 1 or n.keywords:
                    self.fail(n, "len() shape")
                a = n.args[0]
                if isinstance(a, ast.Name) and a.id == "self":
                    return Val("int", self.ns.call_len(self, n)), False
                v = self.value(a, env)
                if v.t != "sized":
                    self.fail(n, f"len() of a value of kind {v.t}")
                if v.x == "A1":
                    self.assumptions.append("A1")
                return Val("int", v.e), False
            if f.id in env and env[f.id].t == "func":
                fv = env[f.id]
                fa, fb, vers = fv.x
                for v, k in vers.items():
                    if self.versions.get(v, 0) != k:
                        self.fail(n, f"`{f.id}` was chosen by a test on `{v}`, which has been reassigned since")
                ea, ra = self.ns.apply(self, n, fa, n.args, n.keywords, env, with_self=False)
                eb, rb = self.ns.apply(self, n, fb, n.args, n.keywords, env, with_self=False)
                if ra or rb or fa.ret_t != fb.ret_t:
                    self.fail(n, "conditionally chosen functions must be non-raising and of one type")
                return Val(fa.ret_t, ("ite", fv.e, ea, eb)), False
            fr = self.ns.func_ref(f)
            if fr:
                e, r = self.ns.apply(self, n, fr, n.args, n.keywords, env, with_self=False)
                return Val(fr.ret_t, e), r
            self.fail(n, f"call of `{f.id}` is outside the fragment")
        if isinstance(f, ast.Attribute):
            if _is_self_attr(f, "__class__"):
                return self.ns.call_ctor(self, n, env)
            if _is_self_attr(f):
                return self.ns.call_method(self, n, f.attr, n.args, n.keywords, env)
            fr = self.ns.func_ref(f)
            if fr:
                e, r = self.ns.apply(self, n, fr, n.args, n.keywords, env, with_self=False)
                return Val(fr.ret_t, e), r
        self.fail(n, f"call {ast.unparse(f)}(...) is outside the fragment")

    # -- statements -----------------------------------------------------------
    LETTABLE = ("int", "bool", "tuple2", "tuple3", "view")

    def rhs(self, node, env):
        """right-hand side of an assignment / return: (Val, raises)"""
        if isinstance(node, ast.Call):
            return self.call(node, env)
        if _is_self_attr(node) and not self.is_init and node.attr in self.ns.properties \
                and node.attr not in FIELDS and node.attr != "is_reversed":
            return self.ns.call_method(self, node, node.attr, [], [], env)
        return self.value(node, env), False

    def targets_of(self, st):
        """[(target-node, ...)] and the value node of an assignment-like statement"""
        if isinstance(st, ast.Assign):
            return st.targets, st.value
        if isinstance(st, ast.AnnAssign):
            if st.value is None:
                return [], None
            return [st.target], st.value
        if isinstance(st, ast.AugAssign):
            load = ast.copy_location(ast.Name(id=st.target.id, ctx=ast.Load()), st) if isinstance(st.target, ast.Name) else None
            if load is None:
                self.fail(st, "augmented assignment to a non-name")
            return [st.target], ast.copy_location(ast.BinOp(left=load, op=st.op, right=st.value), st)
        return None, None

    def split_assign(self, tgt, val, node):
        """-> [(key, Val)] where key is a python name or 'self.attr' (in __init__); '_' is dropped"""
        if isinstance(tgt, ast.Name):
            return [] if tgt.id == "_" else [(tgt.id, val)]
        if isinstance(tgt, ast.Attribute) and _is_self_attr(tgt):
            if not self.is_init:
                self.fail(node, f"assignment to self.{tgt.attr} (mutation of a view) is outside the fragment")
            return [("self." + tgt.attr, val)]
        if isinstance(tgt, (ast.Tuple, ast.List)):
            n = len(tgt.elts)
            if val.t != f"tuple{n}":
                self.fail(node, f"cannot unpack a value of kind {val.t} into {n} targets")
            out = []
            for i, t in enumerate(tgt.elts):
                comp = val.e[1][i] if val.e[0] == "tuple" else ("proj", val.e, i, n)
                out += self.split_assign(t, Val("int", comp), node)
            return out
        self.fail(node, f"assignment target {ast.unparse(tgt)} is outside the fragment")

    def par_lets(self, pairs, env):
        """bind pairs simultaneously; returns [(leanname, type, expr)] to emit as lets"""
        lets = []
        letnames = [lname(k) for k, v in pairs if v.t in self.LETTABLE and not k.startswith("self.")]
        conflict = False
        seen = set()
        for k, v in pairs:
            if v.t in self.LETTABLE and free_vars(v.e) & seen:
                conflict = True
            if v.t in self.LETTABLE and not k.startswith("self."):
                seen.add(lname(k))
        for k, v in pairs:
            if v.t in self.LETTABLE:
                nm = lname(k.replace("self.", "self_"))
                if not conflict and v.e == ("var", nm):
                    continue        # `x = x`
                lets.append(((nm + "'") if conflict else nm, lean_type(v.t), v.e))
        if conflict:
            for k, v in pairs:
                if v.t in self.LETTABLE:
                    nm = lname(k.replace("self.", "self_"))
                    lets.append((nm, lean_type(v.t), ("var", nm + "'")))
        for k, v in pairs:
            if v.t in self.LETTABLE:
                self.bind(env, k, Val(v.t, ("var", lname(k.replace("self.", "self_"))), v.x if v.t == "view" else None))
            else:
                self.bind(env, k, v)
        return lets

    def sym_assign(self, st, env):
        """symbolic execution of an assignment; returns True when the right-hand side can raise"""
        tgts, vnode = self.targets_of(st)
        if vnode is None:
            return False
        val, raises = self.rhs(vnode, env)
        if raises:
            val = Val(val.t, ("var", "r'"))
        for t in tgts:
            for k, v in self.split_assign(t, val, st):
                self.bind(env, k, v)
        return raises

    def join(self, c, e1, e2, base):
        """environment after `if c: (e1) else: (e2)` when neither branch can leave the function"""
        out = dict(base)
        for k in list(dict.fromkeys(list(e1) + list(e2))):
            a, b = e1.get(k), e2.get(k)
            if a is not None and b is not None and a.key() == b.key():
                out[k] = a
            elif a is None or b is None:
                out[k] = Val("undef")
            elif a.t == b.t and a.t in ("int", "bool", "tuple2", "tuple3"):
                out[k] = Val(a.t, ("ite", c, a.e, b.e))
            else:
                out[k] = Val("mixed")
        return out

    def analyse(self, stmts, env):
        """(may_leave, [env at each way of falling through])  -- env is consumed"""
        envs, may = [env], False
        for st in stmts:
            new = []
            for e in envs:
                if isinstance(st, TailK):
                    may = True
                elif isinstance(st, (ast.Return, ast.Raise)):
                    may = True
                elif isinstance(st, ast.Pass) or (isinstance(st, ast.Expr) and isinstance(st.value, ast.Constant)):
                    new.append(e)
                elif isinstance(st, ast.Assert):
                    c = self.test(st.test, e)
                    if c != TRUE:
                        may = True
                    if c != FALSE:
                        new.append(e)
                elif isinstance(st, ast.If):
                    c = self.test(st.test, e)
                    if c == TRUE:
                        m, fs = self.analyse(st.body, e)
                    elif c == FALSE:
                        m, fs = self.analyse(st.orelse, e)
                    else:
                        m1, f1 = self.analyse(st.body, dict(e))
                        m2, f2 = self.analyse(st.orelse, dict(e))
                        m = m1 or m2
                        if not m and len(f1) == 1 and len(f2) == 1:
                            fs = [self.join(c, f1[0], f2[0], e)]
                        else:
                            fs = f1 + f2
                    may = may or m
                    new += fs
                elif isinstance(st, (ast.Assign, ast.AugAssign, ast.AnnAssign)):
                    if self.sym_assign(st, e):
                        may = True
                    new.append(e)
                else:
                    self.fail(st, f"statement {type(st).__name__} is outside the fragment")
            envs = new
            if not envs:
                break
        return may, envs

    def flush_walrus(self, env, k):
        """in statement mode walrus targets become lets right before the statement that evaluated them"""
        lets = []
        for name in self.walrus:
            v = env[name]
            lets.append((lname(name), lean_type(v.t), v.e))
            env[name] = Val(v.t, ("var", lname(name)))
        self.walrus = []
        for nm, ty, ex in reversed(lets):
            k = ("let", nm, ty, ex, k)
        return k

    def wrap_lets(self, lets, body):
        for nm, ty, ex in reversed(lets):
            body = ("let", nm, ty, ex, body)
        return body

    def at_end(self, env, node=None):
        if self.is_init:
            need = ["start", "stop", "step", "_offset", "_seq_len"]
            vals = []
            for a in need:
                v = env.get("self." + a)
                if v is None or v.t != "int":
                    raise TranslationError(f"{self.where}: __init__ does not assign an integer to self.{a} on every path")
                vals.append(v.e)
            return ("ret", Val("view", ("struct", vals)))
        if self.end_tuple:
            vs = []
            for nm in self.end_tuple:
                if nm not in env or env[nm].t != "int":
                    raise TranslationError(f"{self.where}: `{nm}` is not an integer where the slice bounds are used")
                vs.append(env[nm].e)
            return ("ret", Val(f"tuple{len(vs)}", ("tuple", vs)))
        raise TranslationError(
            f"{self.where}: a path may fall off the end of the function (implicit `return None`), outside the fragment")

    def a2_applies(self, st, negs):
        """`elif self.step < 0:` (no else) right after `if self.step > 0:` failed -- exhaustive under step != 0"""
        t = st.test
        if not (isinstance(t, ast.Compare) and len(t.ops) == 1 and _is_self_attr(t.left, "step")
                and isinstance(t.comparators[0], ast.Constant) and t.comparators[0].value == 0
                and isinstance(t.ops[0], (ast.Lt, ast.Gt))):
            return False
        other = ast.Compare(left=t.left, ops=[ast.Gt() if isinstance(t.ops[0], ast.Lt) else ast.Lt()], comparators=t.comparators)
        return _dump(other) in negs

    def trans(self, stmts, env, negs=()):
        if not stmts:
            return self.at_end(env)
        st, rest = stmts[0], list(stmts[1:])
        if isinstance(st, TailK):
            return ("tailk", st.name, [env[v].e for v in st.names])
        if isinstance(st, ast.Pass) or (isinstance(st, ast.Expr) and isinstance(st.value, ast.Constant)):
            return self.trans(rest, env, negs)
        if isinstance(st, ast.Return):
            # statements after a return (e.g. after a statically true `if`) are dead code
            if st.value is None:
                self.fail(st, "`return` without a value is outside the fragment")
            if isinstance(st.value, ast.Name) and st.value.id == "self":
                return self.flush_walrus(env, ("ret", Val("view", ("var", "self"), "self")))
            val, raises = self.rhs(st.value, env)
            if val.t not in self.LETTABLE:
                self.fail(st, f"return of a value of kind {val.t} is outside the fragment")
            if raises:
                return self.flush_walrus(env, ("retcall", val.e, True, val.t))
            return self.flush_walrus(env, ("ret", val))
        if isinstance(st, ast.Raise):
            exc = st.exc
            name = exc.func.id if isinstance(exc, ast.Call) and isinstance(exc.func, ast.Name) else (
                exc.id if isinstance(exc, ast.Name) else None)
            if name not in ERR:
                self.fail(st, f"raise of {ast.unparse(exc) if exc else 're-raise'}: only ValueError/IndexError/AssertionError are in the fragment")
            return ("err", ERR[name])
        if isinstance(st, ast.Assert):
            c = self.test(st.test, env)
            if c == TRUE:
                return self.trans(rest, env, negs)
            if c == FALSE:
                return ("err", "assertionError")
            k = self.flush_walrus(env, ("PENDING",))
            body = ("if", c, self.trans(rest, env, negs), ("err", "assertionError"))
            return _subst_pending(k, body)
        if isinstance(st, (ast.Assign, ast.AugAssign, ast.AnnAssign)):
            tgts, vnode = self.targets_of(st)
            if vnode is None:
                return self.trans(rest, env, negs)
            val, raises = self.rhs(vnode, env)
            k = self.flush_walrus(env, ("PENDING",))
            if raises:
                if val.t not in self.LETTABLE:
                    self.fail(st, f"result of kind {val.t}")
                tmp = "r'"
                bound = Val(val.t, ("var", tmp))
                pairs = []
                for t in tgts:
                    pairs += self.split_assign(t, bound, st)
                lets = self.par_lets(pairs, env)
                body = self.wrap_lets(lets, self.trans(rest, env, negs))
                return _subst_pending(k, ("bind", tmp, lean_type(val.t), val.e, body))
            pre = []
            if any(isinstance(t, (ast.Tuple, ast.List)) for t in tgts) and val.t.startswith("tuple") and val.e[0] != "tuple":
                pre = [("t'", lean_type(val.t), val.e)]
                val = Val(val.t, ("var", "t'"))
            pairs = []
            for t in tgts:
                pairs += self.split_assign(t, val, st)
            lets = pre + self.par_lets(pairs, env)
            return _subst_pending(k, self.wrap_lets(lets, self.trans(rest, env, negs)))
        if isinstance(st, ast.If):
            c = self.test(st.test, env)
            if c == TRUE:
                return self.trans(list(st.body) + rest, env, negs)
            if c == FALSE:
                return self.trans(list(st.orelse) + rest, env, negs)
            k = self.flush_walrus(env, ("PENDING",))
            return _subst_pending(k, self.trans_if(st, c, rest, env, negs))
        self.fail(st, f"statement {type(st).__name__} is outside the fragment")

    def trans_if(self, st, c, rest, env, negs):
        negs2 = tuple(negs) + (_dump(st.test),)
        if not st.orelse and not rest and self.a2_applies(st, negs) and not self.is_init and not self.end_tuple:
            self.assumptions.append("A2")
            return self.trans(list(st.body), env, negs)
        saved = (dict(self.versions), list(self.var_order), list(self.walrus))
        mb, fb = self.analyse(list(st.body), dict(env))
        mo, fo = self.analyse(list(st.orelse), dict(env))
        self.versions, self.var_order, self.walrus = dict(saved[0]), list(saved[1]), list(saved[2])
        if not mb and not mo and len(fb) == 1 and len(fo) == 1:
            # neither branch can leave: conditional values
            j = self.join(c, fb[0], fo[0], env)
            pairs = [(k2, v) for k2, v in j.items() if k2 not in env or env[k2].key() != v.key()]
            order = {n: i for i, n in enumerate(self._assign_order(st))}
            pairs.sort(key=lambda kv: order.get(kv[0], 10**6))
            lets = self.par_lets(pairs, env)
            return self.wrap_lets(lets, self.trans(rest, env, negs))
        if not fb:      # then-branch always leaves
            return ("if", c, self.trans(list(st.body), dict(env), negs), self.trans(list(st.orelse) + rest, env, negs2))
        if not fo:      # else-branch always leaves
            return ("if", c, self.trans(list(st.body) + rest, dict(env), negs), self.trans(list(st.orelse), env, negs2))
        real_rest = [r for r in rest if not isinstance(r, TailK)]
        if not rest:
            return ("if", c, self.trans(list(st.body), dict(env), negs), self.trans(list(st.orelse), env, negs2))
        if not real_rest:
            return ("if", c, self.trans(list(st.body) + rest, dict(env), negs), self.trans(list(st.orelse) + rest, env, negs2))
        # some paths fall through, some leave: the rest of the function becomes a local continuation
        falls = fb + fo
        changed = []
        for name in dict.fromkeys([k2 for f in falls for k2 in f]):
            vals = [f.get(name) for f in falls]
            if all(v is not None and name in env and v.key() == env[name].key() for v in vals):
                continue
            if any(v is None for v in vals):
                continue        # not defined on every path: unusable afterwards
            ts = {v.t for v in vals}
            if len(ts) != 1 or vals[0].t not in self.LETTABLE or name.startswith("self."):
                if len({v.key() for v in vals}) == 1:
                    continue
                self.fail(st, f"variable `{name}` has kinds {sorted(ts)} on the paths falling out of this if; outside the fragment")
            changed.append((name, vals[0].t))
        order = {n: i for i, n in enumerate(self._assign_order(st))}
        changed.sort(key=lambda nt: order.get(nt[0], 10**6))
        self.kcount += 1
        kname = f"rest'{self.kcount}"
        envk = dict(env)
        for f in falls:
            for k2 in f:
                if k2 not in envk and all(k2 in g for g in falls) and len({g[k2].key() for g in falls}) == 1:
                    envk[k2] = falls[0][k2]
        for name, t in changed:
            self.bind(envk, name, Val(t, ("var", lname(name))))
        kbody = self.trans(rest, envk, negs)
        tail = TailK(kname, [n for n, _ in changed])
        br_then = self.trans(list(st.body) + [tail], dict(env), negs)
        br_else = self.trans(list(st.orelse) + [tail], dict(env), negs2)
        return ("letk", kname, [(lname(n), lean_type(t)) for n, t in changed], kbody, ("if", c, br_then, br_else))

    @staticmethod
    def _assign_order(st):
        found = []
        for n in ast.walk(st):
            if isinstance(n, ast.Name) and isinstance(n.ctx, ast.Store):
                found.append((n.lineno, n.col_offset, n.id))
            if isinstance(n, ast.Attribute) and isinstance(n.ctx, ast.Store) and _is_self_attr(n):
                found.append((n.lineno, n.col_offset, "self." + n.attr))
        names = []
        for _, _, nm in sorted(found):
            if nm not in names:
                names.append(nm)
        return names


def _subst_pending(k, body):
    if k == ("PENDING",):
        return body
    assert k[0] == "let"
    return ("let", k[1], k[2], k[3], _subst_pending(k[4], body))


# ---------------------------------------------------------------------------
# a namespace = module functions + abstract class + concrete class
# ---------------------------------------------------------------------------
PARAM_KINDS = {  # unannotated module functions
    "_input_vals_pos_step": {"seqlen": "int", "start": "optint", "stop": "optint", "step": "int"},
    "_input_vals_neg_step": {"seqlen": "int", "start": "optint", "stop": "optint", "step": "int"},
}
FIXED_ARGS = {"copy": {"sliced": False}}   # translated at this constant argument only (the way the slicing code calls it)

MODULE_FUNCS = ["_input_vals_pos_step", "_input_vals_neg_step"]
SEQ_LEVEL = [("annotation_offset", "annotationOffset"), ("parent_coordinates", "parentCoordinates")]   # of class Sequence
ORDER = [  # (python method name, where: 'c' concrete class / 'a' abstract class, required)
    ("_checked_seq_len", "c", False), ("__init__", "c", True),
    ("__len__", "a", True), ("is_reversed", "a", True), ("parent_start", "a", True), ("parent_stop", "a", True),
    ("_get_index", "a", True), ("absolute_position", "a", True), ("relative_position", "a", True),
    ("_zero_slice", "c", True), ("copy", "c", True),
    ("_get_forward_slice_from_forward_seqview_", "a", True), ("_get_forward_slice_from_reverse_seqview_", "a", True),
    ("_get_reverse_slice_from_forward_seqview_", "a", True), ("_get_reverse_slice_from_reverse_seqview_", "a", True),
    ("_get_slice", "a", True), ("_get_reverse_slice", "a", True), ("__getitem__", "a", True),
    ("to_rich_dict", "c", None),   # None: only for classes configured with rich_dict=True
]


def ann_kind(a):
    if a is None:
        return None
    s = ast.unparse(a).replace("typing.", "")
    if s == "int":
        return "int"
    if s == "bool":
        return "bool"
    if s == "slice":
        return "slice"
    if s == "str":
        return "sized"
    if s in ("OptInt", "Optional[int]", "int | None", "None | int"):
        return "optint"
    if s in ("Union[int, slice]", "int | slice", "Union[slice, int]", "slice | int"):
        return "union"
    return "opaque"


def body_of(fdef):
    b = list(fdef.body)
    if b and isinstance(b[0], ast.Expr) and isinstance(b[0].value, ast.Constant) and isinstance(b[0].value.value, str):
        b = b[1:]
    return b


class Namespace:
    def __init__(self, name, mod_tree, abs_cls, conc_cls, label, rich_dict, seq_cls=None, seq_label=None):
        self.name, self.label, self.rich_dict = name, label, rich_dict
        self.seq_cls, self.seq_label = seq_cls, seq_label
        self.problems, self.assumptions = [], set()
        self.funcs = {}
        self.defs = []          # lean text of each definition
        self.translated = []
        self.mod_funcs = {n.name: n for n in mod_tree.body if isinstance(n, ast.FunctionDef)}
        self.methods, self.origin, self.properties = {}, {}, set()
        self.has_bool = False
        for tag, cls in (("a", abs_cls), ("c", conc_cls)):
            for n in cls.body:
                if not isinstance(n, ast.FunctionDef):
                    continue
                decs = [ast.unparse(d) for d in n.decorator_list]
                if any(d.endswith(".setter") or d.endswith(".deleter") for d in decs):
                    continue
                if "abstractmethod" in decs and tag == "a" and n.name in [m for m, w, _ in ORDER if w == "c"]:
                    if "property" in decs:
                        self.properties.add(n.name)
                    continue
                self.methods[n.name] = n
                self.origin[n.name] = tag
                if "property" in decs:
                    self.properties.add(n.name)
                elif n.name in self.properties:
                    self.properties.discard(n.name)
                if n.name == "__bool__":
                    self.has_bool = True
        self.init_kwargs = None

    # -- lookups used by FnTranslator ------------------------------------------
    def func_ref(self, node):
        name = None
        if isinstance(node, ast.Name):
            name = node.id
        elif isinstance(node, ast.Attribute) and isinstance(node.value, ast.Name) and node.value.id in ("new_sequence", "sequence"):
            name = node.attr
        return self.funcs.get("F:" + name) if name else None

    def call_len(self, tr, node):
        fi = self.funcs.get("M:__len__")
        if fi is None:
            tr.fail(node, "uses len(self), but __len__ could not be translated (see the problem reported for __len__)")
        return ("call", fi.lean, [("var", "self")])

    def inline_is_reversed(self, tr, node, env):
        f = self.methods.get("is_reversed")
        b = body_of(f) if f is not None else []
        if "is_reversed" not in self.properties or len(b) != 1 or not isinstance(b[0], ast.Return):
            tr.fail(node, "self.is_reversed is not a one-line property")
        return tr.test(b[0].value, {"self": env["self"]})

    def check_getter(self, tr, node):
        attr = node.attr
        if attr.startswith("_") or attr not in self.methods:
            return
        f = self.methods[attr]
        b = body_of(f)
        ok = (attr in self.properties and len(b) == 1 and isinstance(b[0], ast.Return)
              and _is_self_attr(b[0].value, "_" + attr))
        if not ok:
            tr.fail(node, f"property `{attr}` is not the plain getter `return self._{attr}`")

    def conv(self, tr, node, kind, v, pname):
        if kind == "int":
            if v.t != "int":
                tr.fail(node, f"argument `{pname}` must be an integer, got kind {v.t}")
            return [v.e]
        if kind == "optint":
            if v.t == "none":
                return [("none",)]
            if v.t == "int":
                return [("some", v.e)]
            if v.t == "optint":
                return [v.e]
            tr.fail(node, f"argument `{pname}` must be int or None, got kind {v.t}")
        if kind == "bool":
            if v.t != "bool":
                tr.fail(node, f"argument `{pname}` must be a bool, got kind {v.t}")
            return [v.e]
        if kind == "slice":
            if v.t != "slice":
                tr.fail(node, f"argument `{pname}` must be a slice, got kind {v.t}")
            return [x for c in ("start", "stop", "step") for x in self.conv(tr, node, "optint", v.x[c], pname)]
        if kind == "sized":
            if v.t != "sized":
                tr.fail(node, f"argument `{pname}` must be a string (only its length is modelled), got kind {v.t}")
            if v.x == "A1":
                tr.assumptions.append("A1")
            return [v.e]
        return []

    def apply(self, tr, node, fi, args, keywords, env, with_self, extra_kw=None):
        given = {}
        names = [p for p, _, _ in fi.params]
        if len(args) > len(names):
            tr.fail(node, f"too many positional arguments for {fi.lean}")
        for p, a in zip(names, args):
            if isinstance(a, ast.Starred):
                tr.fail(node, "*args is outside the fragment")
            given[p] = a
        star_kwargs = False
        for kw in keywords:
            if kw.arg is None:
                if not (isinstance(kw.value, ast.Name) and kw.value.id in env and env[kw.value.id].t == "kwargs"):
                    tr.fail(node, "`**x` where x is not the dict of self._get_init_kwargs()")
                star_kwargs = True
                continue
            if kw.arg not in names:
                tr.fail(node, f"unexpected keyword argument `{kw.arg}` for {fi.lean}")
            if kw.arg in given:
                tr.fail(node, f"argument `{kw.arg}` given twice")
            given[kw.arg] = kw.value
        if star_kwargs and extra_kw is not None:
            for k, vnode in extra_kw.items():
                if k in given:
                    tr.fail(node, f"argument `{k}` given twice (also in **kwargs)")
                if k not in names:
                    tr.fail(node, f"**kwargs passes `{k}`, which {fi.lean} does not accept")
                given[k] = vnode
        out = [("var", "self")] if (with_self and fi.uses_self) else []
        for p, kind, default in fi.params:
            if kind == "kwargs":
                continue
            if p in given:
                a = given[p]
                v = tr.value(a, env) if not (isinstance(a, ast.Name) and a.id == "self") else None
                if v is None:
                    tr.fail(node, "passing self as an argument is outside the fragment")
            elif default is not None:
                v = tr.value(default, {})
            elif kind == "opaque":
                continue
            else:
                tr.fail(node, f"missing argument `{p}` for {fi.lean}")
            out += self.conv(tr, node, kind, v, p)
        return ("call", fi.lean, out), fi.raises

    def call_method(self, tr, node, name, args, keywords, env):
        if name == "_get_init_kwargs":
            if args or keywords:
                tr.fail(node, "_get_init_kwargs() takes no arguments")
            self.load_init_kwargs(tr, node)
            return Val("kwargs"), False
        key = "M:" + name
        if name == "__getitem__" or key not in self.funcs:
            if name in METHOD_NAMES and name != "__getitem__":
                tr.fail(node, f"uses self.{name}, which could not be translated (see the problem reported for it)")
            tr.fail(node, f"call of self.{name} is outside the fragment (not a translated method)")
        fi = self.funcs[key]
        is_prop = name in self.properties
        if is_prop and isinstance(node, ast.Call):
            tr.fail(node, f"self.{name} is a property, it cannot be called")
        if not is_prop and not isinstance(node, ast.Call):
            tr.fail(node, f"self.{name} is a method used as a value")
        if tr.is_init and fi.uses_self:
            tr.fail(node, f"self.{name} reads the view's fields but is called inside __init__")
        e, r = self.apply(tr, node, fi, args, keywords, env, with_self=True)
        return Val(fi.ret_t, e), r

    def load_init_kwargs(self, tr, node):
        if self.init_kwargs is not None:
            return
        f = self.methods.get("_get_init_kwargs")
        b = body_of(f) if f is not None else []
        if len(b) != 1 or not isinstance(b[0], ast.Return) or not isinstance(b[0].value, ast.Dict):
            tr.fail(node, "_get_init_kwargs is not a single `return {...}`")
        d = {}
        for k, v in zip(b[0].value.keys, b[0].value.values):
            if not (isinstance(k, ast.Constant) and isinstance(k.value, str)) or not _is_self_attr(v):
                tr.fail(node, "_get_init_kwargs must map string keys to self attributes")
            d[k.value] = v
        self.init_kwargs = d

    def call_ctor(self, tr, node, env):
        fi = self.funcs.get("M:__init__")
        if fi is None:
            tr.fail(node, "uses the constructor, but __init__ could not be translated (see the problem reported for __init__)")
        if node.args:
            tr.fail(node, "positional constructor arguments")
        extra = None
        if any(kw.arg is None for kw in node.keywords):
            self.load_init_kwargs(tr, node)
            extra = self.init_kwargs
        e, r = self.apply(tr, node, fi, [], node.keywords, env, with_self=False, extra_kw=extra)
        return Val("view", e), r

    # -- translating one python function ---------------------------------------
    def translate_def(self, fdef, key, lean_short, is_method, is_init=False, kinds_override=None,
                      union_variant=None, rich=False):
        pyname = fdef.name
        where = f"{self.label}::{pyname}"
        a = fdef.args
        if a.posonlyargs or a.vararg:
            raise TranslationError(f"{where}: positional-only / *args parameters are outside the fragment")
        plist = [(x, d) for x, d in zip(a.args, [None] * (len(a.args) - len(a.defaults)) + list(a.defaults))]
        plist += list(zip(a.kwonlyargs, a.kw_defaults))
        if is_method:
            if not plist or plist[0][0].arg != "self":
                raise TranslationError(f"{where}: first parameter is not self")
            plist = plist[1:]
        fixed = FIXED_ARGS.get(pyname, {}) if is_method else {}
        params = []
        for arg, default in plist:
            kind = (kinds_override or {}).get(arg.arg) or ann_kind(arg.annotation) or PARAM_KINDS.get(pyname, {}).get(arg.arg)
            if kind is None:
                raise TranslationError(f"{where}: parameter `{arg.arg}` has no annotation and no configured kind")
            if kind == "union":
                if union_variant is None:
                    raise TranslationError(f"{where}: Union[int, slice] parameter outside __getitem__")
                kind = "int" if union_variant else "slice"
            if kind == "sized" and arg.arg != "seq":
                kind = "opaque"
            if default is not None and not isinstance(default, ast.Constant):
                raise TranslationError(f"{where}: non-constant default of `{arg.arg}`")
            params.append((arg.arg, kind, default))
        if a.kwarg is not None:
            params.append((a.kwarg.arg, "kwargs", None))
        body = body_of(fdef)
        end_tuple = None
        if rich:
            body, end_tuple = self.rich_dict_slice(fdef, where)
        # which Optional slots are inspected (anything but being handed on as a call argument)
        parent = {}
        for st in body:
            for n in ast.walk(st):
                for ch in ast.iter_child_nodes(n):
                    parent[ch] = n
        uses_self = False
        inspected = []
        passthrough_only = lambda n: (isinstance(parent.get(n), ast.Call) and n in parent[n].args) or isinstance(parent.get(n), ast.keyword)
        loads = {}
        reassigned = set()   # parameters unconditionally re-bound by an earlier top-level statement
        for st in body:
            for n in ast.walk(st):
                if isinstance(n, ast.Name) and isinstance(n.ctx, ast.Load):
                    if n.id == "self":
                        uses_self = True
                    if n.id not in reassigned:
                        loads.setdefault(n.id, []).append(n)
            if isinstance(st, (ast.Assign, ast.AugAssign, ast.AnnAssign)):
                tg = st.targets if isinstance(st, ast.Assign) else [st.target]
                for t in tg:
                    for n in ast.walk(t):
                        if isinstance(n, ast.Name) and isinstance(n.ctx, ast.Store):
                            reassigned.add(n.id)
        for p, kind, _ in params:
            if p in fixed:
                continue
            if kind == "optint" and any(not passthrough_only(n) for n in loads.get(p, [])):
                inspected.append((p, None))
            if kind == "slice":
                for comp in ("start", "stop", "step"):
                    if any(isinstance(parent.get(n), ast.Attribute) and parent[n].attr == comp for n in loads.get(p, [])):
                        inspected.append((p, comp))
                for n in loads.get(p, []):
                    if not (passthrough_only(n) or isinstance(parent.get(n), ast.Attribute)):
                        raise TranslationError(f"{where}: slice parameter `{p}` used other than by .start/.stop/.step or as an argument")
        if is_init:
            uses_self = False
        binders, slot_lean = [], {}
        if uses_self and is_method:
            binders.append(("self", T_VIEW))
        pub_params = []
        for p, kind, default in params:
            if p in fixed:
                continue
            pub_params.append((p, kind, default))
            if kind in ("int", "bool", "optint"):
                binders.append((lname(p), lean_type(kind)))
            elif kind == "slice":
                for comp in ("start", "stop", "step"):
                    binders.append((f"{lname(p)}_{comp}", T_OPT))
            elif kind == "sized":
                binders.append((lname(p) + "Len", T_INT))
        variants = []
        import itertools
        for combo in itertools.product((False, True), repeat=len(inspected)):   # False = none, True = some
            tr = FnTranslator(self, pyname, where, is_init=is_init, end_tuple=end_tuple)
            env = {}
            if is_method and not is_init:
                env["self"] = Val("view", ("var", "self"), "self")
            state = dict(zip(inspected, combo))
            for p, kind, default in params:
                if p in fixed:
                    env[p] = tr.value(ast.Constant(value=fixed[p]), {})
                elif kind == "int":
                    env[p] = Val("int", ("var", lname(p)))
                elif kind == "bool":
                    env[p] = Val("bool", ("var", lname(p)))
                elif kind == "optint":
                    if (p, None) in state:
                        env[p] = Val("int", ("var", lname(p))) if state[(p, None)] else Val("none")
                    else:
                        env[p] = Val("optint", ("var", lname(p)))
                elif kind == "slice":
                    comps = {}
                    for comp in ("start", "stop", "step"):
                        nm = ("var", f"{lname(p)}_{comp}")
                        if (p, comp) in state:
                            comps[comp] = Val("int", nm) if state[(p, comp)] else Val("none")
                        else:
                            comps[comp] = Val("optint", nm)
                    env[p] = Val("slice", None, comps)
                elif kind == "sized":
                    env[p] = Val("sized", ("var", lname(p) + "Len"))
                elif kind == "kwargs":
                    env[p] = Val("kwargs")
                else:
                    env[p] = Val("opaque")
                tr.var_order.append(p)
            if union_variant is not None:
                for p, kind, _ in params:
                    if kind in ("int", "slice") and ann_kind(next(x for x, _ in plist if x.arg == p).annotation) == "union":
                        tr.union_is_int[p] = union_variant
            ir = tr.trans(body, env)
            variants.append((combo, ir))
            self.assumptions.update(tr.assumptions)
        raises = any(stmt_raises(ir) for _, ir in variants)
        rts = set()
        for _, ir in variants:
            ret_types(ir, rts)
        if len(rts) != 1:
            raise TranslationError(f"{where}: return values of different kinds {sorted(rts)}")
        ret_t = rts.pop()
        rett = lean_type(ret_t)
        lean_full = f"{self.name}.{lean_short}"
        sig = " ".join(f"({n} : {t})" for n, t in binders)
        full_t = f"Except Err ({rett})" if raises else rett
        lines = [f"/-- `{pyname}` of {self.label}" + (" (integer variant)" if union_variant else "")
                 + (" (slice variant)" if union_variant is False else "")
                 + (" at " + ", ".join(f"{k}={v}" for k, v in fixed.items()) if fixed else "")
                 + (" -- program slice on the bounds of `self.seq[a:b]`" if rich else "") + " -/"]
        lines.append(f"def {lean_short}" + (" " + sig if sig else "") + f" : {full_t} :=")
        if not inspected:
            lines += print_stmt(variants[0][1], 2, raises, rett)
        else:
            slot_names = [lname(p) if c is None else f"{lname(p)}_{c}" for p, c in inspected]
            lines.append("  match " + ", ".join(slot_names) + " with")
            for combo, ir in variants:
                pats = ", ".join(f"some {n}" if s else "none" for n, s in zip(slot_names, combo))
                lines.append(f"  | {pats} =>")
                lines += print_stmt(ir, 4, raises, rett)
        self.defs.append("\n".join(lines))
        self.funcs[key] = FnInfo(lean_full, pub_params, ret_t, raises, uses_self and is_method)
        self.translated.append(dict(python=pyname, lean=lean_full, raises=raises, variants=len(variants),
                                    specialised=[p if c is None else f"{p}.{c}" for p, c in inspected]))

    def rich_dict_slice(self, fdef, where):
        """statements of to_rich_dict that determine the bounds of the one `self.seq[lo:hi]`"""
        hits = []
        for n in ast.walk(fdef):
            if isinstance(n, ast.Subscript) and _is_self_attr(n.value, "seq") and isinstance(n.slice, ast.Slice):
                hits.append(n)
        if len(hits) != 1:
            raise TranslationError(f"{where}: expected exactly one `self.seq[a:b]`, found {len(hits)}")
        sl = hits[0].slice
        if sl.step is not None or not isinstance(sl.lower, ast.Name) or not isinstance(sl.upper, ast.Name):
            raise TranslationError(f"{where}: the truncation is not `self.seq[name:name]`")
        needed = {sl.lower.id, sl.upper.id}
        kept = []
        for st in reversed(body_of(fdef)):
            stored = {n.id for n in ast.walk(st) if isinstance(n, ast.Name) and isinstance(n.ctx, ast.Store)}
            if stored & needed:
                kept.insert(0, st)
                needed |= {n.id for n in ast.walk(st) if isinstance(n, ast.Name) and isinstance(n.ctx, ast.Load) and n.id != "self"}
            elif isinstance(st, (ast.Assign, ast.AnnAssign, ast.AugAssign, ast.Return, ast.Expr)):
                continue    # dictionary bookkeeping: cannot change the (local integer) bounds
            else:
                raise TranslationError(f"{where}: {type(st).__name__} statement that does not assign the bounds; outside the fragment")
        return kept, (sl.lower.id, sl.upper.id)

    def seq_level_normal_form(self, fdef, where):
        """A4/A5: `self._seq` -> `self`; attribute loads of a returned tuple are bound to temporaries left to right;
        opaque (string) components of the returned tuple are dropped"""
        import copy

        class Sub(ast.NodeTransformer):
            def visit_Attribute(self, n):
                self.generic_visit(n)
                if isinstance(n.value, ast.Name) and n.value.id == "self" and n.attr == "_seq":
                    return ast.copy_location(ast.Name(id="self", ctx=ast.Load()), n)
                return n

        g = copy.deepcopy(fdef)
        for st in body_of(g):
            for n in ast.walk(st):
                if _is_self_attr(n) and n.attr != "_seq":
                    raise TranslationError(f"{where}:{n.lineno}: reads self.{n.attr} of the Sequence (only self._seq.* is in the fragment)")
                if isinstance(n, ast.Name) and n.id == "self" and isinstance(n.ctx, ast.Store):
                    raise TranslationError(f"{where}:{n.lineno}: assigns self")
        used = {n.id for n in ast.walk(g) if isinstance(n, ast.Name)}
        g = Sub().visit(g)
        body = body_of(g)
        doc = g.body[: len(g.body) - len(body)]
        new_body = []
        for st in body:
            if isinstance(st, ast.Return) and isinstance(st.value, ast.Tuple):
                pre, elts = [], []
                for k, el in enumerate(st.value.elts):
                    if _is_self_attr(el):
                        if el.attr in OPAQUE_ATTRS:
                            self.check_getter_seq(el, where)
                            continue          # A5: evaluated for nothing but its value, which is not an integer
                        tmp = f"t{k}"
                        while tmp in used:
                            tmp += "_"
                        used.add(tmp)
                        pre.append(ast.copy_location(ast.Assign(targets=[ast.Name(id=tmp, ctx=ast.Store())], value=el), st))
                        elts.append(ast.copy_location(ast.Name(id=tmp, ctx=ast.Load()), el))
                    elif isinstance(el, (ast.Name, ast.Constant)) or (
                            isinstance(el, ast.UnaryOp) and isinstance(el.operand, ast.Constant)):
                        elts.append(el)
                    else:
                        raise TranslationError(f"{where}:{el.lineno}: returned tuple component {ast.unparse(el)} is neither a name, "
                                               "a constant nor an attribute of the view")
                new_body += pre
                new_body.append(ast.copy_location(ast.Return(value=ast.copy_location(ast.Tuple(elts=elts, ctx=ast.Load()), st.value)), st))
            else:
                for n in ast.walk(st):
                    if isinstance(n, ast.Return) and isinstance(n.value, ast.Tuple) and n is not st:
                        raise TranslationError(f"{where}:{n.lineno}: nested tuple return in a Sequence-level getter")
                new_body.append(st)
        g.body = doc + new_body
        ast.fix_missing_locations(g)
        return g

    def check_getter_seq(self, node, where):
        """the dropped component must be a plain getter of the view class (it cannot raise or compute)"""
        attr = node.attr
        f = self.methods.get(attr)
        if f is None:
            return      # a plain instance attribute
        b = body_of(f)
        if not (attr in self.properties and len(b) == 1 and isinstance(b[0], ast.Return) and _is_self_attr(b[0].value, "_" + attr)):
            raise TranslationError(f"{where}:{node.lineno}: dropped tuple component self._seq.{attr} is not a plain getter")

    def run_seq_level(self):
        if self.seq_cls is None:
            return
        for pyname, lean_short in SEQ_LEVEL:
            where = f"{self.seq_label}::{pyname}"
            try:
                cands = [n for n in self.seq_cls.body if isinstance(n, ast.FunctionDef) and n.name == pyname
                         and not any(ast.unparse(d).endswith((".setter", ".deleter")) for d in n.decorator_list)]
                if len(cands) != 1:
                    raise TranslationError(f"{where}: expected exactly one definition, found {len(cands)}")
                g = self.seq_level_normal_form(cands[0], where)
                saved = self.label
                self.label = f"{self.seq_label} (over {saved})"
                try:
                    self.translate_def(g, "S:" + pyname, lean_short, True)
                finally:
                    self.label = saved
            except TranslationError as e:
                self.problems.append(str(e))

    def run(self):
        self._run_view_level()
        self.run_seq_level()

    def _run_view_level(self):
        for fname in MODULE_FUNCS:
            f = self.mod_funcs.get(fname)
            try:
                if f is None:
                    raise TranslationError(f"{self.label}: module function {fname} not found")
                self.translate_def(f, "F:" + fname, METHOD_NAMES[fname], is_method=False)
            except TranslationError as e:
                self.problems.append(str(e))
        for m, w, required in ORDER:
            if required is None and not self.rich_dict:
                continue
            f = self.methods.get(m)
            try:
                if f is None:
                    if required is False:
                        continue
                    raise TranslationError(f"{self.label}: method {m} not found")
                if m == "__getitem__":
                    self.translate_def(f, "M:__getitem__:int", "getitemInt", True, union_variant=True)
                    self.translate_def(f, "M:__getitem__:slice", "getitemSlice", True, union_variant=False)
                elif m == "is_reversed":
                    self.translate_def(f, "M:" + m, METHOD_NAMES[m], True)
                else:
                    self.translate_def(f, "M:" + m, METHOD_NAMES[m], True, is_init=(m == "__init__"), rich=(m == "to_rich_dict"))
            except TranslationError as e:
                self.problems.append(str(e))


# ---------------------------------------------------------------------------
# whole file
# ---------------------------------------------------------------------------
HEADER = """/-
  GENERATED by /verif/translator/py2lean_view.py from the CURRENT python source of
    cogent3/core/sequence.py      (_input_vals_pos_step, _input_vals_neg_step, SliceRecordABC, SeqView)   -> GenOld
    cogent3/core/new_sequence.py  (the same names)                                                        -> GenNew
    cogent3/core/new_sequence.py SliceRecordABC + cogent3/core/new_alignment.py SeqDataView               -> GenData
    + class Sequence of the same module (new_sequence.py for GenData): annotation_offset, parent_coordinates
  Regenerated on every check run; do not edit.  `Proofs/C01GenEq.lean` proves that every definition
  below equals the hand-written model `Model/View.lean` (for all arguments).

  Conventions: python `int` = `Int`, `//` = `Int.fdiv`, `%` = `Int.fmod`; `Optional[int]` parameters that the
  function inspects are matched on at the top and the body is partially evaluated per None/some case;
  an `if` whose branches only assign is a conditional value; `rest'k` is the rest of the function after an
  `if` some of whose branches return early.
  A1  `len(self.seq)` of an existing view is `self.seq_len` (constructor check `seq_len != len(seq)`).
  A2  `if self.step > 0: .. elif self.step < 0: ..` without `else` at the end of a function is taken as exhaustive
      (`step != 0` is part of the proved invariant `Inv`), the implicit `return None` is not modelled.
  A3  `x // 0`, `x % 0` are `Int.fdiv x 0 = 0`, `Int.fmod x 0 = x` (python raises; excluded by `Inv`).
  A4  `annotationOffset` / `parentCoordinates` are `Sequence.annotation_offset` / `Sequence.parent_coordinates` of the module's
      `Sequence` class as functions of the view `self._seq`; attribute loads in the returned tuple are bound left to right.
  A5  the opaque string component `seqid` of the returned tuple is dropped: `parentCoordinates` is (start, stop, strand).
-/
import CogentModel.Model.View
set_option linter.unusedVariables false
namespace CogentModel.Gen.C01View
open CogentModel.View (View Err)

/-- python `abs` on integers -/
@[inline] def pyabs (x : Int) : Int := if x < 0 then -x else x
"""

SOURCES = [
    ("GenOld", "core/sequence.py", "SliceRecordABC", "core/sequence.py", "SeqView", True),
    ("GenNew", "core/new_sequence.py", "SliceRecordABC", "core/new_sequence.py", "SeqView", True),
    ("GenData", "core/new_sequence.py", "SliceRecordABC", "core/new_alignment.py", "SeqDataView", False),
]
SEQ_CLASS = "Sequence"   # in the module of the abstract class (sequences of a new-style collection are new_sequence.Sequence)


def _find_class(tree, name, path):
    for n in tree.body:
        if isinstance(n, ast.ClassDef) and n.name == name:
            return n
    raise TranslationError(f"class {name} not found in {path}")


def translate(src_root: Path):
    """returns (lean_source or None, info, problems)"""
    problems, info = [], dict(namespaces={})
    trees = {}
    out = [HEADER]
    for ns_name, abs_path, abs_cls, conc_path, conc_cls, rich in SOURCES:
        try:
            for p in (abs_path, conc_path):
                if p not in trees:
                    trees[p] = ast.parse((src_root / p).read_text())
            label = f"{conc_path}:{conc_cls}" if abs_path == conc_path else f"{abs_path}:{abs_cls}+{conc_path}:{conc_cls}"
            ns = Namespace(ns_name, trees[abs_path], _find_class(trees[abs_path], abs_cls, abs_path),
                           _find_class(trees[conc_path], conc_cls, conc_path), label, rich,
                           seq_cls=_find_class(trees[abs_path], SEQ_CLASS, abs_path), seq_label=f"{abs_path}:{SEQ_CLASS}")
            ns.run()
        except (TranslationError, SyntaxError, OSError) as e:
            problems.append(f"{ns_name}: {e}")
            continue
        problems += [f"{ns_name}: {p}" for p in ns.problems]
        info["namespaces"][ns_name] = dict(functions=ns.translated, assumptions=sorted(ns.assumptions))
        out.append(f"\nnamespace {ns_name}\n")
        out.append("\n\n".join(ns.defs))
        out.append(f"\nend {ns_name}\n")
    out.append("\nend CogentModel.Gen.C01View\n")
    return "\n".join(out), info, problems


def write_if_changed(path: Path, text: str) -> bool:
    if path.exists() and path.read_text() == text:
        return False
    path.parent.mkdir(parents=True, exist_ok=True)
    path.write_text(text)
    return True


if __name__ == "__main__":
    import sys

    root = Path(sys.argv[1] if len(sys.argv) > 1 else "/repo/src/cogent3")
    lean, info, problems = translate(root)
    print(lean)
    for p in problems:
        print("PROBLEM:", p, file=sys.stderr)
