"""C19: Python -> Lean translation of the CALL SITES of ``atomic_write`` inside cogent3 (how the writers use it).

Reads every ``*.py`` under ``src/cogent3`` with ``ast`` only and emits ``lean/CogentModel/Gen/C19Writers.lean``: one
``AtomicSite.Site`` per call ``atomic_write(…)`` (the class body of ``atomic_write`` itself excluded), in (file, line) order,
WITHOUT line numbers (a harmless edit elsewhere in the file must not change the output):

    file, func     where the call stands (path relative to src/cogent3, dotted name of the enclosing def)
    protocol       withBlock   ``with atomic_write(…) [as f]: …``  or  ``x = atomic_write(…)`` … ``with x: …`` (x not used before)
                   returned    ``return atomic_write(…)``  (the object escapes to the caller)
                   bareObject  anything else (``x = atomic_write(…); x.write(…); x.close()``)
    tmpdirArg      a ``tmpdir`` argument is passed (keyword other than the literal None, or a 2nd positional argument)
    inZipArg       an ``in_zip`` argument is passed (keyword other than the literals None / False, or a 3rd positional one)
    handlerEffects an except / finally clause of a ``try`` that encloses the with-block issues a file-system call
                   (``os.unlink(filename)`` of the historical save_to_filename)
    bodyEffects    the with-block itself issues a file-system call (remove / rename / rmtree / …) next to its writes
    closeInBody    the with-block closes the file itself: ``f.close()`` directly, or by passing f to a function of the same
                   module whose body closes that parameter (one level)
    mode           the literal ``mode=`` argument, "default" if absent, "dynamic" if it is not a literal

Translation problems (returned, never skipped): ``atomic_write(*args)`` / ``**kwargs``, a call that is not inside a def,
``atomic_write`` stored under another name (``aw = atomic_write`` / ``functools.partial``), a with statement with several items
one of which is the atomic_write.
"""
from __future__ import annotations

import ast
from pathlib import Path

EFFECT_NAMES = {"unlink", "remove", "rename", "renames", "rmtree", "rmdir", "removedirs", "move", "truncate", "touch",
                "write_text", "write_bytes", "copy", "copyfile", "copy2", "copytree", "mkdir", "makedirs", "symlink_to",
                "hardlink_to", "link", "symlink", "mkdtemp", "mkstemp"}


def _src(n):
    try:
        return ast.unparse(n)
    except Exception:  # pragma: no cover
        return type(n).__name__


def _is_aw(call):
    f = call.func
    return (isinstance(f, ast.Name) and f.id == "atomic_write") or (isinstance(f, ast.Attribute) and f.attr == "atomic_write")


def _effect_call(n):
    if not isinstance(n, ast.Call):
        return False
    f = n.func
    name = f.id if isinstance(f, ast.Name) else (f.attr if isinstance(f, ast.Attribute) else None)
    if name == "replace":
        # Path.replace(target) has one argument; str.replace(a, b) two
        return isinstance(f, ast.Attribute) and len(n.args) == 1 and not n.keywords
    return name in EFFECT_NAMES


def _has_effect(nodes):
    return any(_effect_call(x) for n in nodes for x in ast.walk(n))


class _Mod:
    def __init__(self, rel, tree):
        self.rel = rel
        self.tree = tree
        self.parent = {}
        for n in ast.walk(tree):
            for ch in ast.iter_child_nodes(n):
                self.parent[ch] = n
        self.funcs = {n.name: n for n in tree.body if isinstance(n, ast.FunctionDef)}

    def chain(self, n):
        out = []
        while n in self.parent:
            n = self.parent[n]
            out.append(n)
        return out

    def qualname(self, n):
        names = [a.name for a in self.chain(n) if isinstance(a, (ast.FunctionDef, ast.AsyncFunctionDef, ast.ClassDef))]
        return ".".join(reversed(names))

    def closes_param(self, fn: ast.FunctionDef, idx, kwname):
        params = [a.arg for a in fn.args.args]
        p = kwname if kwname in params else (params[idx] if idx is not None and idx < len(params) else None)
        if p is None:
            return False
        for n in ast.walk(fn):
            if isinstance(n, ast.Call) and isinstance(n.func, ast.Attribute) and n.func.attr == "close" and isinstance(n.func.value, ast.Name) and n.func.value.id == p:
                return True
        return False


def _sites_of(mod: _Mod, problems):
    out = []
    for node in ast.walk(mod.tree):
        if isinstance(node, (ast.Assign, ast.AnnAssign)) and isinstance(getattr(node, "value", None), (ast.Name, ast.Attribute)):
            v = node.value
            if (isinstance(v, ast.Name) and v.id == "atomic_write") or (isinstance(v, ast.Attribute) and v.attr == "atomic_write"):
                problems.append(f"{mod.rel}: atomic_write stored under another name: {_src(node)[:80]}")
        if isinstance(node, ast.Call) and any(isinstance(a, (ast.Name, ast.Attribute)) and _src(a).endswith("atomic_write") for a in node.args) and not _is_aw(node):
            problems.append(f"{mod.rel}: atomic_write passed as a value: {_src(node)[:80]}")
        if not (isinstance(node, ast.Call) and _is_aw(node)):
            continue
        chain = mod.chain(node)
        if any(isinstance(a, ast.ClassDef) and a.name == "atomic_write" for a in chain):
            continue
        fn = next((a for a in chain if isinstance(a, (ast.FunctionDef, ast.AsyncFunctionDef))), None)
        if fn is None:
            problems.append(f"{mod.rel}: atomic_write call outside a def: {_src(node)[:80]}")
            continue
        if any(isinstance(a, ast.Starred) for a in node.args) or any(k.arg is None for k in node.keywords):
            problems.append(f"{mod.rel}:{mod.qualname(node)}: atomic_write called with *args / **kwargs: {_src(node)[:100]}")
            continue
        kws = {k.arg: k.value for k in node.keywords}

        def passed(name, pos, falsy):
            if len(node.args) > pos:
                return True
            v = kws.get(name)
            if v is None:
                return False
            return not (isinstance(v, ast.Constant) and v.value in falsy)

        tmpdir_arg = passed("tmpdir", 1, (None,))
        in_zip_arg = passed("in_zip", 2, (None, False))
        m = kws.get("mode") if "mode" in kws else (node.args[3] if len(node.args) > 3 else None)
        mode = "default" if m is None else (str(m.value) if isinstance(m, ast.Constant) and isinstance(m.value, str) else "dynamic")

        par = mod.parent.get(node)
        with_node, names, protocol = None, set(), "bareObject"
        if isinstance(par, ast.withitem):
            with_node = mod.parent[par]
            if len(with_node.items) != 1:
                problems.append(f"{mod.rel}:{mod.qualname(node)}: with statement with several items around atomic_write")
                continue
            protocol = "withBlock"
            if isinstance(par.optional_vars, ast.Name):
                names.add(par.optional_vars.id)
        elif isinstance(par, ast.Return):
            protocol = "returned"
        elif isinstance(par, ast.Assign) and len(par.targets) == 1 and isinstance(par.targets[0], ast.Name):
            x = par.targets[0].id
            withs = [w for w in ast.walk(fn) if isinstance(w, ast.With) and len(w.items) == 1 and isinstance(w.items[0].context_expr, ast.Name)
                     and w.items[0].context_expr.id == x and w.lineno > par.lineno]
            if len(withs) == 1:
                w = withs[0]
                inside = {id(n) for n in ast.walk(w)}
                used_outside = [n for n in ast.walk(fn) if isinstance(n, ast.Name) and n.id == x and id(n) not in inside and n is not par.targets[0]]
                if not used_outside:
                    protocol, with_node = "withBlock", w
                    names.add(x)
                    if isinstance(w.items[0].optional_vars, ast.Name):
                        names.add(w.items[0].optional_vars.id)
        handler_eff = body_eff = close_in_body = False
        if with_node is not None:
            body_eff = _has_effect(with_node.body)
            for n in (x for b in with_node.body for x in ast.walk(b)):
                if not isinstance(n, ast.Call):
                    continue
                if isinstance(n.func, ast.Attribute) and n.func.attr == "close" and isinstance(n.func.value, ast.Name) and n.func.value.id in names:
                    close_in_body = True
                if isinstance(n.func, ast.Name) and n.func.id in mod.funcs:
                    for i, a in enumerate(n.args):
                        if isinstance(a, ast.Name) and a.id in names and mod.closes_param(mod.funcs[n.func.id], i, None):
                            close_in_body = True
                    for k in n.keywords:
                        if isinstance(k.value, ast.Name) and k.value.id in names and mod.closes_param(mod.funcs[n.func.id], None, k.arg):
                            close_in_body = True
            for a in mod.chain(with_node):
                if a is fn:
                    break
                if isinstance(a, ast.Try):
                    in_body = any(with_node is x or with_node in ast.walk(x) for x in a.body)
                    if in_body and (_has_effect([h for h in a.handlers]) or _has_effect(a.finalbody)):
                        handler_eff = True
        out.append((node.lineno, {
            "file": mod.rel, "func": mod.qualname(node), "protocol": protocol, "tmpdirArg": tmpdir_arg, "inZipArg": in_zip_arg,
            "handlerEffects": handler_eff, "bodyEffects": body_eff, "closeInBody": close_in_body, "mode": mode}))
    return [s for _, s in sorted(out, key=lambda t: t[0])]


HEADER = '''import CogentModel.Model.AtomicSite
/-! GENERATED by translator/c19_writers2lean.py from every *.py under src/cogent3 — do not edit; rewritten from the current
source on every run.  One entry per call `atomic_write(…)` outside the class itself: where it stands, by which protocol the
object is used, which of `tmpdir=` / `in_zip=` is passed, whether the writer's own handlers / with-block touch the file system
or close the file, and the literal mode. -/
namespace CogentModel.Gen.C19Writers
open CogentModel.AtomicSite
'''


def _b(x):
    return "true" if x else "false"


def translate(src_root):
    """-> (lean text or None, sites, problems)"""
    src_root = Path(src_root)
    problems, sites = [], []
    for p in sorted(src_root.rglob("*.py")):
        text = p.read_text()
        if "atomic_write" not in text:
            continue
        try:
            tree = ast.parse(text)
        except SyntaxError as e:
            problems.append(f"{p}: {e}")
            continue
        sites.extend(_sites_of(_Mod(str(p.relative_to(src_root)), tree), problems))
    if not sites:
        problems.append("no call site of atomic_write found under src/cogent3")
    if problems:
        return None, sites, problems
    rows = []
    for s in sites:
        rows.append(f'  ⟨"{s["file"]}", "{s["func"]}", .{s["protocol"]}, {_b(s["tmpdirArg"])}, {_b(s["inZipArg"])}, '
                    f'{_b(s["handlerEffects"])}, {_b(s["bodyEffects"])}, {_b(s["closeInBody"])}, "{s["mode"]}"⟩')
    lean = HEADER + "\ndef sites : List Site := [\n" + ",\n".join(rows) + "]\n\nend CogentModel.Gen.C19Writers\n"
    return lean, sites, problems


if __name__ == "__main__":  # pragma: no cover
    import sys

    lean, sites, problems = translate(sys.argv[1])
    print(lean)
    print(problems, file=sys.stderr)
