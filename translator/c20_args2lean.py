"""C20: Python -> Lean translation of the ARGUMENT RESOLUTION of cogent3/util/table.py

    Table.sorted       which columns are the sort keys, in which order, which are reversed
    Table.inner_join   which columns of self / other are the join keys, which columns of other are kept
    Table.joined       which join method is called with which arguments

Reads the source with ``ast`` only (nothing of cogent3 is imported or executed) and emits
``lean/CogentModel/Gen/C20Args.lean`` (namespace CogentModel.Gen.C20Args): definitions over the hand-written value
domain ``Model/TableArgs.lean`` (PV = None | str | list | tuple of names).  The output is a pure function of the
source text.  ``Proofs/TableArgs.lean`` proves every generated definition equal to the hand model for ALL arguments.

What is translated of a method: the PREFIX of its body up to and including the last top-level statement that
stores to (assigns, appends to) one of the method's result variables (``sorted``: columns, reverse;
``inner_join``: columns_self, columns_other, output_mask); the generated function returns their values at that
point (or the exception raised before).  ``joined`` is translated whole (it returns a forwarded method call).
Every statement of the prefix must be in the supported fragment -- anything else is a *translation problem*
(returned, never skipped).

Supported fragment
  statements   docstring; ``x = e``; ``x = <text>`` (message texts: dropped, only usable in ``raise``); if/elif/else;
               ``for c in e:`` with body of ``if t: continue`` / ``x.append(c)`` / assignments; ``raise Exc(...)``;
               ``assert t, msg``; ``return self.<method>(<args>)`` (joined only)
  tests        ``x is None`` / ``is not None``; ``a is b is None``; ``isinstance(x, str)``; ``x != []`` / ``== []``;
               ``"lit" in kwargs``; ``c in x`` / ``not in``; ``len(a) != len(b)``; and / or / not; truthiness of a
               value; ``set(a) & set(b)`` (non-empty)
  values       None, ``[]``, ``[x]``, ``(x,)``, ``a if t else b``, ``a or b``, ``list(x)``,
               ``self.columns._get_keys_(x)``, ``set(a) & set(b)``, ``[c for c in xs if t]``, names, the attributes
               given as parameters (self.columns, other.columns, self.index_name, other.index_name)
  python rejects iterating / ``len`` / ``in`` of None with TypeError: for every such use in a STRICT position of a
  statement (not under the right operand of and/or, not in a branch of a conditional expression) the guard
  ``if PV.isNone x then throw "TypeError" else`` is emitted before the statement.

Code shape: a nest of ``if c then .. else ..`` and ``let`` in ``Except String``.  An ``if`` with a leaving branch
(raise / continue / return) takes the rest of the block into its other branch; an ``if`` whose branches both fall
through yields the new values of the variables they store (``let (a, b) <- (if c then do .. pure (a, b) else do ..)``);
a ``for`` is ``List.foldlM`` over the variables its body stores.
"""
from __future__ import annotations

import ast
from pathlib import Path


class TranslationError(Exception):
    pass


def _q(s: str) -> str:
    out = '"'
    for ch in s:
        if ch == '"':
            out += '\\"'
        elif ch == "\\":
            out += "\\\\"
        elif ch == "\n":
            out += "\\n"
        elif ch == "\t":
            out += "\\t"
        elif 32 <= ord(ch) < 127:
            out += ch
        else:
            out += "\\u{%x}" % ord(ch)
    return out + '"'


def _src(node) -> str:
    try:
        return ast.unparse(node)
    except Exception:  # pragma: no cover
        return type(node).__name__


def _lean_name(py: str) -> str:
    parts = py.split("_")
    return parts[0] + "".join(p.capitalize() for p in parts[1:])


LEAN_TY = {"PV": "PV", "Strs": "List String", "OptStr": "Option String", "Bool": "Bool", "Str": "String"}

# what is translated; attrs: python source of an attribute expression -> (lean parameter, type)
SPECS = [
    dict(
        method="sorted", lean="sortedColumns", mode="prefix",
        params=[("columns", "PV"), ("reverse", "PV")],
        attrs={"self.columns": ("selfColumns", "Strs")}, extra=[("kwargs", "Strs")],
        results=["columns", "reverse"],
        doc="`Table.sorted(columns, reverse, **kwargs)`: the key columns in sort order and the reversed ones "
            "(`kwargs`: the names of the extra keyword arguments)",
    ),
    dict(
        method="inner_join", lean="joinKeys", mode="prefix",
        params=[("columns_self", "PV"), ("columns_other", "PV"), ("use_index", "Bool")],
        attrs={"self.columns": ("selfColumns", "Strs"), "other.columns": ("otherColumns", "Strs"),
               "self.index_name": ("selfIndex", "OptStr"), "other.index_name": ("otherIndex", "OptStr")},
        extra=[], results=["columns_self", "columns_other", "output_mask"],
        doc="`Table.inner_join(other, columns_self, columns_other, use_index)`: key columns of self, of other, and "
            "`output_mask` (the columns of other that are kept)",
    ),
    dict(
        method="joined", lean="joinedCall", mode="whole",
        params=[("columns_self", "PV"), ("columns_other", "PV"), ("inner_join", "Bool"), ("col_prefix", "Str")],
        attrs={}, extra=[], results=[],
        doc="`Table.joined(other, columns_self, columns_other, inner_join, col_prefix, **kwargs)`: the forwarded call",
    ),
]


class Fn:
    def __init__(self, spec):
        self.spec = spec
        self.attrs = spec["attrs"]
        self.tmp = 0

    # ------------------------------------------------------------------ expressions
    def attr(self, e):
        s = _src(e)
        if s in self.attrs:
            return self.attrs[s]
        return None

    def ex(self, e, env):
        """value expression -> (lean text, type)"""
        if isinstance(e, ast.Constant):
            if e.value is None:
                return "PV.none", "PV"
            if e.value is True or e.value is False:
                return ("true" if e.value else "false"), "Bool"
            if isinstance(e.value, str):
                return _q(e.value), "Str"
            raise TranslationError(f"constant {e.value!r}")
        if isinstance(e, ast.Name):
            if e.id in env:
                return env[e.id]
            raise TranslationError(f"unknown or possibly unbound name {e.id!r}")
        if isinstance(e, ast.Attribute):
            a = self.attr(e)
            if a:
                return a
            raise TranslationError(f"attribute {_src(e)}")
        if isinstance(e, ast.List):
            if not e.elts:
                return "(PV.list [])", "PV"
            if len(e.elts) == 1:
                t, ty = self.ex(e.elts[0], env)
                if ty == "PV":
                    return f"(PV.single {t})", "PV"
                if ty == "OptStr":
                    return f"(PV.singleOpt {t})", "PV"
                if ty == "Str":
                    return f"(PV.list [{t}])", "PV"
            raise TranslationError(f"list display {_src(e)}")
        if isinstance(e, ast.Tuple):
            if len(e.elts) == 1:
                t, ty = self.ex(e.elts[0], env)
                if ty == "PV":
                    return f"(PV.singleTup {t})", "PV"
            raise TranslationError(f"tuple display {_src(e)}")
        if isinstance(e, ast.IfExp):
            c = self.tst(e.test, env)
            a, ta = self.ex(e.body, env)
            b, tb = self.ex(e.orelse, env)
            if ta != tb:
                raise TranslationError(f"branches of different type in {_src(e)}")
            return f"(if {c} then {a} else {b})", ta
        if isinstance(e, ast.BoolOp) and isinstance(e.op, ast.Or):
            parts = [self.ex(v, env) for v in e.values]
            if all(ty == "PV" for _, ty in parts):
                t = parts[-1][0]
                for p, _ in reversed(parts[:-1]):
                    t = f"(PV.or {p} {t})"
                return t, "PV"
            raise TranslationError(f"`or` of non-argument values: {_src(e)}")
        if isinstance(e, ast.BinOp) and isinstance(e.op, ast.BitAnd):
            a, b = self.set_arg(e.left, env), self.set_arg(e.right, env)
            return f"(setInter {a} {b})", "Strs"
        if isinstance(e, ast.ListComp):
            if len(e.generators) != 1 or e.generators[0].is_async:
                raise TranslationError(f"comprehension {_src(e)}")
            g = e.generators[0]
            if not (isinstance(g.target, ast.Name) and isinstance(e.elt, ast.Name) and e.elt.id == g.target.id):
                raise TranslationError(f"comprehension that is not a filter: {_src(e)}")
            xs = self.iterable(g.iter, env)
            v = g.target.id
            env2 = dict(env)
            env2[v] = (v, "Str")
            conds = [self.tst(c, env2) for c in g.ifs]
            if not conds:
                return xs, "Strs"
            return f"(List.filter (fun {v} => {' && '.join(conds)}) {xs})", "Strs"
        if isinstance(e, ast.Call):
            f = e.func
            if isinstance(f, ast.Name) and f.id == "list" and len(e.args) == 1 and not e.keywords:
                t, ty = self.ex(e.args[0], env)
                if ty == "PV":
                    return f"(PV.toList {t})", "PV"
                if ty == "Strs":
                    return f"(PV.list {t})", "PV"
                raise TranslationError(f"list() of a {ty}")
            if isinstance(f, ast.Attribute) and f.attr == "_get_keys_" and _src(f.value) in ("self.columns", "other.columns") \
                    and len(e.args) == 1 and not e.keywords:
                t, ty = self.ex(e.args[0], env)
                if ty != "PV":
                    raise TranslationError(f"_get_keys_ of a {ty}")
                return f"(PV.getKeys {t})", "PV"
        raise TranslationError(f"expression {_src(e)}")

    def set_arg(self, e, env):
        """operand of `&`: set(x)"""
        if isinstance(e, ast.Call) and isinstance(e.func, ast.Name) and e.func.id == "set" and len(e.args) == 1 and not e.keywords:
            return self.iterable(e.args[0], env)
        raise TranslationError(f"operand of & is not set(..): {_src(e)}")

    def iterable(self, e, env):
        t, ty = self.ex(e, env)
        if ty == "PV":
            return f"(PV.iter {t})"
        if ty == "Strs":
            return t
        raise TranslationError(f"iteration over a {ty}: {_src(e)}")

    def tst(self, e, env):
        """expression in boolean context -> lean Bool text"""
        if isinstance(e, ast.BoolOp):
            op = " && " if isinstance(e.op, ast.And) else " || "
            return "(" + op.join(self.tst(v, env) for v in e.values) + ")"
        if isinstance(e, ast.UnaryOp) and isinstance(e.op, ast.Not):
            return f"(!{self.tst(e.operand, env)})"
        if isinstance(e, ast.Compare):
            ops, left, comps = e.ops, e.left, e.comparators
            if len(ops) == 2 and all(isinstance(o, ast.Is) for o in ops) and isinstance(comps[1], ast.Constant) and comps[1].value is None:
                a, ta = self.ex(left, env)
                b, tb = self.ex(comps[0], env)
                if ta == tb == "PV":  # `a is b is None`  ==  a is None and b is None
                    return f"(PV.isNone {a} && PV.isNone {b})"
                raise TranslationError(f"chained `is` on {ta}/{tb}")
            if len(ops) != 1:
                raise TranslationError(f"chained comparison {_src(e)}")
            op, right = ops[0], comps[0]
            if isinstance(op, (ast.Is, ast.IsNot)) and isinstance(right, ast.Constant) and right.value is None:
                t, ty = self.ex(left, env)
                if ty != "PV":
                    raise TranslationError(f"`is None` on a {ty}")
                return f"(!(PV.isNone {t}))" if isinstance(op, ast.IsNot) else f"(PV.isNone {t})"
            if isinstance(op, (ast.Eq, ast.NotEq)):
                neg = isinstance(op, ast.NotEq)
                if self.is_len(left) and self.is_len(right):
                    a, b = self.len_of(left, env), self.len_of(right, env)
                    return f"({a} != {b})" if neg else f"({a} == {b})"
                a, ta = self.ex(left, env)
                b, tb = self.ex(right, env)
                if ta == tb == "PV":
                    return f"({a} != {b})" if neg else f"({a} == {b})"
                raise TranslationError(f"comparison of {ta} with {tb}: {_src(e)}")
            if isinstance(op, (ast.In, ast.NotIn)):
                neg = isinstance(op, ast.NotIn)
                c, tc = self.ex(left, env)
                if tc != "Str":
                    raise TranslationError(f"`in` with a {tc} on the left: {_src(e)}")
                x, tx = self.ex(right, env)
                if tx == "PV":
                    t = f"(PV.contains {x} {c})"
                elif tx == "Strs":
                    t = f"(List.contains {x} {c})"
                else:
                    raise TranslationError(f"`in` a {tx}: {_src(e)}")
                return f"(!{t})" if neg else t
            raise TranslationError(f"comparison {_src(e)}")
        if isinstance(e, ast.Call) and isinstance(e.func, ast.Name) and e.func.id == "isinstance" and len(e.args) == 2:
            t, ty = self.ex(e.args[0], env)
            if ty == "PV" and isinstance(e.args[1], ast.Name) and e.args[1].id == "str":
                return f"(PV.isStr {t})"
            raise TranslationError(f"isinstance test {_src(e)}")
        t, ty = self.ex(e, env)
        if ty == "PV":
            return f"(PV.truthy {t})"
        if ty == "OptStr":
            return f"(optTruthy {t})"
        if ty == "Bool":
            return t
        if ty == "Strs":
            return f"(!(List.isEmpty {t}))"
        raise TranslationError(f"truthiness of a {ty}: {_src(e)}")

    @staticmethod
    def is_len(e):
        return isinstance(e, ast.Call) and isinstance(e.func, ast.Name) and e.func.id == "len" and len(e.args) == 1

    def len_of(self, e, env):
        t, ty = self.ex(e.args[0], env)
        if ty == "PV":
            return f"(PV.len {t})"
        if ty == "Strs":
            return f"(List.length {t})"
        raise TranslationError(f"len of a {ty}")

    # ------------------------------------------------------------------ None guards
    def strict_none_uses(self, e, env, acc):
        """PV-typed NAMES that python iterates / measures / searches at a strict position of expression e"""
        def use(x):
            if isinstance(x, ast.Name) and x.id in env and env[x.id][1] == "PV" and env[x.id][0] not in acc:
                acc.append(env[x.id][0])

        if isinstance(e, ast.BoolOp):
            self.strict_none_uses(e.values[0], env, acc)
            return
        if isinstance(e, ast.IfExp):
            self.strict_none_uses(e.test, env, acc)
            return
        if isinstance(e, ast.ListComp):
            g = e.generators[0]
            use(g.iter)
            self.strict_none_uses(g.iter, env, acc)
            return
        if isinstance(e, ast.Call) and isinstance(e.func, ast.Name) and e.func.id in ("len", "list", "set") and len(e.args) == 1:
            use(e.args[0])
        if isinstance(e, ast.Compare) and len(e.ops) == 1 and isinstance(e.ops[0], (ast.In, ast.NotIn)):
            use(e.comparators[0])
        for ch in ast.iter_child_nodes(e):
            if isinstance(ch, ast.expr):
                self.strict_none_uses(ch, env, acc)

    # ------------------------------------------------------------------ statements
    @staticmethod
    def stored(stmts):
        """python names assigned / appended to anywhere in stmts (in order of first occurrence)"""
        out = []
        for s in stmts:
            for n in ast.walk(s):
                nm = None
                if isinstance(n, ast.Name) and isinstance(n.ctx, ast.Store):
                    nm = n.id
                if isinstance(n, ast.Call) and isinstance(n.func, ast.Attribute) and n.func.attr in ("append", "extend", "insert", "remove", "pop", "sort", "reverse") \
                        and isinstance(n.func.value, ast.Name):
                    nm = n.func.value.id
                if nm and nm not in out:
                    out.append(nm)
        return out

    def pack(self, names, env):
        if not names:
            return "()"
        if len(names) == 1:
            return env[names[0]][0]
        return "(" + ", ".join(env[n][0] for n in names) + ")"

    def guarded(self, exprs, env, ind):
        """-> (lines, deeper indentation): nested `if PV.isNone x then throw "TypeError" else`"""
        acc = []
        for e in exprs:
            self.strict_none_uses(e, env, acc)
        lines = []
        for v in acc:
            lines.append(f"{ind}if PV.isNone {v} then throw \"TypeError\" else")
        return lines, ind

    def block(self, stmts, env, ind, loop=None, tail=None):
        """statements in sequence -> (lines, env at the fall-through end, always_exits).
        `tail(env, ind)` gives the lines emitted where the sequence falls through (the value of the block).
        `loop`: names of the loop state inside a for body (`continue` yields the state).
        An `if` with a leaving branch (raise / continue / return) becomes `if c then <leave> else <rest>`, so the
        generated term is a plain nest of if-then-else and lets."""
        env = dict(env)
        if not stmts:
            return (tail(env, ind) if tail else []), env, False
        s, rest = stmts[0], stmts[1:]

        def go(lines, env):
            rl, renv, rexit = self.block(rest, env, ind, loop, tail)
            return lines + rl, renv, rexit

        if isinstance(s, ast.Expr) and isinstance(s.value, ast.Constant) and isinstance(s.value.value, str):
            return go([], env)
        if isinstance(s, ast.Pass):
            return go([], env)
        if isinstance(s, ast.Assign):
            if len(s.targets) != 1 or not isinstance(s.targets[0], ast.Name):
                raise TranslationError(f"assignment target {_src(s)}")
            name = s.targets[0].id
            v = s.value
            if isinstance(v, (ast.JoinedStr,)) or (isinstance(v, ast.Constant) and isinstance(v.value, str)):
                env[name] = (None, "Msg")  # a message text
                return go([], env)
            lines, _ = self.guarded([v], env, ind)
            t, ty = self.ex(v, env)
            if name in env and env[name][1] not in (ty, "Msg"):
                if env[name][1] == "PV" and ty == "Strs":
                    t, ty = f"(PV.list {t})", "PV"
                else:
                    raise TranslationError(f"{name} changes type {env[name][1]} -> {ty}")
            elif name not in env and name in self.spec["results"] and ty == "Strs" and self.result_ty(name) == "PV":
                t, ty = f"(PV.list {t})", "PV"
            ln = _lean_name(name)
            lines.append(f"{ind}let {ln} : {LEAN_TY[ty]} := {t}")
            env[name] = (ln, ty)
            return go(lines, env)
        if isinstance(s, ast.Expr) and isinstance(s.value, ast.Call) and isinstance(s.value.func, ast.Attribute) \
                and s.value.func.attr == "append" and isinstance(s.value.func.value, ast.Name) and len(s.value.args) == 1:
            x, tx = self.ex(s.value.func.value, env)
            c, tc = self.ex(s.value.args[0], env)
            if tx != "PV" or tc != "Str":
                raise TranslationError(f"append {_src(s)}")
            return go([f"{ind}let {x} : PV := PV.append {x} {c}"], env)
        if isinstance(s, ast.Raise):
            return [f"{ind}throw {_q(self.exc_name(s.exc))}"], env, True
        if isinstance(s, ast.Assert):
            lines, _ = self.guarded([s.test], env, ind)
            lines.append(f"{ind}if !{self.tst(s.test, env)} then throw \"AssertionError\" else")
            return go(lines, env)
        if isinstance(s, ast.Continue):
            if loop is None:
                raise TranslationError("continue outside a loop")
            return [f"{ind}pure {self.pack(loop, env)}"], env, True
        if isinstance(s, ast.Return):
            if self.spec["mode"] != "whole":
                raise TranslationError(f"return inside the translated prefix: {_src(s)}")
            return [f"{ind}pure {self.call_value(s.value, env)}"], env, True
        if isinstance(s, ast.If):
            lines, _ = self.guarded([s.test], env, ind)
            c = self.tst(s.test, env)
            _, benv, bexit = self.block(s.body, env, ind + "  ", loop, None)
            _, oenv, oexit = self.block(s.orelse, env, ind + "  ", loop, None)
            if bexit and oexit:
                bl, _, _ = self.block(s.body, env, ind + "  ", loop, None)
                ol, _, _ = self.block(s.orelse, env, ind + "  ", loop, None)
                return lines + [f"{ind}if {c} then"] + bl + [f"{ind}else"] + ol, env, True
            if bexit or oexit:
                # the statements after the `if` belong to the branch that falls through
                if bexit:
                    bl, _, _ = self.block(s.body, env, ind + "  ", loop, None)
                    ol, renv, rexit = self.block(list(s.orelse) + rest, env, ind + "  ", loop, tail)
                else:
                    bl, renv, rexit = self.block(list(s.body) + rest, env, ind + "  ", loop, tail)
                    ol, _, _ = self.block(s.orelse, env, ind + "  ", loop, None)
                return lines + [f"{ind}if {c} then"] + bl + [f"{ind}else"] + ol, renv, rexit
            # both branches fall through: they yield new values of the variables they store that are visible after
            names = [n for n in self.stored(s.body + s.orelse)
                     if (n in env and env[n][1] != "Msg") or (n not in env and n in benv and n in oenv and benv[n][1] != "Msg" and benv[n][1] == oenv[n][1])]
            for n in names:
                for e2 in (benv, oenv):
                    if n in env and e2[n][1] != env[n][1]:
                        raise TranslationError(f"{n} changes type in a branch")
            tys = [benv[n][1] for n in names]

            def pk(e2, i2):
                return [f"{i2}pure {self.pack(names, e2)}"]

            bl, _, _ = self.block(s.body, env, ind + "  ", loop, pk)
            ol, _, _ = self.block(s.orelse, env, ind + "  ", loop, pk)
            lines.append(f"{ind}let {self.lhs(names, tys)} ← (if {c} then do")
            lines += bl
            lines.append(f"{ind}else do")
            lines += ol
            lines[-1] += ")"
            for n, ty in zip(names, tys):
                env[n] = (_lean_name(n), ty)
            return go(lines, env)
        if isinstance(s, ast.For):
            if s.orelse or not isinstance(s.target, ast.Name):
                raise TranslationError(f"for statement {_src(s.target)}")
            lines, _ = self.guarded([ast.Call(func=ast.Name(id="list", ctx=ast.Load()), args=[s.iter], keywords=[])], env, ind)
            xs = self.iterable(s.iter, env)
            v = s.target.id
            names = [n for n in self.stored(s.body) if n != v]
            for n in names:
                if n not in env:
                    raise TranslationError(f"loop stores the unbound name {n}")
            tys = [env[n][1] for n in names]
            env2 = dict(env)
            env2[v] = (v, "Str")

            def pk(e2, i2):
                return [f"{i2}pure {self.pack(names, e2)}"]

            bl, _, _ = self.block(s.body, env2, ind + "    ", names, pk)
            st = self.pack(names, env)
            lines.append(f"{ind}let {self.lhs(names, tys)} ← List.foldlM (fun {self.fun_pat(names, tys, env)} {v} => do")
            lines += bl
            lines.append(f"{ind}  ) {st} {xs}")
            return go(lines, env)
        raise TranslationError(f"statement {type(s).__name__}: {_src(s)[:80]}")

    def result_ty(self, name):
        return {"output_mask": "Strs"}.get(name, "PV")

    def lhs(self, names, tys):
        if not names:
            return "(_ : Unit)"
        if len(names) == 1:
            return f"{_lean_name(names[0])} : {LEAN_TY[tys[0]]}"
        return "(" + ", ".join(_lean_name(n) for n in names) + ")"

    def fun_pat(self, names, tys, env):
        if not names:
            return "(_ : Unit)"
        if len(names) == 1:
            return f"({env[names[0]][0]} : {LEAN_TY[tys[0]]})"
        return "((" + ", ".join(env[n][0] for n in names) + ") : " + " × ".join(LEAN_TY[t] for t in tys) + ")"

    @staticmethod
    def exc_name(e):
        if isinstance(e, ast.Call) and isinstance(e.func, ast.Name):
            return e.func.id
        if isinstance(e, ast.Name):
            return e.id
        raise TranslationError(f"raise {_src(e)}")

    def call_value(self, e, env):
        """`self.<method>(args)` -> MethodCall"""
        if not (isinstance(e, ast.Call) and isinstance(e.func, ast.Attribute) and isinstance(e.func.value, ast.Name) and e.func.value.id == "self"):
            raise TranslationError(f"return value {_src(e)}")

        def arg(a):
            if isinstance(a, ast.Name) and a.id == "other":
                return "Arg.other"
            t, ty = self.ex(a, env)
            return {"PV": f"Arg.pv {t}", "Bool": f"Arg.bool {t}", "Str": f"Arg.str {t}"}[ty]

        pos = []
        for a in e.args:
            if isinstance(a, ast.Starred):
                raise TranslationError("*args in a forwarded call")
            pos.append(arg(a))
        kw = []
        for k in e.keywords:
            if k.arg is None:
                if not (isinstance(k.value, ast.Name) and k.value.id == "kwargs"):
                    raise TranslationError(f"** of {_src(k.value)}")
                kw.append('("**", Arg.kwargs)')
            else:
                kw.append(f"({_q(k.arg)}, {arg(k.value)})")
        return f"({{ name := {_q(e.func.attr)}, pos := [{', '.join(pos)}], kw := [{', '.join(kw)}] }} : MethodCall)"

    # ------------------------------------------------------------------ a method
    def translate(self, fn: ast.FunctionDef):
        spec = self.spec
        declared = [a.arg for a in fn.args.args] + ([fn.args.kwarg.arg] if fn.args.kwarg else [])
        env = {}
        sig = []
        for lean, ty in spec["attrs"].values():
            sig.append(f"({lean} : {LEAN_TY[ty]})")
        for py, ty in spec["extra"] + spec["params"]:
            if py not in declared:
                raise TranslationError(f"{spec['method']} has no parameter {py}")
            env[py] = (_lean_name(py), ty)
            sig.append(f"({_lean_name(py)} : {LEAN_TY[ty]})")
        defaults = self.defaults(fn)
        body = list(fn.body)
        if spec["mode"] == "prefix":
            last = -1
            for k, s in enumerate(body):
                if any(n in spec["results"] for n in self.stored([s])):
                    last = k
            if last < 0:
                raise TranslationError(f"{spec['method']}: no statement stores {spec['results']}")
            body = body[: last + 1]
        def tail(e2, i2):
            if spec["mode"] != "prefix":
                raise TranslationError(f"{spec['method']}: a path ends without return")
            for r in spec["results"]:
                if r not in e2 or e2[r][1] == "Msg":
                    raise TranslationError(f"{spec['method']}: result {r} is not bound at the end of the prefix")
            return [f"{i2}pure ({', '.join(e2[r][0] for r in spec['results'])})"]

        lines, env2, exits = self.block(body, env, "  ", None, tail)
        if spec["mode"] == "prefix":
            if exits:
                raise TranslationError(f"{spec['method']}: the prefix always raises")
            rty = " × ".join(LEAN_TY[env2[r][1]] for r in spec["results"])
        else:
            if not exits:
                raise TranslationError(f"{spec['method']}: a path ends without return")
            rty = "MethodCall"
        text = f"/-- {spec['doc']} -/\ndef {spec['lean']} {' '.join(sig)} :\n    Except String ({rty}) := do\n" + "\n".join(lines) + "\n"
        return text, defaults

    def defaults(self, fn):
        """literal default values of the translated parameters (part of the method's behaviour)"""
        args = fn.args.args
        ds = fn.args.defaults
        out = {}
        for a, d in zip(args[len(args) - len(ds):], ds):
            if any(a.arg == p for p, _ in self.spec["params"]):
                if isinstance(d, ast.Constant) and (d.value is None or isinstance(d.value, (bool, str))):
                    out[a.arg] = d.value
                else:
                    raise TranslationError(f"default of {a.arg}: {_src(d)}")
        return out


def _default_lean(v):
    if v is None:
        return "PV.none", "PV"
    if v is True or v is False:
        return ("true" if v else "false"), "Bool"
    return _q(v), "String"


def translate(table_py: Path):
    """-> (lean text | None, info, problems)"""
    tree = ast.parse(Path(table_py).read_text())
    cls = next((n for n in tree.body if isinstance(n, ast.ClassDef) and n.name == "Table"), None)
    if cls is None:
        return None, {}, ["class Table not found in util/table.py"]
    methods = {n.name: n for n in cls.body if isinstance(n, ast.FunctionDef)}
    parts, problems, info = [], [], {}
    for spec in SPECS:
        fn = methods.get(spec["method"])
        if fn is None:
            problems.append(f"Table.{spec['method']} not found")
            continue
        try:
            text, defaults = Fn(spec).translate(fn)
        except TranslationError as e:
            problems.append(f"Table.{spec['method']}: {e}")
            continue
        for p, v in defaults.items():
            t, ty = _default_lean(v)
            text += f"/-- default of `{spec['method']}({p}=…)` -/\ndef {spec['lean']}Default{_lean_name(p)[0].upper() + _lean_name(p)[1:]} : {ty} := {t}\n"
        parts.append(text)
        info[spec["method"]] = dict(lines=text.count("\n"), defaults={k: repr(v) for k, v in defaults.items()})
    if problems:
        return None, info, problems
    lean = (
        "import CogentModel.Model.TableArgs\n"
        "/- GENERATED by translator/c20_args2lean.py from cogent3/util/table.py (Table.sorted, Table.inner_join,\n"
        "   Table.joined: the argument resolution) on every run -- do not edit. -/\n"
        "namespace CogentModel.Gen.C20Args\nopen CogentModel.TableArgs\n\n" + "\n".join(parts) + "\nend CogentModel.Gen.C20Args\n"
    )
    return lean, info, []


def write_if_changed(path: Path, text: str) -> bool:
    path = Path(path)
    if path.exists() and path.read_text() == text:
        return False
    path.write_text(text)
    return True


if __name__ == "__main__":  # pragma: no cover
    import sys

    lean, info, problems = translate(Path(sys.argv[1]))
    print(lean if lean else problems)
