"""C20: Python -> Lean translation of the ROW LOGIC of cogent3/parse/table.py::load_delimited

(what happens to the records the csv reader yields: `limit` adjustment, title line, the reading loop with its
`break`, header line, legend line).  Reads the source with ``ast`` only (nothing of cogent3 is imported or executed)
and emits ``lean/CogentModel/Gen/C20Load.lean`` (namespace CogentModel.Gen.C20Load): one definition
``loadDelimitedRows`` over the primitives of ``Model/TableLoad.lean``.  The output is a pure function of the source
text.  ``Proofs/TableLoad.lean`` proves it equal to the hand model ``loadRowsH`` for ALL record lists and arguments.

The csv reader is the list of records it still has to yield (parameter ``reader``; how the text becomes that list is
``Model/Csv.lean::csvRead``, tied to CPython's csv separately).  The statement ``reader = csv.reader(f,
dialect="excel", delimiter=sep)`` must have exactly that shape (it fixes the dialect the csv model is about).

Supported fragment (anything else is a *translation problem*: returned, never skipped)
  statements   docstring; ``with open_(filename) as f:`` (body inlined); ``x = e``; ``x += <int>``;
               ``if t:`` without else whose body is assignments; ``for r in reader:`` whose body is
               ``xs.append(r)`` / ``n += <int>`` / a final ``if t: break``; ``return a, b, c, d``
  values       None, ``""``, ``[]``, int constants, names, ``a if t else b``, ``next(reader)``, ``xs.pop(0)``,
               ``xs.pop(-1)``, ``"".join(e)``  -- ``next`` / ``pop`` thread the rest of the list
  tests        a bool name, ``x is None`` / ``is not None``, ``n >= limit`` (also > <= < ==), and / or / not
A name that is rebound with another type (``header``: bool, then the header record or None) gets a fresh Lean name.
"""
from __future__ import annotations

import ast
from pathlib import Path


class TranslationError(Exception):
    pass


def _src(node) -> str:
    try:
        return ast.unparse(node)
    except Exception:  # pragma: no cover
        return type(node).__name__


def _lean_name(py: str) -> str:
    parts = py.split("_")
    return parts[0] + "".join(p.capitalize() for p in parts[1:])


LEAN_TY = {"Bool": "Bool", "OptInt": "Option Int", "Int": "Int", "Str": "Str", "Row": "Row", "Rows": "List Row",
           "Reader": "List Row", "OptRow": "Option Row"}

PARAMS = [("header", "Bool", True), ("with_title", "Bool", False), ("with_legend", "Bool", False), ("limit", "OptInt", None)]
RESULT = ["OptRow", "Rows", "Str", "Str"]


class Fn:
    def __init__(self):
        self.tmp = 0
        self.names = {}
        self.nloops = 0
        self.defs = []

    def fresh(self):
        self.tmp += 1
        return f"t{self.tmp}"

    def bind(self, env, py, ty):
        """lean name for (re)binding python name `py` at type `ty`"""
        if py in env and env[py][1] == ty:
            return env[py][0]
        base = _lean_name(py)
        k = self.names.get(base, 0)
        self.names[base] = k + 1
        return base if k == 0 else f"{base}{k}"

    # ---------------------------------------------------------------- tests
    def test(self, e, env):
        if isinstance(e, ast.Name):
            n, ty = self.name(e, env)
            if ty != "Bool":
                raise TranslationError(f"truthiness of {e.id!r} : {ty}")
            return n
        if isinstance(e, ast.BoolOp):
            op = " && " if isinstance(e.op, ast.And) else " || "
            return "(" + op.join(self.test(v, env) for v in e.values) + ")"
        if isinstance(e, ast.UnaryOp) and isinstance(e.op, ast.Not):
            return f"(!{self.test(e.operand, env)})"
        if isinstance(e, ast.Compare) and len(e.ops) == 1:
            op, l, r = e.ops[0], e.left, e.comparators[0]
            if isinstance(op, (ast.Is, ast.IsNot)) and isinstance(r, ast.Constant) and r.value is None:
                n, ty = self.name(l, env)
                if ty not in ("OptInt", "OptRow"):
                    raise TranslationError(f"`is None` on {_src(l)} : {ty}")
                return f"(Option.isNone {n})" if isinstance(op, ast.Is) else f"(Option.isSome {n})"
            cmpn = {ast.GtE: ("geOpt", "≥"), ast.Gt: ("gtOpt", ">"), ast.LtE: ("leOpt", "≤"), ast.Lt: ("ltOpt", "<"), ast.Eq: ("eqOpt", "=")}.get(type(op))
            if cmpn and isinstance(l, ast.Name) and isinstance(r, ast.Name):
                (a, ta), (b, tb) = self.name(l, env), self.name(r, env)
                if (ta, tb) == ("Int", "OptInt"):
                    return f"({cmpn[0]} {a} {b})"
                if (ta, tb) == ("Int", "Int"):
                    return f"(decide ({a} {cmpn[1]} {b}))"
        raise TranslationError(f"test {_src(e)}")

    def name(self, e, env):
        if isinstance(e, ast.Name) and e.id in env:
            n, ty = env[e.id]
            if ty == "Spent":
                raise TranslationError(f"{e.id!r} is used after the loop consumed it")
            return n, ty
        raise TranslationError(f"unknown name / not a name: {_src(e)}")

    # ---------------------------------------------------------------- values
    def ex(self, e, env):
        """-> (prelude lines, lean expr, type, {python name: (lean name, type)} of lists advanced by next/pop)"""
        if isinstance(e, ast.Constant):
            if e.value is None:
                return [], "none", "None", {}
            if e.value == "" and isinstance(e.value, str):
                return [], "([] : Str)", "Str", {}
            if isinstance(e.value, int) and not isinstance(e.value, bool):
                return [], f"({e.value} : Int)", "Int", {}
            raise TranslationError(f"constant {e.value!r}")
        if isinstance(e, ast.List) and not e.elts:
            return [], "([] : List Row)", "Rows", {}
        if isinstance(e, ast.Name):
            n, ty = self.name(e, env)
            return [], n, ty, {}
        if isinstance(e, ast.Call):
            f = e.func
            if isinstance(f, ast.Name) and f.id == "next" and len(e.args) == 1 and not e.keywords:
                n, ty = self.name(e.args[0], env)
                if ty != "Reader":
                    raise TranslationError(f"next() of {_src(e.args[0])} : {ty}")
                t = self.fresh()
                return [f"let ({t}, {n}) ← pyNext {n}"], t, "Row", {e.args[0].id: (n, ty)}
            if isinstance(f, ast.Attribute) and f.attr == "pop" and len(e.args) == 1 and not e.keywords:
                n, ty = self.name(f.value, env)
                a = e.args[0]
                pos = a.value if isinstance(a, ast.Constant) else (
                    -a.operand.value if isinstance(a, ast.UnaryOp) and isinstance(a.op, ast.USub) and isinstance(a.operand, ast.Constant) else None)
                if ty != "Rows" or pos not in (0, -1):
                    raise TranslationError(f"pop: {_src(e)}")
                t = self.fresh()
                return [f"let ({t}, {n}) ← {'popFirst' if pos == 0 else 'popLast'} {n}"], t, "Row", {f.value.id: (n, ty)}
            if isinstance(f, ast.Attribute) and f.attr == "join" and isinstance(f.value, ast.Constant) and f.value.value == "" \
                    and len(e.args) == 1 and not e.keywords:
                pre, x, ty, mut = self.ex(e.args[0], env)
                if ty != "Row":
                    raise TranslationError(f"join of {_src(e.args[0])} : {ty}")
                return pre, f"(joinEmpty {x})", "Str", mut
            raise TranslationError(f"call {_src(e)}")
        if isinstance(e, ast.IfExp):
            c = self.test(e.test, env)
            pa, xa, ta, ma = self.ex(e.body, env)
            pb, xb, tb, mb = self.ex(e.orelse, env)
            ty = ta
            if ta != tb:
                if {ta, tb} == {"Row", "None"}:
                    ty = "OptRow"
                    xa = f"(some {xa})" if ta == "Row" else "none"
                    xb = f"(some {xb})" if tb == "Row" else "none"
                else:
                    raise TranslationError(f"branches of {_src(e)} have types {ta} / {tb}")
            mut = {**ma, **mb}
            names = [n for n, _ in mut.values()]
            t = self.fresh()
            tup = lambda x: "(" + ", ".join([x] + names) + ")"
            lines = [f"let {tup(t)} ← (if {c} then do"] + ["    " + p for p in pa] + [f"    pure {tup(xa)}", "  else do"] \
                + ["    " + p for p in pb] + [f"    pure {tup(xb)})"]
            return lines, t, ty, mut
        raise TranslationError(f"expression {_src(e)}")

    # ---------------------------------------------------------------- statements
    def assign(self, s, env, out):
        if len(s.targets) != 1 or not isinstance(s.targets[0], ast.Name):
            raise TranslationError(f"assignment target {_src(s)}")
        tgt = s.targets[0].id
        # the one statement that creates the reader
        if isinstance(s.value, ast.Call) and _src(s.value.func) == "csv.reader":
            kw = {k.arg: _src(k.value) for k in s.value.keywords}
            if len(s.value.args) != 1 or kw != {"dialect": "'excel'", "delimiter": "sep"}:
                raise TranslationError(f"csv.reader call is not (f, dialect='excel', delimiter=sep): {_src(s)}")
            env[tgt] = ("reader", "Reader")
            return
        pre, x, ty, _ = self.ex(s.value, env)
        if ty == "None":
            raise TranslationError(f"bare None assigned: {_src(s)}")
        out.extend(pre)
        n = self.bind(env, tgt, ty)
        out.append(f"let {n} : {LEAN_TY[ty]} := {x}")
        env[tgt] = (n, ty)

    def aug(self, s, env, out, pure=False):
        if not (isinstance(s.target, ast.Name) and isinstance(s.op, ast.Add) and isinstance(s.value, ast.Constant)
                and isinstance(s.value.value, int) and not isinstance(s.value.value, bool)):
            raise TranslationError(f"augmented assignment {_src(s)}")
        n, ty = self.name(s.target, env)
        k = s.value.value
        if ty == "Int":
            out.append(f"let {n} : Int := {n} + {k}")
        elif ty == "OptInt" and not pure:
            out.append(f"let {n} : Option Int ← optAdd {n} {k}")
        else:
            raise TranslationError(f"{_src(s)} with {s.target.id} : {ty}")
        return s.target.id

    def block(self, stmts, env, out):
        for s in stmts:
            if isinstance(s, ast.Expr) and isinstance(s.value, ast.Constant) and isinstance(s.value.value, str):
                continue
            if isinstance(s, ast.With):
                if len(s.items) != 1 or not _src(s.items[0].context_expr).startswith("open_(filename"):
                    raise TranslationError(f"with: {_src(s.items[0].context_expr)}")
                self.block(s.body, env, out)
            elif isinstance(s, ast.Assign):
                self.assign(s, env, out)
            elif isinstance(s, ast.AugAssign):
                self.aug(s, env, out)
            elif isinstance(s, ast.If):
                if s.orelse:
                    raise TranslationError("if with else at statement level")
                c = self.test(s.test, env)
                body, stored = [], []
                for b in s.body:
                    if not isinstance(b, ast.AugAssign):
                        raise TranslationError(f"statement in if body: {_src(b)}")
                    stored.append(self.aug(b, env, body))
                vs = [env[v][0] for v in dict.fromkeys(stored)]
                tup = vs[0] if len(vs) == 1 else "(" + ", ".join(vs) + ")"
                out.append(f"let {tup} ← (if {c} then do")
                out.extend("    " + b for b in body)
                out.append(f"    pure {tup}")
                out.append(f"  else pure {tup})")
            elif isinstance(s, ast.For):
                self.loop(s, env, out)
            elif isinstance(s, ast.Return):
                v = s.value
                if not isinstance(v, ast.Tuple) or len(v.elts) != len(RESULT):
                    raise TranslationError(f"return {_src(s)}")
                xs = []
                for el, want in zip(v.elts, RESULT):
                    n, ty = self.name(el, env)
                    if ty != want:
                        raise TranslationError(f"returned {_src(el)} : {ty}, expected {want}")
                    xs.append(n)
                out.append("pure (" + ", ".join(xs) + ")")
                return True
            else:
                raise TranslationError(f"statement {type(s).__name__}: {_src(s)[:60]}")
        return False

    def loop(self, s, env, out):
        if s.orelse or not isinstance(s.target, ast.Name):
            raise TranslationError("for/else or tuple target")
        it, ity = self.name(s.iter, env)
        if ity != "Reader":
            raise TranslationError(f"loop over {_src(s.iter)} : {ity}")
        row = _lean_name(s.target.id)
        lenv = dict(env)
        lenv[s.target.id] = (row, "Row")
        body, stored, brk = [], [], None
        for i, b in enumerate(s.body):
            if isinstance(b, ast.Expr) and isinstance(b.value, ast.Call) and isinstance(b.value.func, ast.Attribute) \
                    and b.value.func.attr == "append" and len(b.value.args) == 1:
                n, ty = self.name(b.value.func.value, lenv)
                x, tx = self.name(b.value.args[0], lenv)
                if (ty, tx) != ("Rows", "Row"):
                    raise TranslationError(f"append: {_src(b)}")
                body.append(f"let {n} : List Row := {n} ++ [{x}]")
                stored.append(b.value.func.value.id)
            elif isinstance(b, ast.AugAssign):
                stored.append(self.aug(b, lenv, body, pure=True))
            elif isinstance(b, ast.If) and not b.orelse and len(b.body) == 1 and isinstance(b.body[0], ast.Break) and i == len(s.body) - 1:
                brk = self.test(b.test, lenv)
            else:
                raise TranslationError(f"statement in loop body: {_src(b)[:60]}")
        stored = list(dict.fromkeys(stored))
        vs = [env[v][0] for v in stored]
        tys = [LEAN_TY[env[v][1]] for v in stored]
        st = "(" + ", ".join(vs + ["brk"]) + ")"
        # the step is emitted as a definition of its own (its free variables become parameters)
        used = {n.id for b in s.body for n in ast.walk(b) if isinstance(n, ast.Name)}
        free = [v for v in env if v in used and v not in stored and v != s.target.id and env[v][1] != "Spent"]
        self.nloops += 1
        step = f"loadDelimitedStep{self.nloops}"
        sty = " × ".join(tys + ["Bool"])
        d = [f"/-- one turn of the loop `for {s.target.id} in {_src(s.iter)}` of `load_delimited` (state: {', '.join(stored)}, break flag) -/",
             f"def {step} " + " ".join(f"({env[v][0]} : {LEAN_TY[env[v][1]]})" for v in free) + f" (st : {sty}) ({row} : Row) : {sty} :=",
             f"  let {st} := st", "  if brk then st else"]
        d.extend("  " + b for b in body)
        if brk is None:
            d.append(f"  ({', '.join(vs + ['false'])})")
        else:
            d.append(f"  if {brk} then ({', '.join(vs + ['true'])}) else ({', '.join(vs + ['false'])})")
        self.defs.append("\n".join(d))
        out.append(f"let ({', '.join(vs + ['_brk'])}) := List.foldl ({step} {' '.join(env[v][0] for v in free)}) ({', '.join(vs + ['false'])}) {it}")
        env[s.iter.id] = (it, "Spent")


def translate(path: Path):
    """-> (lean text | None, info, problems)"""
    problems = []
    try:
        tree = ast.parse(Path(path).read_text())
    except Exception as e:  # pragma: no cover
        return None, "", [f"cannot parse {path}: {e}"]
    fd = next((n for n in tree.body if isinstance(n, ast.FunctionDef) and n.name == "load_delimited"), None)
    if fd is None:
        return None, "", ["parse/table.py: function load_delimited not found"]
    a = fd.args
    names = [x.arg for x in a.args]
    defaults = dict(zip(names[len(names) - len(a.defaults):], a.defaults))
    env, sig, defs = {}, [], []
    fn = Fn()
    for py, ty, _ in PARAMS:
        if py not in names:
            problems.append(f"load_delimited: parameter {py!r} not found")
            continue
        n = fn.bind(env, py, ty)
        env[py] = (n, ty)
        sig.append(f"({n} : {LEAN_TY[ty]})")
        d = defaults.get(py)
        if not isinstance(d, ast.Constant):
            problems.append(f"load_delimited: default of {py!r} is not a literal")
            continue
        lit = "none" if d.value is None else ("true" if d.value is True else "false" if d.value is False else None)
        if lit is None:
            problems.append(f"load_delimited: default of {py!r}: {d.value!r}")
            continue
        defs.append(f"/-- default of `load_delimited({py}=…)` -/\ndef default{n[0].upper() + n[1:]} : {LEAN_TY[ty]} := {lit}")
    if problems:
        return None, "", problems
    out = []
    try:
        done = fn.block(fd.body, env, out)
        if not done:
            raise TranslationError("no return statement reached")
    except TranslationError as e:
        return None, "", [f"load_delimited: not in the supported fragment: {e}"]
    body = "\n".join("  " + l for l in out)
    text = f"""import CogentModel.Model.TableLoad
/- GENERATED by translator/c20_load2lean.py from cogent3/parse/table.py (load_delimited: the row logic) on every
   run -- do not edit. -/
namespace CogentModel.Gen.C20Load
open CogentModel.Csv CogentModel.TableLoad
set_option linter.unusedVariables false

{(chr(10) * 2).join(fn.defs)}

/-- `load_delimited(filename, header, sep, with_title, with_legend, limit)` on the records `reader` yields -/
def loadDelimitedRows (reader : List Row) {' '.join(sig)} :
    Except String Loaded := do
{body}

{chr(10).join(defs)}

end CogentModel.Gen.C20Load
"""
    return text, f"load_delimited: {len(out)} generated lines", []


def write_if_changed(path: Path, text: str) -> bool:
    path = Path(path)
    if path.exists() and path.read_text() == text:
        return False
    path.parent.mkdir(parents=True, exist_ok=True)
    path.write_text(text)
    return True


if __name__ == "__main__":  # pragma: no cover
    import sys

    t, info, probs = translate(Path(sys.argv[1]))
    print(t if t else probs)
