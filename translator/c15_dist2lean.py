"""C15 translator: the estimator functions of cogent3/evolve/fast_distance.py and the counting kernel of
cogent3/evolve/pairwise_distance_numba.py  ->  lean/CogentModel/Gen/C15Dist.lean

Translated, from the CURRENT source text (stdlib `ast` only, nothing of cogent3 is imported):

    pairwise_distance_numba.fill_diversity_matrix   (the loop body becomes a step function folded over the columns)
    fast_distance._hamming, _jc69_from_matrix, _tn93_from_matrix, _logdetcommon, _paralinear, _logdet
    fast_distance.get_matrix_diff_coords            (a list comprehension)
    fast_distance._PairwiseDistance._expand         (dict / list loops -> folds: `expand_`)
    fast_distance.TN93Pair.__init__                 (the coordinate constants handed to _tn93_from_matrix: `tn93_func_args`)

Each numpy operation is mapped to ONE primitive of lean/CogentModel/Model/DistanceNumpy.lean (4x4 matrices, exact
rationals); float literals are converted exactly (0.75 -> 3/4); `numpy.log` becomes an uninterpreted function `L`
(a distance is a function of L), `log(a / sqrt(b))` becomes `L a - (1/2) * L b`, `matrix.shape[0]` is 4.
Only the result positions (total, p, dist) are translated -- the variance (4th position, and `var_term` of
`_logdetcommon`) is not part of the property; statements that only feed it are removed by a liveness pass, and an
untranslatable expression is a problem only if a translated result depends on it.

Everything outside the supported fragment is reported as a translation problem (never skipped silently).
The output is a pure function of the two source texts (no timestamps / paths).
"""
from __future__ import annotations

import ast
from fractions import Fraction
from pathlib import Path


class Unsupported(Exception):
    pass


# positions of the returned tuple that are translated
OUT = {
    "_hamming": [0, 1, 2],
    "_jc69_from_matrix": [0, 1, 2],
    "_tn93_from_matrix": [0, 1, 2],
    "_paralinear": [0, 1, 2],
    "_logdet": [0, 1, 2],
    "_logdetcommon": [0, 1, 2, 3],
}
ARITY = {"_hamming": 4, "_jc69_from_matrix": 4, "_tn93_from_matrix": 4, "_paralinear": 4, "_logdet": 4, "_logdetcommon": 5}
# types of the parameters (M matrix, V vector, IL list of indices, B bool)
PARAMS = {
    "matrix": "M", "freqs": "V", "pur_indices": "IL", "pyr_indices": "IL", "pur_coords": "IL", "pyr_coords": "IL",
    "tv_coords": "IL", "use_tk_adjustment": "B",
}
LEAN_TYPE = {"S": "Rat", "V": "V4", "M": "M4", "IL": "List Nat", "B": "Bool", "VL": "List V4", "RL": "List Rat", "D": "Dist"}
RET_TYPE = {"_logdetcommon": "Option (Rat × Rat × M4 × List V4)"}
KEYWORDS = {"at", "from", "to", "in", "do", "end", "fun", "let", "have", "show", "then", "else", "if", "by", "match", "with", "def", "L", "open", "instance", "structure", "where", "prefix", "local"}
ORDER = ["_hamming", "_jc69_from_matrix", "_tn93_from_matrix", "_logdetcommon", "_paralinear", "_logdet"]


def lname(py: str) -> str:
    n = py.lstrip("_") or "x"
    return n + "_" if n in KEYWORDS else n


def rat(v) -> str:
    f = Fraction(v)
    if f.denominator == 1:
        return f"({f.numerator} : Rat)" if f >= 0 else f"(-{-f.numerator} : Rat)"
    return f"({f.numerator} / {f.denominator} : Rat)" if f >= 0 else f"(-{-f.numerator} / {f.denominator} : Rat)"


class Fn:
    """translation of one straight-line numeric function"""

    def __init__(self, fdef: ast.FunctionDef, known: dict):
        self.f = fdef
        self.known = known  # already translated functions: name -> (lean name, out positions, [types of out positions])

    # ---------------------------------------------------------------- expressions
    def ex(self, n, env):
        """-> (type, lean text, set of python names used)"""
        if isinstance(n, ast.Constant):
            if n.value is None:
                return "N", "none", set()
            if isinstance(n.value, bool):
                return "B", "true" if n.value else "false", set()
            if isinstance(n.value, (int, float)):
                return "S", rat(n.value), set()
            raise Unsupported(f"constant {n.value!r}")
        if isinstance(n, ast.Name):
            if n.id not in env:
                raise Unsupported(f"unknown name {n.id}")
            t = env[n.id]
            if isinstance(t, tuple) and t[0] == "C":
                return "S", rat(t[1]), set()
            if isinstance(t, tuple) and t[0] == "POISON":
                raise Unsupported(f"{n.id} depends on an untranslatable expression ({t[1]})")
            if t == "D":
                return "D", f"({lname(n.id)} L)", {n.id}
            return t, lname(n.id), {n.id}
        if isinstance(n, ast.UnaryOp) and isinstance(n.op, ast.USub):
            t, s, u = self.ex(n.operand, env)
            if t in ("S", "D"):
                return t, f"(-{s})", u
            raise Unsupported(f"unary minus on {t}")
        if isinstance(n, ast.BinOp):
            return self.binop(n, env)
        if isinstance(n, ast.Call):
            return self.call(n, env)
        if isinstance(n, ast.Subscript):
            # X.shape[0]  /  list_of_vectors[k]
            v = n.value
            if isinstance(v, ast.Attribute) and v.attr == "shape" and isinstance(n.slice, ast.Constant) and n.slice.value in (0, 1):
                t, _, u = self.ex(v.value, env)
                if t == "M":
                    return "S", "(4 : Rat)", u
                raise Unsupported("shape of a non-matrix")
            t, s, u = self.ex(v, env)
            if t == "VL" and isinstance(n.slice, ast.Constant) and isinstance(n.slice.value, int) and n.slice.value >= 0:
                return "V", f"({s}.getD {n.slice.value} vzero)", u
            raise Unsupported(f"subscript of {t}")
        if isinstance(n, ast.ListComp):
            if len(n.generators) != 1 or n.generators[0].ifs or not isinstance(n.generators[0].target, ast.Name):
                raise Unsupported("comprehension shape")
            it = n.generators[0].iter
            if not (isinstance(it, (ast.Tuple, ast.List)) and all(isinstance(e, ast.Constant) and isinstance(e.value, int) for e in it.elts)):
                raise Unsupported("comprehension over a non-literal")
            parts, used = [], set()
            for e in it.elts:
                env2 = dict(env)
                env2[n.generators[0].target.id] = ("C", e.value)
                t, s, u = self.ex(n.elt, env2)
                if t != "V":
                    raise Unsupported(f"list of {t}")
                parts.append(s)
                used |= u
            return "VL", "[" + ", ".join(parts) + "]", used
        raise Unsupported(f"expression {type(n).__name__}")

    def binop(self, n, env):
        ta, a, ua = self.ex(n.left, env)
        tb, b, ub = self.ex(n.right, env)
        u = ua | ub
        op = type(n.op).__name__
        sym = {"Add": "+", "Sub": "-", "Mult": "*", "Div": "/"}.get(op)
        if op == "Pow":
            if isinstance(n.right, ast.Constant) and n.right.value == 2:
                if ta == "S":
                    return "S", f"({a} * {a})", u
                if ta == "V":
                    return "V", f"(vmul {a} {a})", u
            raise Unsupported("power other than **2 of a scalar/vector")
        if sym is None:
            raise Unsupported(f"operator {op}")
        if ta == "S" and tb == "S":
            return "S", f"({a} {sym} {b})", u
        if {ta, tb} <= {"S", "D"}:
            if op in ("Add", "Sub") or (op == "Mult" and "S" in (ta, tb)) or (op == "Div" and tb == "S"):
                return "D", f"({a} {sym} {b})", u
            raise Unsupported("non-linear use of a logarithm")
        if ta == "S" and tb == "Q" and op == "Div":
            return "SQ", (a, b), u
        if ta == "V" and tb == "V" and op in ("Add", "Mult"):
            return "V", f"({'vadd' if op == 'Add' else 'vmul'} {a} {b})", u
        if ta == "V" and tb == "S" and op == "Div":
            return "V", f"(vdivS {a} {b})", u
        if ta == "M" and tb == "S" and op == "Div":
            return "M", f"(mdivS {a} {b})", u
        if ta == "IL" and tb == "IL" and op == "Add":
            return "IL", f"({a} ++ {b})", u
        raise Unsupported(f"{ta} {sym} {tb}")

    def axis(self, call, env):
        if len(call.keywords) == 1 and call.keywords[0].arg == "axis" and not call.args:
            t, s, _ = self.ex(call.keywords[0].value, env)
            if t == "S" and s in (rat(0), rat(1)):
                return 0 if s == rat(0) else 1
        raise Unsupported("sum(axis=...) with a non-literal axis")

    def call(self, n, env):
        f = n.func
        if isinstance(f, ast.Attribute):
            t, s, u = self.ex(f.value, env)
            m = f.attr
            if m == "sum" and (n.keywords or n.args):
                if t == "M":
                    return "V", f"(axis{self.axis(n, env)} {s})", u
                raise Unsupported("sum with arguments on a non-matrix")
            if n.args and m != "take" or n.keywords:
                raise Unsupported(f".{m} with arguments")
            if m == "sum":
                r = {"M": "msum", "V": "vsum", "RL": "lsum"}.get(t)
                if r:
                    return "S", f"({r} {s})", u
            if m == "prod":
                r = {"V": "vprod", "RL": "lprod"}.get(t)
                if r:
                    return "S", f"({r} {s})", u
            if m == "diagonal" and t == "M":
                return "V", f"(mdiag {s})", u
            if m == "copy" and t in ("M", "V"):
                return t, s, u
            if m == "take" and len(n.args) == 1 and t in ("M", "V"):
                ti, si, ui = self.ex(n.args[0], env)
                if ti == "IL":
                    return "RL", f"({'mtake' if t == 'M' else 'vtake'} {s} {si})", u | ui
            raise Unsupported(f".{m} on {t}")
        if isinstance(f, ast.Name):
            if n.keywords or len(n.args) != 1:
                raise Unsupported(f"call {f.id} with {len(n.args)} args / keywords")
            t, s, u = self.ex(n.args[0], env)
            if f.id == "log":
                if t == "S":
                    return "D", f"(L {s})", u
                if t == "SQ":
                    return "D", f"(L {s[0]} - (1 / 2 : Rat) * L {s[1]})", u
                raise Unsupported(f"log of {t}")
            if f.id == "sqrt" and t == "S":
                return "Q", s, u
            if f.id == "det" and t == "M":
                return "S", f"(det {s})", u
            if f.id == "diag" and t == "M":
                return "V", f"(mdiag {s})", u
            if f.id == "sum" and t == "VL":
                return "V", f"(vlsum {s})", u
            if f.id == "sum" and t == "V":
                return "S", f"(vsum {s})", u
            raise Unsupported(f"call {f.id}({t})")
        raise Unsupported("call shape")

    def cond(self, n, env):
        """-> (lean Prop text | True | False, used)"""
        if isinstance(n, ast.BoolOp):
            parts = [self.cond(v, env) for v in n.values]
            if any(isinstance(p[0], bool) for p in parts):
                raise Unsupported("static condition inside and/or")
            j = " ∨ " if isinstance(n.op, ast.Or) else " ∧ "
            return "(" + j.join(p[0] for p in parts) + ")", set().union(*[p[1] for p in parts])
        if isinstance(n, ast.UnaryOp) and isinstance(n.op, ast.Not):
            c, u = self.cond(n.operand, env)
            if isinstance(c, bool):
                return (not c), u
            return f"(¬ {c})", u
        if isinstance(n, ast.Compare) and len(n.ops) == 1:
            op = n.ops[0]
            if isinstance(op, (ast.Is, ast.IsNot)) and isinstance(n.comparators[0], ast.Constant) and n.comparators[0].value is None:
                if not isinstance(n.left, ast.Name) or n.left.id not in env:
                    raise Unsupported("`is None` of a non-variable")
                t = env[n.left.id]
                if isinstance(t, tuple) and t[0] == "POISON":
                    raise Unsupported(f"`is None` of {n.left.id}, which is untranslatable ({t[1]})")
                isn = t == "N"
                return (isn if isinstance(op, ast.Is) else not isn), set()
            ta, a, ua = self.ex(n.left, env)
            tb, b, ub = self.ex(n.comparators[0], env)
            sym = {"Eq": "=", "NotEq": "≠", "Lt": "<", "LtE": "≤", "Gt": ">", "GtE": "≥"}.get(type(op).__name__)
            if sym and ta == "S" and tb == "S":
                return f"({a} {sym} {b})", ua | ub
            raise Unsupported(f"comparison {ta} {type(op).__name__} {tb}")
        if isinstance(n, ast.Name) and env.get(n.id) == "B":
            return f"({lname(n.id)} = true)", {n.id}
        raise Unsupported(f"condition {type(n).__name__}")

    # ---------------------------------------------------------------- statements (continuation style -> tree)
    def block(self, stmts, env):
        if not stmts:
            raise Unsupported("function falls off the end without a return")
        s, rest = stmts[0], stmts[1:]
        if isinstance(s, ast.Expr) and isinstance(s.value, ast.Constant) and isinstance(s.value.value, str):
            return self.block(rest, env)
        if isinstance(s, ast.Return):
            return self.ret(s.value, env)
        if isinstance(s, ast.If):
            c, u = self.cond(s.test, env)
            if c is True:
                return self.block(list(s.body) + rest, env)
            if c is False:
                return self.block(list(s.orelse) + rest, env)
            return ("if", c, u, self.block(list(s.body) + rest, env), self.block(list(s.orelse) + rest, env))
        if isinstance(s, ast.AugAssign) and isinstance(s.target, ast.Name):
            val = ast.BinOp(left=ast.Name(id=s.target.id, ctx=ast.Load()), op=s.op, right=s.value)
            return self.assign(s.target.id, val, rest, env)
        if isinstance(s, ast.Assign) and len(s.targets) == 1:
            tg = s.targets[0]
            if isinstance(tg, ast.Name):
                return self.assign(tg.id, s.value, rest, env)
            if isinstance(tg, ast.Tuple) and all(isinstance(e, ast.Name) for e in tg.elts):
                return self.unpack([e.id for e in tg.elts], s.value, rest, env)
            if isinstance(tg, ast.Subscript) and isinstance(tg.value, ast.Name):
                return self.masked(tg, s.value, rest, env)
        raise Unsupported(f"statement {type(s).__name__} at line {getattr(s, 'lineno', '?')}")

    def assign(self, name, value, rest, env):
        env2 = dict(env)
        # the all-None tuple
        if isinstance(value, ast.Tuple) and all(isinstance(e, ast.Constant) and e.value is None for e in value.elts):
            env2[name] = ("INV", len(value.elts))
            return self.block(rest, env2)
        if isinstance(value, ast.BinOp) and isinstance(value.op, ast.Mult) and isinstance(value.left, ast.Tuple) and len(value.left.elts) == 1 \
                and isinstance(value.left.elts[0], ast.Constant) and value.left.elts[0].value is None and isinstance(value.right, ast.Constant) \
                and isinstance(value.right.value, int):
            env2[name] = ("INV", value.right.value)  # (None,) * k
            return self.block(rest, env2)
        try:
            t, s, u = self.ex(value, env)
        except Unsupported as e:
            env2[name] = ("POISON", str(e))
            return self.block(rest, env2)
        if t == "N":
            env2[name] = "N"
            return self.block(rest, env2)
        if t not in LEAN_TYPE:
            raise Unsupported(f"assignment of a {t} to {name}")
        env2[name] = t
        return ("let", name, t, s, u, self.block(rest, env2))

    def masked(self, tg, value, rest, env):
        """X[(X == c) * eye(*M.shape, dtype=bool)] = v"""
        x = tg.value.id
        sl = tg.slice
        ok = (
            env.get(x) == "M" and isinstance(sl, ast.BinOp) and isinstance(sl.op, ast.Mult)
            and isinstance(sl.left, ast.Compare) and len(sl.left.ops) == 1 and isinstance(sl.left.ops[0], ast.Eq)
            and isinstance(sl.left.left, ast.Name) and sl.left.left.id == x
            and isinstance(sl.right, ast.Call) and isinstance(sl.right.func, ast.Name) and sl.right.func.id == "eye"
        )
        if ok:
            e = sl.right
            kw = {k.arg: k.value for k in e.keywords}
            shape_ok = (
                len(e.args) == 1 and isinstance(e.args[0], ast.Starred) and isinstance(e.args[0].value, ast.Attribute)
                and e.args[0].value.attr == "shape" and isinstance(e.args[0].value.value, ast.Name) and env.get(e.args[0].value.value.id) == "M"
            )
            ok = shape_ok and set(kw) == {"dtype"} and isinstance(kw["dtype"], ast.Name) and kw["dtype"].id == "bool"
        if not ok:
            raise Unsupported(f"masked assignment at line {tg.lineno} is not `X[(X == c) * eye(*M.shape, dtype=bool)] = v`")
        tc, c, uc = self.ex(sl.left.comparators[0], env)
        tv, v, uv = self.ex(value, env)
        if tc != "S" or tv != "S":
            raise Unsupported("masked assignment with non-scalar constant")
        return ("let", x, "M", f"(maskDiagEq {lname(x)} {c} {v})", {x} | uc | uv, self.block(rest, env))

    def unpack(self, names, value, rest, env):
        if not (isinstance(value, ast.Call) and isinstance(value.func, ast.Name) and value.func.id in self.known and not value.keywords):
            raise Unsupported("tuple assignment from something that is not a translated function")
        callee, arity, out, types = self.known[value.func.id]
        if len(names) != arity:
            raise Unsupported(f"unpacking {len(names)} names from {value.func.id} (returns {arity})")
        args, used = [], set()
        for a in value.args:
            t, s, u = self.ex(a, env)
            args.append(s)
            used |= u
        env_none = dict(env)
        env_some = dict(env)
        for i, nm in enumerate(names):
            env_none[nm] = "N"
            env_some[nm] = types[out.index(i)] if i in out else ("POISON", f"position {i} of {value.func.id} is not translated")
        return ("match", f"{callee} " + " ".join(args), used, [names[i] for i in out], self.block(rest, env_none), self.block(rest, env_some))

    def ret(self, v, env):
        name = self.f.name
        if isinstance(v, ast.Name) and isinstance(env.get(v.id), tuple) and env[v.id][0] == "INV":
            if env[v.id][1] != ARITY[name]:
                raise Unsupported(f"returns an all-None tuple of length {env[v.id][1]}, expected {ARITY[name]}")
            return ("ret", "none", set(), None)
        if not isinstance(v, ast.Tuple) or len(v.elts) != ARITY[name]:
            raise Unsupported(f"return at line {v.lineno} is not a {ARITY[name]}-tuple")
        parts, used, types = [], set(), []
        for i in OUT[name]:
            t, s, u = self.ex(v.elts[i], env)
            types.append(t)
            used |= u
            parts.append(s)
        if name == "_logdetcommon":
            if types != ["S", "S", "M", "VL"]:
                raise Unsupported(f"_logdetcommon returns {types}")
        else:
            if types[:2] != ["S", "S"] or types[2] not in ("S", "D"):
                raise Unsupported(f"{name} returns {types}")
            parts[2] = ("fun L => " if types[2] == "D" else "fun _ => ") + parts[2]
        return ("ret", "some (" + ", ".join(parts) + ")", used, types)

    # ---------------------------------------------------------------- liveness + rendering
    def prune(self, node):
        """-> (node', live names)"""
        k = node[0]
        if k == "ret":
            return node, set(node[2])
        if k == "if":
            a, la = self.prune(node[3])
            b, lb = self.prune(node[4])
            return ("if", node[1], node[2], a, b), set(node[2]) | la | lb
        if k == "let":
            rest, live = self.prune(node[5])
            if node[1] not in live:
                return rest, live
            return ("let", node[1], node[2], node[3], node[4], rest), (live - {node[1]}) | set(node[4])
        if k == "match":
            a, la = self.prune(node[4])
            b, lb = self.prune(node[5])
            pats = [nm if nm in lb else None for nm in node[3]]
            return ("match", node[1], node[2], pats, a, b), set(node[2]) | la | (lb - set(node[3]))
        raise AssertionError(k)

    def render(self, node, ind):
        p = "  " * ind
        k = node[0]
        if k == "ret":
            return [p + node[1]]
        if k == "let":
            ty = LEAN_TYPE[node[2]]
            rhs = ("fun L => " + node[3]) if node[2] == "D" else node[3]
            return [f"{p}let {lname(node[1])} : {ty} := {rhs}"] + self.render(node[5], ind)
        if k == "if":
            return [f"{p}if {node[1]} then"] + self.render(node[3], ind + 1) + [f"{p}else"] + self.render(node[4], ind + 1)
        if k == "match":
            pat = ", ".join(lname(x) if x else "_" for x in node[3])
            return [f"{p}match {node[1]} with", f"{p}| none =>"] + self.render(node[4], ind + 1) + [f"{p}| some ({pat}) =>"] + self.render(node[5], ind + 1)
        raise AssertionError(k)

    def translate(self):
        env = {}
        params = []
        a = self.f.args
        if a.vararg or a.kwarg or a.kwonlyargs or a.posonlyargs:
            raise Unsupported("parameter list")
        for arg in a.args:
            if arg.arg not in PARAMS:
                raise Unsupported(f"unknown parameter {arg.arg}")
            env[arg.arg] = PARAMS[arg.arg]
            params.append(arg.arg)
        tree, live = self.prune(self.block(list(self.f.body), env))
        free = live - set(params)
        if free:
            raise Unsupported(f"free names {sorted(free)}")
        sig = " ".join(f"({lname(x) if x in live else '_' + lname(x)} : {LEAN_TYPE[PARAMS[x]]})" for x in params)
        rt = RET_TYPE.get(self.f.name, "Res")
        head = f"/-- `{self.f.name}` -/\ndef {lname(self.f.name)} {sig} : {rt} :="
        return head + "\n" + "\n".join(self.render(tree, 1))


# --------------------------------------------------------------------------
# the counting kernel
# --------------------------------------------------------------------------
def _kernel_int(n, i, seqs):
    """integer expression over seq1[i], seq2[i] and literals"""
    if isinstance(n, ast.Subscript) and isinstance(n.value, ast.Name) and n.value.id in seqs and isinstance(n.slice, ast.Name) and n.slice.id == i:
        return f"c.{seqs.index(n.value.id) + 1}"
    if isinstance(n, ast.Constant) and isinstance(n.value, int) and not isinstance(n.value, bool):
        return f"({n.value} : Int)"
    if isinstance(n, ast.UnaryOp) and isinstance(n.op, ast.USub):
        return f"(-{_kernel_int(n.operand, i, seqs)})"
    if isinstance(n, ast.BinOp) and type(n.op).__name__ in ("Add", "Sub", "Mult"):
        sym = {"Add": "+", "Sub": "-", "Mult": "*"}[type(n.op).__name__]
        return f"({_kernel_int(n.left, i, seqs)} {sym} {_kernel_int(n.right, i, seqs)})"
    raise Unsupported(f"kernel expression {ast.dump(n)[:80]}")


def _kernel_cond(n, i, seqs):
    if isinstance(n, ast.BoolOp):
        j = " ∨ " if isinstance(n.op, ast.Or) else " ∧ "
        return "(" + j.join(_kernel_cond(v, i, seqs) for v in n.values) + ")"
    if isinstance(n, ast.UnaryOp) and isinstance(n.op, ast.Not):
        return f"(¬ {_kernel_cond(n.operand, i, seqs)})"
    if isinstance(n, ast.Compare) and len(n.ops) == 1:
        sym = {"Eq": "=", "NotEq": "≠", "Lt": "<", "LtE": "≤", "Gt": ">", "GtE": "≥"}.get(type(n.ops[0]).__name__)
        if sym:
            return f"({_kernel_int(n.left, i, seqs)} {sym} {_kernel_int(n.comparators[0], i, seqs)})"
    raise Unsupported(f"kernel condition {ast.dump(n)[:80]}")


def _kernel_block(stmts, i, mat, seqs, ind):
    p = "  " * ind
    if not stmts:
        return [p + lname(mat)]
    s, rest = stmts[0], stmts[1:]
    if isinstance(s, ast.Continue):
        return [p + lname(mat)]
    if isinstance(s, ast.If):
        return (
            [f"{p}if {_kernel_cond(s.test, i, seqs)} then"] + _kernel_block(list(s.body) + rest, i, mat, seqs, ind + 1)
            + [f"{p}else"] + _kernel_block(list(s.orelse) + rest, i, mat, seqs, ind + 1)
        )
    if (
        isinstance(s, ast.AugAssign) and isinstance(s.op, ast.Add) and isinstance(s.target, ast.Subscript)
        and isinstance(s.target.value, ast.Name) and s.target.value.id == mat and isinstance(s.target.slice, ast.Tuple)
        and len(s.target.slice.elts) == 2 and isinstance(s.value, ast.Constant) and isinstance(s.value.value, (int, float))
        and not isinstance(s.value.value, bool)
    ):
        k = Fraction(s.value.value)
        if k.denominator != 1 or k < 0:
            raise Unsupported(f"count increment {s.value.value!r} is not a natural number")
        a, b = (_kernel_int(e, i, seqs) for e in s.target.slice.elts)
        return [f"{p}let {lname(mat)} := bumpBy {lname(mat)} {a} {b} {k.numerator}"] + _kernel_block(rest, i, mat, seqs, ind)
    raise Unsupported(f"kernel statement {type(s).__name__} at line {s.lineno}")


def translate_kernel(fdef: ast.FunctionDef) -> str:
    args = [a.arg for a in fdef.args.args]
    if len(args) != 3:
        raise Unsupported("fill_diversity_matrix: expected (matrix, seq1, seq2)")
    mat, seqs = args[0], args[1:]
    body = [s for s in fdef.body if not (isinstance(s, ast.Expr) and isinstance(s.value, ast.Constant) and isinstance(s.value.value, str))]
    if len(body) != 1 or not isinstance(body[0], ast.For) or body[0].orelse or not isinstance(body[0].target, ast.Name):
        raise Unsupported("fill_diversity_matrix: body is not a single for loop")
    loop = body[0]
    it = loop.iter
    ok = (
        isinstance(it, ast.Call) and isinstance(it.func, ast.Name) and it.func.id == "range" and len(it.args) == 1 and not it.keywords
        and isinstance(it.args[0], ast.Call) and isinstance(it.args[0].func, ast.Name) and it.args[0].func.id == "len"
        and len(it.args[0].args) == 1 and isinstance(it.args[0].args[0], ast.Name) and it.args[0].args[0].id in seqs
    )
    if not ok:
        raise Unsupported("fill_diversity_matrix: loop is not `for i in range(len(seq))`")
    lines = _kernel_block(list(loop.body), loop.target.id, mat, seqs, 1)
    m = lname(mat)
    return (
        "/-- body of the loop of `fill_diversity_matrix` for one column `c = (seq1[i], seq2[i])` -/\n"
        f"def fill_diversity_matrix_step ({m} : Int → Int → Nat) (c : Int × Int) : Int → Int → Nat :=\n"
        + "\n".join(lines)
        + "\n\n/-- `fill_diversity_matrix`: the columns are visited first to last -/\n"
        f"def fill_diversity_matrix ({m} : Int → Int → Nat) ({lname(seqs[0])} {lname(seqs[1])} : List Int) : Int → Int → Nat :=\n"
        f"  ({lname(seqs[0])}.zip {lname(seqs[1])}).foldl fill_diversity_matrix_step {m}"
    )


def translate_diff_coords(fdef: ast.FunctionDef) -> str:
    """get_matrix_diff_coords: return [(i, j) for i in xs for j in xs if i != j]"""
    args = [a.arg for a in fdef.args.args]
    body = [s for s in fdef.body if not (isinstance(s, ast.Expr) and isinstance(s.value, ast.Constant))]
    if len(args) != 1 or len(body) != 1 or not isinstance(body[0], ast.Return) or not isinstance(body[0].value, ast.ListComp):
        raise Unsupported("get_matrix_diff_coords: not a single returned list comprehension")
    lc = body[0].value
    xs = args[0]
    gens = lc.generators
    ok = (
        len(gens) == 2 and all(isinstance(g.target, ast.Name) and isinstance(g.iter, ast.Name) and g.iter.id == xs for g in gens)
        and not gens[0].ifs and isinstance(lc.elt, ast.Tuple) and len(lc.elt.elts) == 2 and all(isinstance(e, ast.Name) for e in lc.elt.elts)
    )
    if not ok:
        raise Unsupported("get_matrix_diff_coords: comprehension shape")
    i, j = gens[0].target.id, gens[1].target.id

    def ie(n):
        if isinstance(n, ast.Name) and n.id in (i, j):
            return n.id
        if isinstance(n, ast.Constant) and isinstance(n.value, int) and not isinstance(n.value, bool) and n.value >= 0:
            return str(n.value)
        raise Unsupported("get_matrix_diff_coords: filter expression")

    conds = []
    for t in gens[1].ifs:
        if not (isinstance(t, ast.Compare) and len(t.ops) == 1):
            raise Unsupported("get_matrix_diff_coords: filter")
        sym = {"Eq": "=", "NotEq": "≠", "Lt": "<", "LtE": "≤", "Gt": ">", "GtE": "≥"}.get(type(t.ops[0]).__name__)
        if sym is None:
            raise Unsupported("get_matrix_diff_coords: filter operator")
        conds.append(f"decide ({ie(t.left)} {sym} {ie(t.comparators[0])})")
    flt = " && ".join(conds) if conds else "true"
    elt = ", ".join(e.id for e in lc.elt.elts)
    return (
        "/-- `get_matrix_diff_coords` -/\n"
        f"def get_matrix_diff_coords ({lname(xs)} : List Nat) : List (Nat × Nat) :=\n"
        f"  {lname(xs)}.flatMap fun {i} => ({lname(xs)}.filter fun {j} => {flt}).map fun {j} => ({elt})"
    )


# --------------------------------------------------------------------------
# _PairwiseDistance._expand: dict / list loops -> folds
# --------------------------------------------------------------------------
class _Expand:
    """Imperative fragment: `for` loops whose body updates exactly ONE container become `foldl` with that container as the
    accumulator; `continue` returns the accumulator; `d[k] = v` on the name-pair dict of Stats is `dictSet`, on a plain
    dict is `pyDictSet` (insertion-ordered association list); `d.get(key, None)` is `(dictGet d key).getD Stat.invalid`
    (None and the all-None Stats are both `Stat.invalid` in the model); the literal 0 stored as a distance is `Stat.zero`.
    Names are sequence indices.  `self.duplicated` is an insertion-ordered list of (key, list) entries; `for k in D` binds the
    entry, `D[k]` inside that loop is the entry's list."""

    TY = {"D": "Dict", "PD": "List (Nat × Nat)", "NL": "List Nat", "N": "Nat", "ST": "Stat"}

    def __init__(self):
        self.n = 0

    def sattr(self, n):
        return n.attr if isinstance(n, ast.Attribute) and isinstance(n.value, ast.Name) and n.value.id == "self" else None

    def ex(self, n, env):
        a = self.sattr(n)
        if a == "duplicated":
            return "DUP", "duplicated"
        if a == "names":
            return "NL", "names_"
        if isinstance(n, ast.Name):
            if n.id not in env:
                raise Unsupported(f"_expand: unknown name {n.id}")
            return env[n.id]
        if isinstance(n, ast.Constant) and n.value == 0 and not isinstance(n.value, bool):
            return "ST", "Stat.zero"
        if isinstance(n, ast.Tuple) and len(n.elts) == 2:
            (ta, a1), (tb, b1) = self.ex(n.elts[0], env), self.ex(n.elts[1], env)
            if ta == tb == "N":
                return "KEY", f"({a1}, {b1})"
            raise Unsupported("_expand: key tuple")
        if isinstance(n, ast.Subscript):
            t, v = self.ex(n.value, env)
            if t == "NL" and isinstance(n.slice, ast.Slice) and n.slice.lower is None and n.slice.upper is None and n.slice.step is None:
                return "NL", v
            if t == "DUP" and isinstance(n.slice, ast.Name) and isinstance(env.get("#dupkey"), tuple) and env["#dupkey"][0] == n.slice.id:
                return "NL", f"{env['#dupkey'][1]}.2"
            raise Unsupported("_expand: subscript")
        if isinstance(n, ast.Call) and isinstance(n.func, ast.Attribute) and not n.keywords:
            t, v = self.ex(n.func.value, env)
            if n.func.attr == "get" and t == "D" and len(n.args) == 2 and isinstance(n.args[1], ast.Constant) and n.args[1].value is None:
                tk, k = self.ex(n.args[0], env)
                if tk == "KEY":
                    return "ST", f"(dictGet {v} {k}).getD Stat.invalid"
            if n.func.attr == "items" and t == "PD" and not n.args:
                return "ITEMS", v
            raise Unsupported(f"_expand: method .{n.func.attr}")
        raise Unsupported(f"_expand: expression {type(n).__name__}")

    def cond(self, n, env):
        if isinstance(n, ast.Compare) and len(n.ops) == 1 and isinstance(n.ops[0], (ast.Eq, ast.NotEq)):
            (ta, a), (tb, b) = self.ex(n.left, env), self.ex(n.comparators[0], env)
            if ta == tb == "N":
                return f"{a} {'=' if isinstance(n.ops[0], ast.Eq) else '≠'} {b}"
        if isinstance(n, ast.UnaryOp) and isinstance(n.op, ast.Not) and self.sattr(n.operand) == "duplicated":
            return "duplicated.isEmpty"  # None or an empty dict
        raise Unsupported("_expand: condition")

    @staticmethod
    def stores(stmts):
        out = set()
        for st in stmts:
            for nd in ast.walk(st):
                if isinstance(nd, ast.Assign):
                    for t in nd.targets:
                        if isinstance(t, ast.Subscript) and isinstance(t.value, ast.Name):
                            out.add(t.value.id)
        return out

    def block(self, stmts, env, tail, ind):
        """tail: env -> lines, when the list is exhausted (loop body: the accumulator)"""
        p = "  " * ind
        if not stmts:
            return [p + x for x in tail(env)]
        s, rest = stmts[0], stmts[1:]
        if isinstance(s, ast.Expr) and isinstance(s.value, ast.Constant) and isinstance(s.value.value, str):
            return self.block(rest, env, tail, ind)
        if isinstance(s, ast.Return):
            t, v = self.ex(s.value, env)
            if t != "D":
                raise Unsupported("_expand: returns a non-dict")
            return [p + v]
        if isinstance(s, ast.Continue):
            if "#acc" not in env:
                raise Unsupported("_expand: continue outside a loop")
            return [p + env["#acc"]]
        if isinstance(s, ast.If):
            c = self.cond(s.test, env)
            return ([f"{p}if {c} then"] + self.block(list(s.body) + rest, env, tail, ind + 1)
                    + [f"{p}else"] + self.block(list(s.orelse) + rest, env, tail, ind + 1))
        if isinstance(s, ast.Assign):
            if len(s.targets) == 1 and isinstance(s.targets[0], ast.Name):
                nm = s.targets[0].id
                env2 = dict(env)
                if isinstance(s.value, ast.Dict) and not s.value.keys:
                    env2[nm] = ("PD", lname(nm))
                    return [f"{p}let {lname(nm)} : List (Nat × Nat) := []"] + self.block(rest, env2, tail, ind)
                t, v = self.ex(s.value, env)
                if t not in self.TY:
                    raise Unsupported(f"_expand: assignment of {t}")
                env2[nm] = (t, lname(nm))
                return [f"{p}let {lname(nm)} : {self.TY[t]} := {v}"] + self.block(rest, env2, tail, ind)
            if all(isinstance(t, ast.Subscript) and isinstance(t.value, ast.Name) for t in s.targets):
                tv, v = self.ex(s.value, env)
                lines = []
                for t in s.targets:  # Python assigns the targets left to right
                    td, d = self.ex(t.value, env)
                    tk, k = self.ex(t.slice, env)
                    if td == "D" and tk == "KEY" and tv == "ST":
                        lines.append(f"{p}let {d} : Dict := dictSet {d} {k} {v}")
                    elif td == "PD" and tk == "N" and tv == "N":
                        lines.append(f"{p}let {d} : List (Nat × Nat) := pyDictSet {d} {k} {v}")
                    else:
                        raise Unsupported(f"_expand: store {td}[{tk}] = {tv}")
                return lines + self.block(rest, env, tail, ind)
        if isinstance(s, ast.For) and not s.orelse:
            acc = self.stores(s.body)
            if len(acc) != 1:
                raise Unsupported(f"_expand: loop at line {s.lineno} updates {sorted(acc)} (exactly one container expected)")
            acc = acc.pop()
            ta, av = self.ex(ast.Name(id=acc, ctx=ast.Load()), env)
            ti, it = self.ex(s.iter, env)
            env2 = dict(env)
            env2["#acc"] = av
            self.n += 1
            head = []
            if ti == "DUP" and isinstance(s.target, ast.Name):
                el = f"kv{self.n}"
                env2[s.target.id] = ("N", lname(s.target.id))
                env2["#dupkey"] = (s.target.id, el)
                head = [f"let {lname(s.target.id)} : Nat := {el}.1"]
            elif ti == "NL" and isinstance(s.target, ast.Name):
                el = lname(s.target.id)
                env2[s.target.id] = ("N", el)
            elif ti == "ITEMS" and isinstance(s.target, ast.Tuple) and len(s.target.elts) == 2 and all(isinstance(e, ast.Name) for e in s.target.elts):
                el = f"item{self.n}"
                for i, e in enumerate(s.target.elts):
                    env2[e.id] = ("N", lname(e.id))
                    head.append(f"let {lname(e.id)} : Nat := {el}.{i + 1}")
            else:
                raise Unsupported(f"_expand: loop over {ti}")
            body = self.block(list(s.body), env2, lambda e: [av], ind + 2)
            return ([f"{p}let {av} : {self.TY[ta]} := {it}.foldl (fun {av} {el} =>"] + ["  " * (ind + 2) + h for h in head] + body
                    + [f"{p}    ) {av}"] + self.block(rest, env, tail, ind))
        raise Unsupported(f"_expand: statement {type(s).__name__} at line {getattr(s, 'lineno', '?')}")


def translate_expand(fdef: ast.FunctionDef) -> str:
    args = [a.arg for a in fdef.args.args]
    if args != ["self", "pwise"]:
        raise Unsupported(f"_expand parameters {args}")
    tr = _Expand()

    def fall(_e):
        raise Unsupported("_expand falls off the end without a return")

    lines = tr.block(list(fdef.body), {"pwise": ("D", "pwise")}, fall, 1)
    return (
        "/-- `_PairwiseDistance._expand` (`duplicated`: the entries of `self.duplicated` in insertion order, `names_` = `self.names`) -/\n"
        "def expand_ (duplicated : List (Nat × List Nat)) (names_ : List Nat) (pwise : Dict) : Dict :=\n" + "\n".join(lines)
    )


# --------------------------------------------------------------------------
# TN93Pair.__init__: the constants handed to _tn93_from_matrix
# --------------------------------------------------------------------------
def translate_tn93_init(cdef: ast.ClassDef) -> str:
    """TN93Pair.__init__ -> `tn93_func_args pur_indices pyr_indices dim` = `self._func_args[1:]`.
    `get_purine_indices(self.moltype)` / `get_pyrimidine_indices(self.moltype)` depend on the alphabet object and are the
    parameters (the harness compares them with the real ones at run time); `self._dim` is the parameter `dim`.
    Types: IL list of naturals, CL list of coordinate pairs."""
    init = [m for m in cdef.body if isinstance(m, ast.FunctionDef) and m.name == "__init__"]
    if len(init) != 1:
        raise Unsupported("TN93Pair.__init__ not found")
    env = {}  # attribute -> (type, lean name)
    lines = []
    ver = {}

    def fresh(attr):
        ver[attr] = ver.get(attr, 0) + 1
        return f"{lname(attr)}_{ver[attr]}"

    def sattr(n):
        return n.attr if isinstance(n, ast.Attribute) and isinstance(n.value, ast.Name) and n.value.id == "self" else None

    def ex(n):
        a = sattr(n)
        if a == "_dim":
            return "N", "dim"
        if a is not None:
            if a not in env:
                raise Unsupported(f"self.{a} read before it is assigned")
            if env[a][0] == "OPAQUE":
                raise Unsupported(f"self.{a} is not translated")
            return env[a]
        if isinstance(n, ast.BinOp) and isinstance(n.op, ast.Add):
            (ta, x), (tb, y) = ex(n.left), ex(n.right)
            if ta == tb and ta in ("IL", "CL"):
                return ta, f"({x} ++ {y})"
            raise Unsupported("+ of non-lists")
        if isinstance(n, ast.Call) and isinstance(n.func, ast.Name) and not n.keywords:
            f = n.func.id
            if f in ("get_purine_indices", "get_pyrimidine_indices") and len(n.args) == 1 and sattr(n.args[0]) == "moltype":
                return "IL", "pur_indices" if f == "get_purine_indices" else "pyr_indices"
            if f == "get_matrix_diff_coords" and len(n.args) == 1:
                t, x = ex(n.args[0])
                if t == "IL":
                    return "CL", f"(get_matrix_diff_coords {x})"
            if f == "list" and len(n.args) == 1:
                return ex(n.args[0])
            if f == "range" and len(n.args) == 1:
                t, x = ex(n.args[0])
                if t == "N":
                    return "IL", f"(List.range {x})"
            raise Unsupported(f"call {f}")
        if isinstance(n, ast.ListComp) and len(n.generators) == 1 and not n.generators[0].ifs:
            g = n.generators[0]
            t, x = ex(g.iter)
            if t == "CL" and isinstance(g.target, ast.Tuple) and len(g.target.elts) == 2 and all(isinstance(e, ast.Name) for e in g.target.elts):
                i, j = (e.id for e in g.target.elts)

                def ie(m):
                    if isinstance(m, ast.Name) and m.id in (i, j):
                        return "c.1" if m.id == i else "c.2"
                    if isinstance(m, ast.Constant) and isinstance(m.value, int) and not isinstance(m.value, bool) and m.value >= 0:
                        return str(m.value)
                    if isinstance(m, ast.BinOp) and isinstance(m.op, (ast.Add, ast.Mult)):
                        return f"({ie(m.left)} {'+' if isinstance(m.op, ast.Add) else '*'} {ie(m.right)})"
                    raise Unsupported("flattening expression")

                return "IL", f"({x}.map fun c => {ie(n.elt)})"
            raise Unsupported("comprehension shape")
        raise Unsupported(f"expression {type(n).__name__} at line {getattr(n, 'lineno', '?')}")

    result = None
    func = None
    for st in init[0].body:
        if isinstance(st, ast.Expr) and isinstance(st.value, ast.Constant):
            continue
        if isinstance(st, ast.Expr) and isinstance(st.value, ast.Call) and isinstance(st.value.func, ast.Attribute) and st.value.func.attr == "__init__":
            continue  # super().__init__(...)
        if isinstance(st, ast.Assign) and len(st.targets) == 1 and sattr(st.targets[0]) is not None:
            a = sattr(st.targets[0])
            if a == "func":
                if not isinstance(st.value, ast.Name):
                    raise Unsupported("self.func")
                func = st.value.id
                continue
            if a == "_func_args":
                if not isinstance(st.value, ast.List) or not st.value.elts or sattr(st.value.elts[0]) != "_freqs":
                    raise Unsupported("self._func_args is not [self._freqs, ...]")
                result = [ex(e) for e in st.value.elts[1:]]
                continue
            if a == "_freqs":
                env[a] = ("OPAQUE", None)
                continue
            t, x = ex(st.value)
            nm = fresh(a)
            lines.append(f"  let {nm} : {'List Nat' if t == 'IL' else 'List (Nat × Nat)'} := {x}")
            env[a] = (t, nm)
            continue
        if isinstance(st, ast.For) and not st.orelse and isinstance(st.target, ast.Name) and len(st.body) == 1:
            b = st.body[0]
            ok = (isinstance(b, ast.Expr) and isinstance(b.value, ast.Call) and isinstance(b.value.func, ast.Attribute) and b.value.func.attr == "remove"
                  and sattr(b.value.func.value) is not None and len(b.value.args) == 1 and isinstance(b.value.args[0], ast.Name)
                  and b.value.args[0].id == st.target.id)
            if ok:
                a = sattr(b.value.func.value)
                (t, x), (tl, l) = ex(b.value.func.value), ex(st.iter)
                if t == tl == "CL":
                    nm = fresh(a)
                    lines.append(f"  let {nm} : List (Nat × Nat) := {l}.foldl (fun acc coord => acc.erase coord) {x}")
                    env[a] = ("CL", nm)
                    continue
        raise Unsupported(f"TN93Pair.__init__: statement at line {st.lineno}")
    if func != "_tn93_from_matrix":
        raise Unsupported(f"TN93Pair.func is {func}")
    if result is None or [t for t, _ in result] != ["IL"] * 5:
        raise Unsupported("self._func_args is not [freqs, 5 index lists]")
    return (
        "/-- `TN93Pair.__init__`: `self._func_args[1:]` (pur_indices, pyr_indices, pur_coords, pyr_coords, tv_coords) -/\n"
        "def tn93_func_args (pur_indices pyr_indices : List Nat) (dim : Nat) : List Nat × List Nat × List Nat × List Nat × List Nat :=\n"
        + "\n".join(lines) + "\n  (" + ", ".join(x for _, x in result) + ")"
    )


# --------------------------------------------------------------------------
def _funcs(path: Path):
    tree = ast.parse(path.read_text())
    return {n.name: n for n in tree.body if isinstance(n, ast.FunctionDef)}


def translate(src: Path):
    """-> (lean text | None, problems)"""
    problems, parts = [], []
    fd = _funcs(src / "evolve" / "fast_distance.py")
    nb = _funcs(src / "evolve" / "pairwise_distance_numba.py")
    if "fill_diversity_matrix" not in nb:
        problems.append("pairwise_distance_numba.py: fill_diversity_matrix not found")
    else:
        try:
            parts.append(translate_kernel(nb["fill_diversity_matrix"]))
        except Unsupported as e:
            problems.append(f"fill_diversity_matrix: {e}")
    if "get_matrix_diff_coords" not in fd:
        problems.append("fast_distance.py: get_matrix_diff_coords not found")
    else:
        try:
            parts.append(translate_diff_coords(fd["get_matrix_diff_coords"]))
        except Unsupported as e:
            problems.append(f"get_matrix_diff_coords: {e}")
    cls = [n for n in ast.parse((src / "evolve" / "fast_distance.py").read_text()).body if isinstance(n, ast.ClassDef) and n.name == "TN93Pair"]
    if not cls:
        problems.append("fast_distance.py: class TN93Pair not found")
    else:
        try:
            parts.append(translate_tn93_init(cls[0]))
        except Unsupported as e:
            problems.append(f"TN93Pair.__init__: {e}")
    base = [n for n in ast.parse((src / "evolve" / "fast_distance.py").read_text()).body if isinstance(n, ast.ClassDef) and n.name == "_PairwiseDistance"]
    exp = [m for c in base for m in c.body if isinstance(m, ast.FunctionDef) and m.name == "_expand"]
    if len(exp) != 1:
        problems.append("fast_distance.py: _PairwiseDistance._expand not found")
    else:
        try:
            parts.append(translate_expand(exp[0]))
        except Unsupported as e:
            problems.append(f"_expand: {e}")
    known = {}
    for name in ORDER:
        if name not in fd:
            problems.append(f"fast_distance.py: {name} not found")
            continue
        try:
            parts.append(Fn(fd[name], known).translate())
        except Unsupported as e:
            problems.append(f"{name}: {e}")
            continue
        if name == "_logdetcommon":
            known[name] = (lname(name), ARITY[name], OUT[name], ["S", "S", "M", "VL"])
    if problems:
        return None, problems
    text = (
        "import CogentModel.Model.DistanceNumpy\n"
        "/- GENERATED by translator/c15_dist2lean.py from cogent3/evolve/fast_distance.py and pairwise_distance_numba.py\n"
        "   on every run -- do not edit.  numpy operations are the primitives of Model/DistanceNumpy.lean; only the result\n"
        "   positions (total, p, dist) are translated; `L` stands for numpy.log. -/\n"
        "set_option linter.unusedVariables false\n"
        "namespace CogentModel.Gen.C15Dist\nopen CogentModel.Distance CogentModel.DistNp\n\n"
        + "\n\n".join(parts)
        + "\n\nend CogentModel.Gen.C15Dist\n"
    )
    return text, []


def write_if_changed(path: Path, text: str) -> bool:
    if path.exists() and path.read_text() == text:
        return False
    path.parent.mkdir(parents=True, exist_ok=True)
    path.write_text(text)
    return True


if __name__ == "__main__":
    import sys

    t, pr = translate(Path(sys.argv[1]))
    print(t if t else "\n".join(pr))
