"""SQL-condition translator for C17.

On every run this re-reads ``core/annotation_db.py`` of the checked tree, cuts the
function ``_matching_conditions`` out of the module with ``ast`` (nothing else of
cogent3 is imported or executed), evaluates its f-string templates with *symbolic*
window bounds (objects that format as ``QA`` / ``QB``) for the four ways a
coordinate window can be present, parses the resulting SQL text with a tiny
grammar and emits Lean definitions

    matchPartial / matchWithin : start stop a b -> Bool
    matchStartOnly / matchStopOnly : start stop x -> Bool

into ``lean/CogentModel/Gen/C17Sql.lean``.  The output is a pure function of the
SQL text (no timestamps), so an unchanged source gives a byte-identical file.

Supported grammar (anything else is a *translation problem*, never skipped):

    expr   := term ( OR term )*
    term   := factor ( AND factor )*
    factor := '(' expr ')' | atom cmp atom
    atom   := start | stop | QA | QB | integer literal
    cmp    := <= | >= | < | > | = | == | != | <>

The same parser (extended with ``col = ?``, ``col LIKE ?``, ``col IN (?,..)``)
is used to check that, for every subset of the optional column arguments, the
WHERE clause is the plain conjunction of one atom per present column followed
by the window expression (the textual side of ``query_is_filter``).
"""
from __future__ import annotations

import ast
import itertools
import re
from pathlib import Path

FUNC = "_matching_conditions"
COLUMNS = ["biotype", "seqid", "name", "strand", "attributes", "on_alignment"]


class TranslationError(Exception):
    pass


class Sym:
    """a symbolic integer bound: formats as its name inside the f-string"""

    def __init__(self, name):
        self.name = name

    def __format__(self, spec):
        return self.name

    def __str__(self):
        return self.name

    __repr__ = __str__


def extract_function(path: Path):
    """return the python function object compiled from the FunctionDef alone"""
    tree = ast.parse(path.read_text())
    node = None
    for n in tree.body:
        if isinstance(n, ast.FunctionDef) and n.name == FUNC:
            node = n
    if node is None:
        raise TranslationError(f"{FUNC} not found in {path}")
    node.returns = None
    for a in node.args.args + node.args.kwonlyargs:
        a.annotation = None
    mod = ast.Module(body=[node], type_ignores=[])
    ast.fix_missing_locations(mod)
    ns: dict = {}
    exec(compile(mod, str(path), "exec"), ns)  # only this one pure function
    return ns[FUNC], ast.get_source_segment(path.read_text(), node)


# ---------------------------------------------------------------------------
# tokeniser / parser
# ---------------------------------------------------------------------------
_TOK = re.compile(r"\s*(<=|>=|<>|!=|==|=|<|>|\(|\)|,|\?|[A-Za-z_][A-Za-z_0-9]*|-?\d+)")


def tokenize(sql: str):
    sql = sql.strip()
    if sql.endswith(";"):
        sql = sql[:-1]
    pos, out = 0, []
    while pos < len(sql):
        m = _TOK.match(sql, pos)
        if not m:
            if sql[pos:].strip() == "":
                break
            raise TranslationError(f"cannot tokenise SQL at {sql[pos:pos+20]!r}")
        out.append(m.group(1))
        pos = m.end()
    return out


CMP = {"<=": "≤", ">=": "≥", "<": "<", ">": ">", "=": "=", "==": "=", "!=": "≠", "<>": "≠"}
ATOMS = {"start", "stop", "QA", "QB"}


class Parser:
    def __init__(self, toks):
        self.t = toks
        self.i = 0

    def peek(self):
        return self.t[self.i] if self.i < len(self.t) else None

    def next(self):
        tok = self.peek()
        if tok is None:
            raise TranslationError("unexpected end of SQL condition")
        self.i += 1
        return tok

    def expr(self):
        parts = [self.term()]
        while (self.peek() or "").upper() == "OR":
            self.next()
            parts.append(self.term())
        return parts[0] if len(parts) == 1 else ("or", parts)

    def term(self):
        parts = [self.factor()]
        while (self.peek() or "").upper() == "AND":
            self.next()
            parts.append(self.factor())
        return parts[0] if len(parts) == 1 else ("and", parts)

    def factor(self):
        tok = self.next()
        if tok == "(":
            e = self.expr()
            if self.next() != ")":
                raise TranslationError("missing )")
            return e
        # column condition with placeholder?
        nxt = self.peek()
        if tok in COLUMNS:
            op = self.next().upper()
            if op in ("=", "LIKE"):
                if self.next() != "?":
                    raise TranslationError(f"column condition on {tok} without placeholder")
                return ("col", tok, op, 1)
            if op == "IN":
                if self.next() != "(":
                    raise TranslationError("IN without (")
                n = 0
                while True:
                    t = self.next()
                    if t == "?":
                        n += 1
                    elif t == ",":
                        continue
                    elif t == ")":
                        break
                    else:
                        raise TranslationError(f"unexpected {t!r} in IN list")
                return ("col", tok, "IN", n)
            raise TranslationError(f"unsupported operator {op!r} on column {tok}")
        a = self.atom(tok)
        op = self.next()
        if op not in CMP:
            raise TranslationError(f"unsupported comparison {op!r}")
        b = self.atom(self.next())
        return ("cmp", CMP[op], a, b)

    @staticmethod
    def atom(tok):
        if tok in ATOMS:
            return tok
        if re.fullmatch(r"-?\d+", tok):
            return int(tok)
        raise TranslationError(f"unsupported operand {tok!r} (only start/stop columns, the two bounds, integers)")


def parse(sql: str):
    p = Parser(tokenize(sql))
    e = p.expr()
    if p.peek() is not None:
        raise TranslationError(f"trailing tokens {p.t[p.i:]}")
    return e


def flatten_and(e):
    if isinstance(e, tuple) and e[0] == "and":
        out = []
        for x in e[1]:
            out += flatten_and(x)
        return out
    return [e]


# ---------------------------------------------------------------------------
# emission
# ---------------------------------------------------------------------------
def to_lean(e, names):
    k = e[0]
    if k == "cmp":
        f = lambda a: f"({a})" if isinstance(a, int) and a < 0 else (str(a) if isinstance(a, int) else names[a])
        return f"decide ({f(e[2])} {e[1]} {f(e[3])})"
    if k in ("and", "or"):
        op = " && " if k == "and" else " || "
        return "(" + op.join(to_lean(x, names) for x in e[1]) + ")"
    raise TranslationError(f"column condition inside the window expression: {e}")


def uses(e, atom):
    if e[0] == "cmp":
        return atom in (e[2], e[3])
    if e[0] in ("and", "or"):
        return any(uses(x, atom) for x in e[1])
    return False


def window_sqls(fn):
    """the four window clauses as SQL text with symbolic bounds"""
    a, b = Sym("QA"), Sym("QB")
    res = {}
    for key, conds, partial in (
        ("matchPartial", {"start": a, "stop": b}, True),
        ("matchWithin", {"start": a, "stop": b}, False),
        ("matchStartOnlyP", {"start": a}, True),
        ("matchStartOnlyW", {"start": a}, False),
        ("matchStopOnlyP", {"stop": b}, True),
        ("matchStopOnlyW", {"stop": b}, False),
    ):
        sql, vals = fn(dict(conds), allow_partial=partial)
        if vals not in ((), [], None):
            raise TranslationError(f"window-only query produced placeholder values {vals!r}")
        res[key] = sql
    return res


def translate(src_path: Path):
    """returns (lean_source, info, problems)"""
    problems = []
    fn, src = extract_function(src_path)
    sqls = window_sqls(fn)
    exprs = {}
    for k, s in sqls.items():
        try:
            exprs[k] = parse(s)
        except TranslationError as e:
            problems.append(f"{k}: {e} in SQL {s!r}")
    if problems:
        return None, dict(sql=sqls), problems
    # the single-bound clauses must not depend on allow_partial
    for base in ("matchStartOnly", "matchStopOnly"):
        if exprs[base + "P"] != exprs[base + "W"]:
            problems.append(f"{base}: clause differs with allow_partial ({sqls[base+'P']!r} vs {sqls[base+'W']!r})")
    if uses(exprs["matchStartOnlyP"], "QB") or uses(exprs["matchStopOnlyP"], "QA"):
        problems.append("single-bound clause mentions the absent bound")

    # textual side of query_is_filter: WHERE = AND of one atom per present column (in dict order) + window
    col_vals = {"biotype": "gene", "seqid": ("s1", "s2"), "name": "n%", "strand": "-", "attributes": "%x%", "on_alignment": 0}
    n_checked = 0
    for r in range(len(COLUMNS) + 1):
        for cols in itertools.combinations(COLUMNS, r):
            for wkey, wconds, partial in (
                (None, {}, True),
                ("matchPartial", {"start": Sym("QA"), "stop": Sym("QB")}, True),
                ("matchWithin", {"start": Sym("QA"), "stop": Sym("QB")}, False),
                ("matchStartOnlyP", {"start": Sym("QA")}, False),
                ("matchStopOnlyP", {"stop": Sym("QB")}, True),
            ):
                conds = {c: col_vals[c] for c in cols}
                conds.update(wconds)
                try:
                    sql, vals = fn(dict(conds), allow_partial=partial)
                except Exception as e:  # noqa: BLE001
                    problems.append(f"{FUNC} raised {type(e).__name__} for columns {cols} window {wkey}")
                    continue
                n_checked += 1
                want_vals = []
                for c in cols:
                    v = col_vals[c]
                    want_vals += list(v) if isinstance(v, tuple) else [v]
                if list(vals or ()) != want_vals:
                    problems.append(f"placeholder values {vals!r} != {want_vals!r} for columns {cols}")
                if not cols and wkey is None:
                    if sql.strip():
                        problems.append(f"empty query gives WHERE text {sql!r}")
                    continue
                try:
                    parts = flatten_and(parse(sql)) if cols else [parse(sql)]
                    if cols and wkey is not None:
                        # the window is the last conjunct, possibly itself an AND (within clause) in parentheses:
                        # re-parse structurally: columns first, then one parenthesised window expression
                        e = parse(sql)
                        top = e[1] if e[0] == "and" else [e]
                        parts = top
                except TranslationError as e:
                    problems.append(f"WHERE clause for columns {cols} window {wkey} not a conjunction: {e} ({sql!r})")
                    continue
                want = []
                for c in cols:
                    v = col_vals[c]
                    if isinstance(v, tuple):
                        want.append(("col", c, "IN", len(v)))
                    elif isinstance(v, str) and "%" in v:
                        want.append(("col", c, "LIKE", 1))
                    else:
                        want.append(("col", c, "=", 1))
                if wkey is not None:
                    got_cols, got_win = parts[: len(cols)], parts[len(cols) :]
                    win = got_win[0] if len(got_win) == 1 else ("and", got_win)
                    if got_cols != want or win != exprs[wkey]:
                        problems.append(f"WHERE clause for columns {cols} + {wkey} is not AND(columns…, window): {sql!r}")
                elif parts != want:
                    problems.append(f"WHERE clause for columns {cols} is not the conjunction of its column atoms: {sql!r}")

    names4 = {"start": "start", "stop": "stop", "QA": "a", "QB": "b"}
    out = []
    out.append("/-")
    out.append("  GENERATED by /verif/translator/sql2lean.py from cogent3/core/annotation_db.py::_matching_conditions")
    out.append("  (regenerated on every check run; do not edit).  SQL text seen, with the query bounds written QA / QB:")
    for k in ("matchPartial", "matchWithin", "matchStartOnlyP", "matchStopOnlyP"):
        out.append(f"    {k.rstrip('PW') if k.startswith('matchSt') else k}: {sqls[k]}")
    out.append("-/")
    out.append("namespace CogentModel.Gen.C17Sql")
    out.append("")
    out.append("/-- window clause used when `start`, `stop` are both given and `allow_partial=True` -/")
    out.append(f"def matchPartial (start stop a b : Int) : Bool :=\n  {to_lean(exprs['matchPartial'], names4)}")
    out.append("")
    out.append("/-- window clause used when both bounds are given and `allow_partial=False` -/")
    out.append(f"def matchWithin (start stop a b : Int) : Bool :=\n  {to_lean(exprs['matchWithin'], names4)}")
    out.append("")
    out.append("/-- clause used when only `start` is given -/")
    out.append(f"def matchStartOnly (start stop a : Int) : Bool :=\n  {to_lean(exprs['matchStartOnlyP'], names4)}")
    out.append("")
    out.append("/-- clause used when only `stop` is given -/")
    out.append(f"def matchStopOnly (start stop b : Int) : Bool :=\n  {to_lean(exprs['matchStopOnlyP'], names4)}")
    out.append("")
    out.append("end CogentModel.Gen.C17Sql")
    info = dict(sql=sqls, where_shapes_checked=n_checked)
    return "\n".join(out) + "\n", info, problems


def write_if_changed(path: Path, text: str) -> bool:
    if path.exists() and path.read_text() == text:
        return False
    path.parent.mkdir(parents=True, exist_ok=True)
    path.write_text(text)
    return True


if __name__ == "__main__":
    import sys

    src = Path(sys.argv[1] if len(sys.argv) > 1 else "/repo/src/cogent3/core/annotation_db.py")
    lean, info, problems = translate(src)
    print(lean)
    print(info, problems, file=sys.stderr)
