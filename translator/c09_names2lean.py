"""C09: translate the node-naming code of cogent3/core/tree.py::TreeBuilder into Lean.

Reads (stdlib `ast` only) the class `TreeBuilder`:
  * `__init__`      : the one assignment  self._used_names = {<str>: <int>, ...}          -> `usedNamesInit`
  * `_unique_name`  : the whole body, statement by statement                              -> `uniqueNameRec` / `uniqueName`
and writes lean/CogentModel/Gen/C09Newick.lean (content addressed: unchanged source => unchanged file).
Props/C09.lean proves the generated definitions equal to the hand model Model/PhyloNames.lean (`gen_*`).

Conventions (each is tied to the real method by the `gen_unique` stream of harness/c09_compose.py)
  U1  `self._used_names` is a Python dict str -> int; it is the association list `Used` of Model/PhyloNames.lean with the dict
      primitives `usedGet` (lookup, first hit), `usedSet` (update in place / append a new key at the end = insertion order).
      `k in d` -> `dHas`, `d[k]` (read) -> `dGet` (0 for a missing key: KeyError is not modelled; the translator REFUSES a read of
      d[k] that is not inside the true branch of `if k in d`), `d[k] = v` / `d[k] += v` -> `usedSet`.
  U2  the parameter `name` is `None` or a str: `Option String`.  The opening idiom  `if not name: name = <str const>`  is translated
      to `pyOr name <const>` (Python truthiness of None / "" / non-empty str); from then on `name` is a `String`.  The idiom is
      accepted only as the FIRST statement and only on the parameter.
  U3  str expressions: constants, `a + b` -> `a ++ b`, `x += e` -> `x := x ++ e`, `str(<int expr>)` -> `toString` on `Int`
      (same decimal text as Python for every int, sign included).
  U4  the self call `name = self._unique_name(name)` is the recursive call; Lean needs a termination argument, so the recursion is
      fuel-bounded with fuel `len(self._used_names) + 1` at the outer call (every recursive call happens after a dict HIT with a
      strictly longer candidate, so there are at most len(dict) hits; the behavioural stream checks this on arbitrary dict states).
      Out of fuel the function returns its argument unchanged.
  U5  the function returns (`self._used_names` afterwards, returned name).
Anything outside this fragment raises TranslationError (reported as a translation problem, never skipped)."""
from __future__ import annotations

import ast
import json
from pathlib import Path


class TranslationError(Exception):
    pass


DICT = "_used_names"
FN = "_unique_name"


def _src(n):
    try:
        return ast.unparse(n)
    except Exception:  # noqa: BLE001
        return type(n).__name__


def _is_self_dict(n):
    return isinstance(n, ast.Attribute) and n.attr == DICT and isinstance(n.value, ast.Name) and n.value.id == "self"


def _lstr(s: str) -> str:
    if not all(32 <= ord(c) < 127 for c in s):
        raise TranslationError(f"string constant {s!r} outside printable ASCII")
    return json.dumps(s)


class Tr:
    def __init__(self, param):
        self.param = param
        self.guard = []  # keys known to be in the dict (names of variables), reset when the variable is assigned

    # ---- expressions
    def int_expr(self, e):
        if isinstance(e, ast.Constant) and isinstance(e.value, int) and not isinstance(e.value, bool):
            return f"({e.value} : Int)"
        if isinstance(e, ast.UnaryOp) and isinstance(e.op, ast.USub) and isinstance(e.operand, ast.Constant) and isinstance(e.operand.value, int):
            return f"(-{e.operand.value} : Int)"
        if isinstance(e, ast.Subscript) and _is_self_dict(e.value):
            k = self.key(e.slice)
            if k not in self.guard:
                raise TranslationError(f"read of self.{DICT}[{k}] outside `if {k} in self.{DICT}` (KeyError not modelled): {_src(e)}")
            return f"(dGet used {k})"
        if isinstance(e, ast.BinOp) and isinstance(e.op, ast.Add):
            return f"({self.int_expr(e.left)} + {self.int_expr(e.right)})"
        raise TranslationError(f"unsupported int expression: {_src(e)}")

    def key(self, e):
        if isinstance(e, ast.Name) and e.id == self.param:
            return "name"
        raise TranslationError(f"unsupported dict key: {_src(e)}")

    def str_expr(self, e):
        if isinstance(e, ast.Constant) and isinstance(e.value, str):
            return _lstr(e.value)
        if isinstance(e, ast.Name) and e.id == self.param:
            return "name"
        if isinstance(e, ast.BinOp) and isinstance(e.op, ast.Add):
            return f"({self.str_expr(e.left)} ++ {self.str_expr(e.right)})"
        if isinstance(e, ast.Call) and isinstance(e.func, ast.Name) and e.func.id == "str" and len(e.args) == 1 and not e.keywords:
            return f"(toString {self.int_expr(e.args[0])})"
        raise TranslationError(f"unsupported str expression: {_src(e)}")

    # ---- statements; returns Lean lines (indented by `ind`) ending in the value of the block
    def block(self, stmts, ind):
        if not stmts:
            raise TranslationError("a path through the function ends without `return`")
        s, rest = stmts[0], stmts[1:]
        pad = " " * ind
        if isinstance(s, ast.Return):
            if rest:
                raise TranslationError("statements after return")
            if not (isinstance(s.value, ast.Name) and s.value.id == self.param):
                raise TranslationError(f"unsupported return value: {_src(s)}")
            return [f"{pad}(used, name)"]
        if isinstance(s, ast.Expr) and isinstance(s.value, ast.Constant) and isinstance(s.value.value, str):
            return self.block(rest, ind)  # docstring
        if isinstance(s, ast.If):
            t = s.test
            if (isinstance(t, ast.Compare) and len(t.ops) == 1 and isinstance(t.ops[0], (ast.In, ast.NotIn))
                    and _is_self_dict(t.comparators[0])):
                k = self.key(t.left)
                neg = isinstance(t.ops[0], ast.NotIn)
                saved = list(self.guard)
                self.guard = saved + ([] if neg else [k])
                a = self.block(list(s.body) + rest, ind + 2)
                self.guard = saved + ([k] if neg else [])
                b = self.block(list(s.orelse) + rest, ind + 2)
                self.guard = saved
                cond = f"dHas used {k}" + (" = false" if neg else "")
                return [f"{pad}if {cond} then"] + a + [f"{pad}else"] + b
            raise TranslationError(f"unsupported condition: {_src(t)}")
        if isinstance(s, ast.AugAssign) and isinstance(s.op, ast.Add):
            tg = s.target
            if isinstance(tg, ast.Subscript) and _is_self_dict(tg.value):
                k = self.key(tg.slice)
                if k not in self.guard:
                    raise TranslationError(f"self.{DICT}[{k}] += ... outside `if {k} in self.{DICT}` (KeyError not modelled)")
                line = f"{pad}let used : Used := usedSet used {k} ((dGet used {k}) + {self.int_expr(s.value)})"
                return [line] + self.block(rest, ind)
            if isinstance(tg, ast.Name) and tg.id == self.param:
                line = f"{pad}let name : String := (name ++ {self.str_expr(s.value)})"
                self.guard = [g for g in self.guard if g != "name"]
                return [line] + self.block(rest, ind)
            raise TranslationError(f"unsupported augmented assignment: {_src(s)}")
        if isinstance(s, ast.Assign) and len(s.targets) == 1:
            tg = s.targets[0]
            if isinstance(tg, ast.Subscript) and _is_self_dict(tg.value):
                k = self.key(tg.slice)
                line = f"{pad}let used : Used := usedSet used {k} {self.int_expr(s.value)}"
                saved = list(self.guard)
                self.guard = saved + [k]
                out = [line] + self.block(rest, ind)
                self.guard = saved
                return out
            if isinstance(tg, ast.Name) and tg.id == self.param:
                v = s.value
                if (isinstance(v, ast.Call) and isinstance(v.func, ast.Attribute) and v.func.attr == FN
                        and isinstance(v.func.value, ast.Name) and v.func.value.id == "self"
                        and len(v.args) == 1 and not v.keywords):
                    arg = self.str_expr(v.args[0])
                    lines = [
                        f"{pad}let r := uniqueNameRec fuel used (some {arg})",
                        f"{pad}let used : Used := r.1",
                        f"{pad}let name : String := r.2",
                    ]
                    self.guard = []
                    return lines + self.block(rest, ind)
                line = f"{pad}let name : String := {self.str_expr(v)}"
                self.guard = [g for g in self.guard if g != "name"]
                return [line] + self.block(rest, ind)
        raise TranslationError(f"unsupported statement: {_src(s)}")


def translate(tree_py: Path):
    """-> (lean text or None, info, problems)"""
    info, problems = {}, []
    mod = ast.parse(Path(tree_py).read_text())
    cls = [n for n in mod.body if isinstance(n, ast.ClassDef) and n.name == "TreeBuilder"]
    if len(cls) != 1:
        return None, info, ["class TreeBuilder not found (exactly once) in core/tree.py"]
    fns = {n.name: n for n in cls[0].body if isinstance(n, ast.FunctionDef)}
    # U1: the initial dict
    init = None
    if "__init__" not in fns:
        problems.append("TreeBuilder.__init__ not found")
    else:
        hits = [n for n in ast.walk(fns["__init__"]) if isinstance(n, ast.Assign) and any(_is_self_dict(t) for t in n.targets)]
        if len(hits) != 1 or len(hits[0].targets) != 1 or hits[0] not in fns["__init__"].body:
            problems.append(f"TreeBuilder.__init__: expected exactly one top-level assignment to self.{DICT}")
        else:
            d = hits[0].value
            try:
                if not isinstance(d, ast.Dict) or not all(isinstance(k, ast.Constant) and isinstance(k.value, str) for k in d.keys):
                    raise TranslationError(f"self.{DICT} is not initialised with a {{str: int}} literal: {_src(d)}")
                if len({k.value for k in d.keys}) != len(d.keys):
                    raise TranslationError("repeated key in the dict literal")
                tr0 = Tr("name")
                init = [(_lstr(k.value), tr0.int_expr(v)) for k, v in zip(d.keys, d.values)]
            except TranslationError as e:
                problems.append(f"TreeBuilder.__init__: {e}")
    # every other write to the dict inside the class must be in _unique_name
    for fname, fn in fns.items():
        if fname in ("__init__", FN):
            continue
        if any(_is_self_dict(n) for n in ast.walk(fn)):
            problems.append(f"TreeBuilder.{fname} touches self.{DICT} (only __init__ and {FN} are translated)")
    body = None
    if FN not in fns:
        problems.append(f"TreeBuilder.{FN} not found")
    else:
        fn = fns[FN]
        a = fn.args
        try:
            if [x.arg for x in a.args][:1] != ["self"] or len(a.args) != 2 or a.vararg or a.kwarg or a.kwonlyargs or a.defaults or fn.decorator_list:
                raise TranslationError("signature is not (self, <name>)")
            param = a.args[1].arg
            stmts = [s for s in fn.body if not (isinstance(s, ast.Expr) and isinstance(s.value, ast.Constant))]
            s0 = stmts[0] if stmts else None
            ok = (
                isinstance(s0, ast.If) and not s0.orelse and len(s0.body) == 1
                and isinstance(s0.test, ast.UnaryOp) and isinstance(s0.test.op, ast.Not)
                and isinstance(s0.test.operand, ast.Name) and s0.test.operand.id == param
                and isinstance(s0.body[0], ast.Assign) and len(s0.body[0].targets) == 1
                and isinstance(s0.body[0].targets[0], ast.Name) and s0.body[0].targets[0].id == param
                and isinstance(s0.body[0].value, ast.Constant) and isinstance(s0.body[0].value.value, str)
                and s0.body[0].value.value != ""
            )
            if not ok:
                raise TranslationError(f"first statement is not the idiom `if not {param}: {param} = <non-empty str>` (convention U2): {_src(s0) if s0 else 'empty body'}")
            default = s0.body[0].value.value
            info["default"] = default
            tr = Tr(param)
            body = [f"    let name : String := pyOr name {_lstr(default)}"] + tr.block(stmts[1:], 4)
        except TranslationError as e:
            problems.append(f"TreeBuilder.{FN}: {e}")
    if problems or init is None or body is None:
        return None, info, problems
    info["init"] = [[json.loads(k), v] for k, v in init]
    info["statements"] = len(body)
    lean = (
        "import CogentModel.Model.PhyloNames\n"
        "/- GENERATED by translator/c09_names2lean.py from cogent3/core/tree.py (class TreeBuilder) on every run -- do not edit.\n"
        "   Conventions U1-U5 in the translator's header; dict primitives usedGet / usedSet of Model/PhyloNames.lean. -/\n"
        "set_option linter.unusedVariables false\n"
        "namespace CogentModel.Gen.C09Newick\n"
        "open CogentModel.Phylo (Used usedGet usedSet)\n\n"
        "/-- U2: `x or d` for x : None | str -/\n"
        "def pyOr (x : Option String) (d : String) : String :=\n"
        "  match x with\n  | none => d\n  | some s => if s = \"\" then d else s\n\n"
        "/-- U1: `k in d` -/\ndef dHas (u : Used) (k : String) : Bool := (usedGet u k).isSome\n\n"
        "/-- U1: `d[k]` under the guard `k in d` -/\ndef dGet (u : Used) (k : String) : Int := (usedGet u k).getD 0\n\n"
        "/-- `TreeBuilder.__init__`: self._used_names = {...} -/\n"
        "def usedNamesInit : Used := [" + ", ".join(f"({k}, {v})" for k, v in init) + "]\n\n"
        "/-- `TreeBuilder._unique_name(name)` : (self._used_names afterwards, returned name); U4: fuel-bounded self call -/\n"
        "def uniqueNameRec : Nat → Used → Option String → Used × String\n"
        "  | 0, used, name => (used, name.getD \"\")\n"
        "  | fuel + 1, used, name =>\n" + "\n".join(body) + "\n\n"
        "/-- the outer call (U4) -/\n"
        "def uniqueName (used : Used) (name : Option String) : Used × String :=\n"
        "  uniqueNameRec (used.length + 1) used name\n\n"
        "end CogentModel.Gen.C09Newick\n"
    )
    return lean, info, problems


def write_if_changed(path: Path, text: str) -> bool:
    if path.exists() and path.read_text() == text:
        return False
    path.parent.mkdir(parents=True, exist_ok=True)
    path.write_text(text)
    return True


if __name__ == "__main__":
    import sys

    lean, info, problems = translate(Path(sys.argv[1]))
    print(lean if lean else "")
    print(info, problems, file=sys.stderr)
