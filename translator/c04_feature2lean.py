"""Python -> Lean translator for the pure-integer code of feature projection onto a sequence view (C04).

On every run this re-reads, with ``ast`` only (nothing of cogent3 is imported or executed),

    core/sequence.py       Sequence.get_features, Sequence.make_feature, Sequence.parent_coordinates,
                           Sequence.add_feature (+ the inlined annotation_offset property)             -> namespace GenOld
    core/new_sequence.py   the same names                                                             -> namespace GenNew
    core/location.py       _spans_from_locations, MapABC.from_locations, FeatureMap.nucleic_reversed  -> namespace GenLoc

and emits ``lean/CogentModel/Gen/C04Feature.lean``.  The output is a pure function of the source text, so an
unchanged source gives a byte-identical file.  ``Proofs/C04GenEq.lean`` proves every generated definition equal to the
hand model ``Model/FeatureView.lean`` for ALL arguments: a semantic edit of the python changes the generated text and
breaks a proof obligation.

It is a small statement compiler (continuation passing: "the rest of the function" is duplicated into both arms of an
``if`` that may leave early; an ``if`` that only assigns becomes ``let x := if c then .. else x``) over a typed
environment.  Integer expressions, comparisons (incl. chained), ``and/or/not``, conditional expressions, ``abs/min/max``,
``len(self)`` are translated generically.  Supported beyond that (anything else is a *translation problem*, never
skipped):

  values   Int, Bool, strand strings ``"+"``/``"-"`` (Bool, ``"-"`` = true), a coordinate row (2 ints), an array / list of
           rows, a span (``Span(a, b)`` / ``LostSpan(n)``), a list of spans, a feature map (spans + parent_length),
           the feature dict (fields ``spans`` and ``strand``);
  numpy    ``array(x)``, ``x.tolist()``, ``x[:]`` (copies: value semantics), ``a.min()/a.max()`` of a row or an array,
           ``row[0]/row[1]``, masked assignment ``r[r < e] = f`` (elementwise), ``int - array`` (elementwise),
           ``for i, v in enumerate(a.ravel()): ...; a.ravel()[i] = e`` (elementwise map in row order);
  lists    ``x = []``, ``x.append(e)``, ``x.insert(0, e)``, ``x += [..]``, ``x.reverse()``, ``list(x)``, ``tuple(x)``,
           ``()``, ``len(x)``, ``x[0][0]``, ``x[-1][1]``;
  loops    ``for row in array``, ``for a, b in rows``, ``for s in spans``: the body may ``continue``, ``raise``,
           ``assert`` and append to accumulator lists defined before the loop; every other name assigned in the body
           must be dead after the loop (checked).  The loop becomes ``mapExcept body xs`` + ``flatten`` (the body
           returns what one iteration appends), which is what a sequential loop with first-error-wins does;
  calls    ``self._seq.absolute_position / relative_position`` (C01's model, tied by C01's own translator),
           ``self._seq.is_reversed``, ``self.parent_coordinates()`` (inlined), ``self.make_feature``,
           ``FeatureMap.from_locations``, ``_spans_from_locations``, ``fmap.nucleic_reversed()``, ``FeatureMap(...)``,
           ``cls.from_spans(...)`` (= the constructor, location.py FeatureMap.from_spans), ``Feature(...)`` (result);
  the db loop ``for feature in self.annotation_db.get_features_matching(.., start=a, stop=b, ..)`` splits ``get_features``
           in two definitions: ``queryWindow`` (everything before the loop; result = the ``start=``/``stop=`` keywords)
           and ``featureOnView`` (the loop body for one record, preceded by the backward slice of the statements before
           the loop that the body reads).

Modelling conventions (also in the generated header):
  B1 ``a.min()`` / ``a.max()`` of an EMPTY array is 0 (numpy raises ValueError; the annotation db refuses empty span lists);
  B2 a missing strand (``feature.pop("strand", None)`` is None) reads as ``"+"``;
  B3 numpy views alias their base (``new = coord[:]``); the translation copies.  Sound as long as the base is not read
     after the view is written in the same iteration (checked: a row variable that was copied from is not read after a
     masked assignment to the copy);
  B4 ``Span(a, b)`` asserts ``b - a >= 0`` in its constructor: not modelled (prelude ``MSpan.span``);
  B5 ``if self._annotation_db is None: return None`` at the top of ``get_features`` is not modelled (no db, no features).
"""
from __future__ import annotations

import ast
from pathlib import Path


class TranslationError(Exception):
    pass


LEAN_KEYWORDS = {"at", "from", "end", "then", "else", "if", "fun", "let", "do", "in", "with", "match", "have", "show",
                 "by", "where", "open", "def", "instance", "structure", "class", "namespace", "section", "variable",
                 "theorem", "example", "import", "return", "for", "unless", "mut", "Type", "new", "map", "prefix"}
ERR = {"ValueError": "valueError", "IndexError": "indexError", "AssertionError": "assertionError", "RuntimeError": "runtimeError"}

# types
INT, BOOL, PROP, STRAND, ROW, ROWS, SPAN, SPANS, FMAP, FEATURE, OPT, OPAQUE, FEAT = (
    "Int", "Bool", "Prop", "Strand", "Row", "Rows", "Span", "Spans", "FMap", "Feature", "OptInt", "Opaque", "Feat")


def ln(n):
    return n + "_" if n in LEAN_KEYWORDS else n


def src(node):
    try:
        return ast.unparse(node)
    except Exception:  # noqa: BLE001
        return type(node).__name__


class Env:
    def __init__(self, types=None, feat=None, view="sv"):
        self.types = dict(types or {})
        self.feat = dict(feat or {})   # feature dict fields: name -> (lean expr, type)
        self.view = view
        self.copied_from = {}          # row var -> base var (B3)
        self.written_views = set()
        self.pending = set()           # `x = []` not yet emitted (element type unknown until the first append)

    def copy(self):
        e = Env(self.types, self.feat, self.view)
        e.copied_from = dict(self.copied_from)
        e.written_views = set(self.written_views)
        e.pending = set(self.pending)
        return e


class Fn:
    """compiler for one python function"""

    def __init__(self, unit, fdef, kind):
        self.unit = unit          # Unit: the other functions of the module, for calls
        self.f = fdef
        self.kind = kind
        self.monadic = True
        self.tmp = 0
        self.params = _params(fdef)

    def fresh(self, stem="t"):
        self.tmp += 1
        return f"{stem}{self.tmp}"

    def fail(self, node, why):
        raise TranslationError(f"{self.f.name} l.{getattr(node, 'lineno', '?')}: {why}: `{src(node)[:90]}`")

    # ------------------------------------------------------------------ expressions
    def is_self_seq(self, node, attr=None):
        ok = (isinstance(node, ast.Attribute) and isinstance(node.value, ast.Attribute) and isinstance(node.value.value, ast.Name)
              and node.value.value.id == "self" and node.value.attr == "_seq")
        return ok and (attr is None or node.attr == attr)

    def is_len_self(self, node):
        return (isinstance(node, ast.Call) and isinstance(node.func, ast.Name) and node.func.id == "len" and len(node.args) == 1
                and isinstance(node.args[0], ast.Name) and node.args[0].id == "self")

    def cond(self, node, env):
        """a Prop"""
        t, ty = self.expr(node, env)
        if ty == PROP:
            return t
        if ty == BOOL:
            return f"({t} = true)"
        if ty == INT:
            return f"({t} ≠ 0)"
        self.fail(node, f"truth value of a {ty}")

    def as_bool(self, node, env):
        t, ty = self.expr(node, env)
        if ty == PROP:
            return f"(decide {t})"
        if ty == BOOL:
            return t
        self.fail(node, f"not a boolean ({ty})")

    def expr(self, node, env):
        v = env.view
        if isinstance(node, ast.Constant):
            if isinstance(node.value, bool):
                return ("true" if node.value else "false"), BOOL
            if isinstance(node.value, int):
                return (str(node.value) if node.value >= 0 else f"({node.value})"), INT
            if node.value in ("+", "-"):
                return ("true" if node.value == "-" else "false"), STRAND
            self.fail(node, "constant outside the fragment")
        if isinstance(node, ast.Name):
            if node.id == env.view:
                self.fail(node, "python name clashes with the generated view variable")
            if node.id not in env.types:
                self.fail(node, "unknown name")
            ty = env.types[node.id]
            if ty == ROW and node.id in env.copied_from.values() and any(env.copied_from.get(w) == node.id for w in env.written_views):
                self.fail(node, "B3: the base of a numpy view is read after the view was written")
            return ln(node.id), ty
        if isinstance(node, ast.UnaryOp) and isinstance(node.op, ast.USub):
            t, ty = self.expr(node.operand, env)
            if ty != INT:
                self.fail(node, "negation of a non-int")
            return f"(-{t})", INT
        if isinstance(node, ast.UnaryOp) and isinstance(node.op, ast.Not):
            return f"(¬ {self.cond(node.operand, env)})", PROP
        if isinstance(node, ast.BoolOp):
            # `x or d` on an Optional[int] parameter: python's default idiom
            if isinstance(node.op, ast.Or) and len(node.values) == 2 and isinstance(node.values[0], ast.Name) \
                    and env.types.get(node.values[0].id) == OPT:
                d, dty = self.expr(node.values[1], env)
                if dty != INT:
                    self.fail(node, "default of a non-int")
                return f"(orDefault {ln(node.values[0].id)} {d})", INT
            op = " ∧ " if isinstance(node.op, ast.And) else " ∨ "
            return "(" + op.join(self.cond(x, env) for x in node.values) + ")", PROP
        if isinstance(node, ast.Compare):
            parts = []
            left = node.left
            for op, right in zip(node.ops, node.comparators):
                parts.append(self.compare(left, op, right, env, node))
                left = right
            return (parts[0] if len(parts) == 1 else "(" + " ∧ ".join(parts) + ")"), PROP
        if isinstance(node, ast.IfExp):
            c = self.cond(node.test, env)
            a, ta = self.expr(node.body, env)
            b, tb = self.expr(node.orelse, env)
            if ta == PROP or tb == PROP:
                a, b, ta, tb = self.as_bool(node.body, env), self.as_bool(node.orelse, env), BOOL, BOOL
            if ta != tb:
                self.fail(node, f"branches of different types {ta}/{tb}")
            return f"(if {c} then {a} else {b})", ta
        if isinstance(node, ast.BinOp):
            ops = {ast.Add: "+", ast.Sub: "-", ast.Mult: "*"}
            if type(node.op) not in ops:
                self.fail(node, "operator outside the fragment")
            o = ops[type(node.op)]
            a, ta = self.expr(node.left, env)
            b, tb = self.expr(node.right, env)
            if ta == INT and tb == INT:
                return f"({a} {o} {b})", INT
            if ta == INT and tb == ROWS:   # numpy broadcasting
                return f"({b}.map fun p => ({a} {o} p.1, {a} {o} p.2))", ROWS
            if ta == ROWS and tb == INT:
                return f"({a}.map fun p => (p.1 {o} {b}, p.2 {o} {b}))", ROWS
            self.fail(node, f"arithmetic on {ta}/{tb}")
        if isinstance(node, ast.Tuple) and len(node.elts) == 0:
            return "[]", SPANS
        if isinstance(node, ast.Tuple) and len(node.elts) == 2:
            a, ta = self.expr(node.elts[0], env)
            b, tb = self.expr(node.elts[1], env)
            if ta != INT or tb != INT:
                self.fail(node, f"pair of {ta}/{tb}")
            return f"({a}, {b})", ROW
        if isinstance(node, (ast.ListComp, ast.GeneratorExp)):
            return self.comprehension(node, env)
        if isinstance(node, ast.List):
            if not node.elts:
                return "[]", "EmptyList"
            xs = [self.expr(x, env) for x in node.elts]
            tys = {t for _, t in xs}
            if tys == {SPAN}:
                return "[" + ", ".join(t for t, _ in xs) + "]", SPANS
            if tys == {ROW}:
                return "[" + ", ".join(t for t, _ in xs) + "]", ROWS
            self.fail(node, "list literal outside the fragment")
        if isinstance(node, ast.Subscript):
            return self.subscript(node, env)
        if isinstance(node, ast.Attribute):
            if self.is_self_seq(node, "is_reversed"):
                return f"(isReversed {v})", BOOL
            if self.is_self_seq(node):
                return f"<{node.attr}>", OPAQUE
            if isinstance(node.value, ast.Name) and node.value.id == "self" and node.attr in ("name",):
                return "<name>", OPAQUE
            b, tb = self.expr(node.value, env)
            if tb == FMAP and node.attr == "spans":
                return f"{b}.spans", SPANS
            if tb == FMAP and node.attr == "parent_length":
                return f"{b}.parentLength", INT
            if tb == SPAN and node.attr in ("lost", "start", "end", "length"):
                fn = {"lost": "MSpan.isLost", "start": "MSpan.start", "end": "MSpan.stop", "length": "MSpan.length"}[node.attr]
                return f"({fn} {b})", (BOOL if node.attr == "lost" else INT)
            self.fail(node, f"attribute of a {tb}")
        if isinstance(node, ast.Call):
            return self.call(node, env)
        self.fail(node, "expression outside the fragment")

    def comprehension(self, node, env):
        """`[(f(s, e), g(s, e)) for s, e in rows]` / the same as a generator: an elementwise map over an array of rows"""
        if len(node.generators) != 1:
            self.fail(node, "comprehension with several generators")
        g = node.generators[0]
        if g.ifs or g.is_async:
            self.fail(node, "comprehension with a filter")
        xs, tx = self.expr(g.iter, env)
        if tx != ROWS:
            self.fail(node, f"comprehension over a {tx}")
        e2 = env.copy()
        p = self.fresh("p")
        if isinstance(g.target, ast.Tuple) and len(g.target.elts) == 2 and all(isinstance(x, ast.Name) for x in g.target.elts):
            a, b = (x.id for x in g.target.elts)
            e2.types[a] = INT
            e2.types[b] = INT
            pre = f"let {ln(a)} := {p}.1; let {ln(b)} := {p}.2; "
        elif isinstance(g.target, ast.Name):
            e2.types[g.target.id] = ROW
            pre = f"let {ln(g.target.id)} := {p}; "
        else:
            self.fail(node, "comprehension target outside the fragment")
        t, ty = self.expr(node.elt, e2)
        if ty != ROW:
            self.fail(node, f"comprehension element is a {ty}")
        return f"({xs}.map fun ({p} : Int × Int) => {pre}{t})", ROWS

    def compare(self, left, op, right, env, node):
        a, ta = self.expr(left, env)
        b, tb = self.expr(right, env)
        sym = {ast.Lt: "<", ast.LtE: "≤", ast.Gt: ">", ast.GtE: "≥", ast.Eq: "=", ast.NotEq: "≠"}.get(type(op))
        if sym is None:
            self.fail(node, "comparison operator outside the fragment")
        if ta == INT and tb == INT:
            return f"({a} {sym} {b})"
        if sym in ("=", "≠") and {ta, tb} <= {BOOL, STRAND, PROP}:
            if ta == PROP:
                a = f"(decide {a})"
            if tb == PROP:
                b = f"(decide {b})"
            return f"({a} {sym} {b})"
        self.fail(node, f"comparison of {ta} with {tb}")

    def subscript(self, node, env):
        # x[:] copy
        if isinstance(node.slice, ast.Slice) and node.slice.lower is None and node.slice.upper is None and node.slice.step is None:
            return self.expr(node.value, env)
        idx = node.slice
        k = None
        if isinstance(idx, ast.Constant) and isinstance(idx.value, int):
            k = idx.value
        elif isinstance(idx, ast.UnaryOp) and isinstance(idx.op, ast.USub) and isinstance(idx.operand, ast.Constant):
            k = -idx.operand.value
        if k is None:
            self.fail(node, "subscript outside the fragment")
        # rows[0][j] / rows[-1][j]
        if isinstance(node.value, ast.Subscript):
            inner = node.value
            ik = inner.slice
            ikv = ik.value if isinstance(ik, ast.Constant) else (-ik.operand.value if isinstance(ik, ast.UnaryOp) and isinstance(ik.op, ast.USub) and isinstance(ik.operand, ast.Constant) else None)
            b, tb = self.expr(inner.value, env)
            if tb == ROWS and ikv in (0, -1) and k in (0, 1):
                sel = "headD" if ikv == 0 else "getLastD"
                return f"({b}.{sel} (0, 0)).{k + 1}", INT
            self.fail(node, "double subscript outside the fragment")
        b, tb = self.expr(node.value, env)
        if tb == ROW and k in (0, 1):
            return f"{b}.{k + 1}", INT
        self.fail(node, f"subscript of a {tb}")

    def kwargs(self, node, names, env_fail=True):
        """positional + keyword arguments by name"""
        out = {}
        for n, a in zip(names, node.args):
            out[n] = a
        for kw in node.keywords:
            if kw.arg is None:
                out["**"] = kw.value
            else:
                out[kw.arg] = kw.value
        return out

    def call(self, node, env):
        v = env.view
        f = node.func
        if self.is_len_self(node):
            return f"(len {v})", INT
        if isinstance(f, ast.Name):
            if f.id in ("abs",) and len(node.args) == 1:
                a, ta = self.expr(node.args[0], env)
                if ta != INT:
                    self.fail(node, "abs of a non-int")
                return f"(pyabs {a})", INT
            if f.id in ("min", "max") and len(node.args) == 2 and not node.keywords:
                a, ta = self.expr(node.args[0], env)
                b, tb = self.expr(node.args[1], env)
                if ta != INT or tb != INT:
                    self.fail(node, "min/max of non-ints")
                return f"({f.id} {a} {b})", INT
            if f.id == "len" and len(node.args) == 1:
                a, ta = self.expr(node.args[0], env)
                if ta in (ROWS, SPANS):
                    return f"({a}.length : Int)", INT
                self.fail(node, f"len of a {ta}")
            if f.id in ("array", "list", "tuple", "int") and len(node.args) == 1 and all(k.arg == "dtype" for k in node.keywords):
                return self.expr(node.args[0], env)
            if f.id == "sorted" and len(node.args) == 1 and not node.keywords:
                a, ta = self.expr(node.args[0], env)
                if ta != ROWS:
                    self.fail(node, f"sorted of a {ta}")
                return f"(sortRows {a})", ROWS
            if f.id == "dict" and len(node.args) == 1:
                a, ta = self.expr(node.args[0], env)
                if ta == FEATURE:
                    return a, ta
            if f.id == "Span":
                kw = self.kwargs(node, ["start", "end"])
                if set(kw) != {"start", "end"}:
                    self.fail(node, "Span(...) with other arguments")
                a, ta = self.expr(kw["start"], env)
                b, tb = self.expr(kw["end"], env)
                if ta != INT or tb != INT:
                    self.fail(node, "Span of non-ints")
                return f"(MSpan.span {a} {b})", SPAN
            if f.id == "LostSpan" and len(node.args) == 1 and not node.keywords:
                a, ta = self.expr(node.args[0], env)
                if ta != INT:
                    self.fail(node, "LostSpan of a non-int")
                return f"(MSpan.lost {a})", SPAN
            if f.id == "FeatureMap":
                return self.fmap_ctor(node, env)
        if isinstance(f, ast.Attribute):
            # feature.pop("spans"/"strand", ...)
            if isinstance(f.value, ast.Name) and env.types.get(f.value.id) == FEATURE and f.attr == "pop" and node.args \
                    and isinstance(node.args[0], ast.Constant) and node.args[0].value in ("spans", "strand"):
                key = node.args[0].value
                if key not in env.feat:
                    self.fail(node, f"feature[{key!r}] read after it was popped")
                return env.feat[key]
            if f.attr in ("min", "max") and not node.args:
                b, tb = self.expr(f.value, env)
                if tb == ROW:
                    return f"({f.attr} {b}.1 {b}.2)", INT
                if tb == ROWS:
                    return f"({f.attr}OfSpans {b})", INT
                self.fail(node, f".{f.attr}() of a {tb}")
            if f.attr == "tolist" and not node.args:
                return self.expr(f.value, env)
            if f.attr == "from_spans" and isinstance(f.value, ast.Name) and f.value.id == "cls":
                return self.fmap_ctor(node, env)
        self.fail(node, "call outside the fragment")

    def fmap_ctor(self, node, env):
        kw = self.kwargs(node, ["spans", "parent_length"])
        kw.pop("**", None)
        if set(kw) != {"spans", "parent_length"}:
            self.fail(node, "feature map constructor with other arguments")
        a, ta = self.expr(kw["spans"], env)
        b, tb = self.expr(kw["parent_length"], env)
        if ta not in (SPANS,) or tb != INT:
            self.fail(node, f"feature map of {ta}/{tb}")
        return f"(FMapG.mk {a} {b})", FMAP

    # ------------------------------------------------------------------ monadic calls
    def monadic_attr(self, node, env, depth=0):
        """`self._seq.parent_start` / `parent_stop` (C01's model; they assert), or a property of self whose body is a
        single `return <such an expression>` (inlined)"""
        if not isinstance(node, ast.Attribute):
            return None
        if self.is_self_seq(node) and node.attr in ("parent_start", "parent_stop"):
            fn = "parentStart" if node.attr == "parent_start" else "parentStop"
            return f"liftErr ({fn} {env.view})", INT
        if isinstance(node.value, ast.Name) and node.value.id == "self" and depth < 3:
            callee = self.unit.method(node.attr)
            if callee is None or not any(isinstance(d, ast.Name) and d.id == "property" for d in callee.decorator_list):
                return None
            body = [x for x in callee.body if not (isinstance(x, ast.Expr) and isinstance(x.value, ast.Constant))]
            if len(body) != 1 or not isinstance(body[0], ast.Return) or body[0].value is None:
                self.fail(node, f"property {node.attr} is not a single return")
            return self.monadic_attr(body[0].value, env, depth + 1)
        return None

    def monadic_call(self, node, env):
        """(lean text of an `Except FErr T`, T) or None"""
        if isinstance(node, ast.Attribute):
            return self.monadic_attr(node, env)
        if not isinstance(node, ast.Call):
            return None
        f = node.func
        v = env.view
        if isinstance(f, ast.Attribute) and self.is_self_seq(f) and f.attr in ("absolute_position", "relative_position"):
            flagname = "include_boundary" if f.attr == "absolute_position" else "stop"
            kw = self.kwargs(node, ["x", flagname])
            if not set(kw) <= {"x", flagname} or "x" not in kw:
                self.fail(node, "arguments outside the fragment")
            x, tx = self.expr(kw["x"], env)
            if tx != INT:
                self.fail(node, "position of a non-int")
            flag = self.as_bool(kw[flagname], env) if flagname in kw else "false"
            fn = "absolutePosition" if f.attr == "absolute_position" else "relativePosition"
            return f"liftErr ({fn} {v} {x} {flag})", INT
        if isinstance(f, ast.Attribute) and f.attr == "from_locations" and isinstance(f.value, ast.Name) and f.value.id == "FeatureMap":
            kw = self.kwargs(node, ["locations", "parent_length"])
            if set(kw) != {"locations", "parent_length"}:
                self.fail(node, "from_locations with other arguments")
            a, ta = self.expr(kw["locations"], env)
            b, tb = self.expr(kw["parent_length"], env)
            if ta != ROWS or tb != INT:
                self.fail(node, f"from_locations of {ta}/{tb}")
            return f"GenLoc.fromLocations {a} {b}", FMAP
        if isinstance(f, ast.Name) and f.id == "_spans_from_locations":
            kw = self.kwargs(node, ["locations", "parent_length"])
            if set(kw) != {"locations", "parent_length"}:
                self.fail(node, "_spans_from_locations with other arguments")
            a, ta = self.expr(kw["locations"], env)
            b, tb = self.expr(kw["parent_length"], env)
            if ta != ROWS or tb != INT:
                self.fail(node, f"_spans_from_locations of {ta}/{tb}")
            return f"spansFromLocations {a} {b}", SPANS
        if isinstance(f, ast.Attribute) and f.attr == "nucleic_reversed" and not node.args and not node.keywords:
            b, tb = self.expr(f.value, env)
            if tb != FMAP:
                self.fail(node, f"nucleic_reversed of a {tb}")
            return f"GenLoc.nucleicReversed {b}", FMAP
        if isinstance(f, ast.Attribute) and f.attr == "make_feature" and isinstance(f.value, ast.Name) and f.value.id == "self":
            if len(node.args) != 1 or node.keywords:
                self.fail(node, "make_feature with other arguments")
            a, ta = self.expr(node.args[0], env)
            if ta != FEATURE or set(env.feat) != {"spans", "strand"}:
                self.fail(node, "make_feature of an incomplete feature dict")
            return f"makeFeature {v} {env.feat['strand'][0]} {env.feat['spans'][0]}", FEAT
        if isinstance(f, ast.Name) and f.id == "Feature":
            kw = self.kwargs(node, [])
            if "map" not in kw or "**" not in kw:
                self.fail(node, "Feature(...) without map= / **feature")
            m, tm = self.expr(kw["map"], env)
            if tm != FMAP or "strand" not in env.feat:
                self.fail(node, "Feature(...) of an incomplete feature")
            return f".ok {{ spans := {m}.spans, reversed := {env.feat['strand'][0]} }}", FEAT
        return None

    # ------------------------------------------------------------------ statements
    def simple(self, stmts):
        """only assignments / list updates / nested simple ifs: no exits, no monadic calls, no loops"""
        for s in stmts:
            for n in ast.walk(s):
                if isinstance(n, (ast.Return, ast.Raise, ast.Assert, ast.Continue, ast.Break, ast.For, ast.While, ast.Yield, ast.Expr)) \
                        and not (isinstance(n, ast.Expr) and isinstance(n.value, ast.Call)):
                    return False
                if isinstance(n, ast.Call) and self._is_monadic_syntax(n):
                    return False
        return True

    def _is_monadic_syntax(self, n):
        f = n.func
        if isinstance(f, ast.Attribute) and f.attr in ("absolute_position", "relative_position", "from_locations", "nucleic_reversed", "make_feature"):
            return True
        return isinstance(f, ast.Name) and f.id in ("_spans_from_locations", "Feature")

    def assigned(self, stmts):
        out = []
        for s in stmts:
            for n in ast.walk(s):
                names = []
                if isinstance(n, ast.Assign):
                    for t in n.targets:
                        if isinstance(t, ast.Subscript):
                            if isinstance(t.value, ast.Name):
                                names.append(t.value.id)
                            continue
                        for x in ast.walk(t):
                            if isinstance(x, ast.Name):
                                names.append(x.id)
                elif isinstance(n, ast.AugAssign) and isinstance(n.target, ast.Name):
                    names.append(n.target.id)
                elif isinstance(n, ast.Expr) and isinstance(n.value, ast.Call) and isinstance(n.value.func, ast.Attribute) \
                        and n.value.func.attr in ("append", "insert", "reverse") and isinstance(n.value.func.value, ast.Name):
                    names.append(n.value.func.value.id)
                elif isinstance(n, ast.For):
                    for x in ast.walk(n.target):
                        if isinstance(x, ast.Name):
                            names.append(x.id)
                for nm in names:
                    if nm not in out:
                        out.append(nm)
        return out

    def block(self, stmts, env, k, ind):
        """lean text for `stmts` followed by the continuation k(env)"""
        if not stmts:
            return k(env)
        s, rest = stmts[0], stmts[1:]
        pad = "  " * ind
        nxt = lambda e: self.block(rest, e, k, ind)  # noqa: E731
        if isinstance(s, ast.Expr) and isinstance(s.value, ast.Constant) and isinstance(s.value.value, str):
            return nxt(env)
        if isinstance(s, ast.Pass):
            return nxt(env)
        if isinstance(s, ast.Assign) and len(s.targets) == 1:
            return self.assign(s, s.targets[0], s.value, env, nxt, ind)
        if isinstance(s, ast.AugAssign) and isinstance(s.target, ast.Name):
            op = {ast.Add: ast.Add}.get(type(s.op))
            if op is None:
                self.fail(s, "augmented assignment outside the fragment")
            new = ast.BinOp(left=ast.Name(id=s.target.id, ctx=ast.Load()), op=ast.Add(), right=s.value)
            ast.copy_location(new, s)
            ty = env.types.get(s.target.id)
            if ty in (SPANS, ROWS, "EmptyList"):
                b, tb = self.expr(s.value, env)
                if tb not in (SPANS, ROWS):
                    self.fail(s, f"+= of a {tb}")
                e2 = env.copy()
                e2.types[s.target.id] = tb
                if s.target.id in env.pending:
                    e2.pending.discard(s.target.id)
                    return f"{pad}let {ln(s.target.id)} := {b}\n" + nxt(e2)
                return f"{pad}let {ln(s.target.id)} := {ln(s.target.id)} ++ {b}\n" + nxt(e2)
            return self.assign(s, s.target, new, env, nxt, ind)
        if isinstance(s, ast.Expr) and isinstance(s.value, ast.Call):
            return self.expr_stmt(s, env, nxt, ind)
        if isinstance(s, ast.If):
            return self.if_stmt(s, rest, env, k, ind)
        if isinstance(s, ast.For):
            return self.for_stmt(s, rest, env, k, ind)
        if isinstance(s, ast.Raise):
            exc = s.exc
            name = exc.func.id if isinstance(exc, ast.Call) and isinstance(exc.func, ast.Name) else exc.id if isinstance(exc, ast.Name) else None
            if name not in ERR:
                self.fail(s, "raise of an exception outside the fragment")
            return f"{pad}.error .{ERR[name]}\n"
        if isinstance(s, ast.Assert):
            c = self.cond(s.test, env)
            return f"{pad}if ¬ {c} then .error .assertionError else\n" + nxt(env)
        if isinstance(s, ast.Continue):
            return self.k_continue(env, ind)
        if isinstance(s, ast.Return):
            return self.ret(s, s.value, env, ind)
        self.fail(s, "statement outside the fragment")

    def bind(self, name, text, ty, env, nxt, ind, monadic=False):
        pad = "  " * ind
        e2 = env.copy()
        e2.types[name] = ty
        e2.copied_from.pop(name, None)
        e2.written_views.discard(name)
        e2.pending.discard(name)
        if ty == "EmptyList":
            e2.pending.add(name)
            return nxt(e2)
        if ty == FEATURE:
            return nxt(e2)
        if monadic:
            return f"{pad}match {text} with\n{pad}| .error e => .error e\n{pad}| .ok {ln(name)} =>\n" + nxt(e2)
        return f"{pad}let {ln(name)} := {text}\n" + nxt(e2)

    def assign(self, s, target, value, env, nxt, ind):
        pad = "  " * ind
        # feature["spans"] = ..., feature["strand"] = ...
        if isinstance(target, ast.Subscript) and isinstance(target.value, ast.Name) and env.types.get(target.value.id) == FEATURE \
                and isinstance(target.slice, ast.Constant) and target.slice.value in ("spans", "strand"):
            key = target.slice.value
            t, ty = self.expr(value, env)
            want = ROWS if key == "spans" else STRAND
            if ty == BOOL and want == STRAND:
                ty = STRAND
            if ty != want:
                self.fail(s, f"feature[{key!r}] set to a {ty}")
            nm = self.fresh("f" + key)
            e2 = env.copy()
            e2.feat[key] = (nm, ty)
            return f"{pad}let {nm} := {t}\n" + nxt(e2)
        # masked assignment r[r < e] = f
        if isinstance(target, ast.Subscript) and isinstance(target.value, ast.Name) and env.types.get(target.value.id) == ROW \
                and isinstance(target.slice, ast.Compare) and len(target.slice.ops) == 1 \
                and isinstance(target.slice.left, ast.Name) and target.slice.left.id == target.value.id:
            r = target.value.id
            sym = {ast.Lt: "<", ast.LtE: "≤", ast.Gt: ">", ast.GtE: "≥", ast.Eq: "=", ast.NotEq: "≠"}.get(type(target.slice.ops[0]))
            e, te = self.expr(target.slice.comparators[0], env)
            fv, tf = self.expr(value, env)
            if sym is None or te != INT or tf != INT:
                self.fail(s, "masked assignment outside the fragment")
            e2 = env.copy()
            e2.written_views.add(r)
            R = ln(r)
            return f"{pad}let {R} := (if {R}.1 {sym} {e} then {fv} else {R}.1, if {R}.2 {sym} {e} then {fv} else {R}.2)\n" + nxt(e2)
        if isinstance(target, ast.Tuple):
            return self.tuple_assign(s, target, value, env, nxt, ind)
        if not isinstance(target, ast.Name):
            self.fail(s, "assignment target outside the fragment")
        name = target.id
        # feature_data = FeatureDataType(seqid=self.name, **{n: v for n, v in locals().items() if n not in (...)})
        if isinstance(value, ast.Call) and isinstance(value.func, ast.Name) and value.func.id == "FeatureDataType":
            star = [k.value for k in value.keywords if k.arg is None]
            ok = (not value.args and len(star) == 1 and isinstance(star[0], ast.DictComp)
                  and ast.unparse(star[0].generators[0].iter) == "locals().items()"
                  and isinstance(star[0].key, ast.Name) and isinstance(star[0].value, ast.Name))
            if ok:
                g = star[0].generators[0]
                tn = [x.id for x in g.target.elts] if isinstance(g.target, ast.Tuple) else []
                ok = tn == [star[0].key.id, star[0].value.id]
                excluded = set()
                for cnd in g.ifs:
                    if (isinstance(cnd, ast.Compare) and len(cnd.ops) == 1 and isinstance(cnd.ops[0], ast.NotIn)
                            and isinstance(cnd.left, ast.Name) and cnd.left.id == star[0].key.id
                            and isinstance(cnd.comparators[0], (ast.Tuple, ast.List, ast.Set))
                            and all(isinstance(x, ast.Constant) for x in cnd.comparators[0].elts)):
                        excluded |= {x.value for x in cnd.comparators[0].elts}
                    else:
                        ok = False
            if not ok:
                self.fail(s, "FeatureDataType(...) not built from locals()")
            if {"spans", "strand"} & excluded or env.types.get("spans") != ROWS or env.types.get("strand") != STRAND:
                self.fail(s, "the feature dict does not take `spans` / `strand` from the parameters")
            if any(k.arg in ("spans", "strand") for k in value.keywords):
                self.fail(s, "the feature dict overrides spans / strand")
            if set(env.types) - set(self.params):
                self.fail(s, "locals() read after other names were assigned")
            e2 = env.copy()
            e2.types[name] = FEATURE
            e2.feat = {"spans": (ln("spans"), ROWS), "strand": (ln("strand"), STRAND)}
            return nxt(e2)
        m = self.monadic_call(value, env)
        if m is not None:
            return self.bind(name, m[0], m[1], env, nxt, ind, monadic=True)
        # `x == "-"` on the popped strand: the Bool itself
        t, ty = self.expr(value, env)
        if ty == PROP:
            t, ty = f"(decide {t})", BOOL
        if ty == OPAQUE:
            e2 = env.copy()
            e2.types[name] = OPAQUE
            return nxt(e2)
        if isinstance(value, ast.Subscript) and isinstance(value.value, ast.Name) and isinstance(value.slice, ast.Slice) and ty == ROW:
            base = value.value.id

            def nxt2(e):
                e.copied_from[name] = base
                return nxt(e)
            return self.bind(name, t, ty, env, nxt2, ind)
        return self.bind(name, t, ty, env, nxt, ind)

    def tuple_assign(self, s, target, value, env, nxt, ind):
        pad = "  " * ind
        names = []
        for t in target.elts:
            if isinstance(t, ast.Starred):
                names.append(None)
            elif isinstance(t, ast.Name):
                names.append(t.id)
            else:
                self.fail(s, "tuple target outside the fragment")
        # (a, *_, z) = self.parent_coordinates()
        if isinstance(value, ast.Call) and isinstance(value.func, ast.Attribute) and isinstance(value.func.value, ast.Name) \
                and value.func.value.id == "self" and not value.args and not value.keywords:
            callee = self.unit.method(value.func.attr)
            if callee is None:
                self.fail(s, "call of an unknown method")
            body = [x for x in callee.body]
            if not body or not isinstance(body[-1], ast.Return) or not isinstance(body[-1].value, ast.Tuple):
                self.fail(s, f"{callee.name} does not end in a tuple return")
            elts = body[-1].value.elts
            if any(n is None for n in names):
                i = names.index(None)
                head, tail = names[:i], names[i + 1:]
                pairs = list(zip(head, elts[: len(head)])) + (list(zip(tail, elts[-len(tail):])) if tail else [])
            else:
                if len(names) != len(elts):
                    self.fail(s, "tuple sizes differ")
                pairs = list(zip(names, elts))

            def after(e):
                txt = ""
                e2 = e.copy()
                for nm, el in pairs:
                    t, ty = self.expr(el, e)
                    if ty == OPAQUE:
                        e2.types[nm] = OPAQUE
                        continue
                    if ty == PROP:
                        t, ty = f"(decide {t})", BOOL
                    txt += f"{pad}let {ln(nm)} := {t}\n"
                    e2.types[nm] = ty
                return txt + nxt(e2)

            sub = Fn(self.unit, callee, "inline")
            sub.tmp = self.tmp
            sub.k_ret = None
            return sub.block(body[:-1], env, after, ind)
        # a, b = (x, y) if c else (y, x)   |   a, b = y, x
        def comps(v):
            if isinstance(v, ast.Tuple) and len(v.elts) == len(names):
                return [self.expr(x, env) for x in v.elts]
            if isinstance(v, ast.IfExp):
                c = self.cond(v.test, env)
                a, b = comps(v.body), comps(v.orelse)
                out = []
                for (x, tx), (y, ty) in zip(a, b):
                    if tx != ty:
                        self.fail(s, "branches of different types")
                    out.append((f"(if {c} then {x} else {y})", tx))
                return out
            self.fail(s, "tuple value outside the fragment")

        cs = comps(value)
        tmps = [self.fresh() for _ in names]
        txt = "".join(f"{pad}let {t} := {c}\n" for t, (c, _) in zip(tmps, cs))
        e2 = env.copy()
        for nm, t, (_, ty) in zip(names, tmps, cs):
            txt += f"{pad}let {ln(nm)} := {t}\n"
            e2.types[nm] = ty
        return txt + nxt(e2)

    def expr_stmt(self, s, env, nxt, ind):
        pad = "  " * ind
        c = s.value
        f = c.func
        if isinstance(f, ast.Attribute) and isinstance(f.value, ast.Name):
            base = f.value.id
            ty = env.types.get(base)
            if ty == FEATURE and f.attr == "pop" and c.args and isinstance(c.args[0], ast.Constant) and c.args[0].value in ("on_alignment", "seqid"):
                return nxt(env)   # dict plumbing of keys that carry no coordinates
            if ty == FEATURE and f.attr == "pop" and c.args and isinstance(c.args[0], ast.Constant) and c.args[0].value in ("parent_id",):
                return nxt(env)
            if ty in (SPANS, ROWS, "EmptyList") and f.attr == "append" and len(c.args) == 1:
                t, te = self.expr(c.args[0], env)
                lt = {SPAN: SPANS, ROW: ROWS}.get(te)
                if lt is None or (ty != "EmptyList" and ty != lt):
                    self.fail(s, f"append of a {te} to a {ty}")
                e2 = env.copy()
                e2.types[base] = lt
                if base in env.pending:
                    e2.pending.discard(base)
                    return f"{pad}let {ln(base)} := [{t}]\n" + nxt(e2)
                return f"{pad}let {ln(base)} := {ln(base)} ++ [{t}]\n" + nxt(e2)
            if ty in (SPANS,) and f.attr == "insert" and len(c.args) == 2 and isinstance(c.args[0], ast.Constant) and c.args[0].value == 0:
                t, te = self.expr(c.args[1], env)
                if te != SPAN:
                    self.fail(s, f"insert of a {te}")
                return f"{pad}let {ln(base)} := {t} :: {ln(base)}\n" + nxt(env)
            if ty in (SPANS, ROWS) and f.attr == "reverse" and not c.args:
                return f"{pad}let {ln(base)} := {ln(base)}.reverse\n" + nxt(env)
        # self.annotation_db.add_feature(**feature_data): the record written to the db is part of the result
        if isinstance(f, ast.Attribute) and f.attr == "add_feature" and ast.unparse(f.value) == "self.annotation_db":
            star = [k.value for k in c.keywords if k.arg is None]
            if c.args or len(c.keywords) != 1 or len(star) != 1 or not isinstance(star[0], ast.Name) \
                    or env.types.get(star[0].id) != FEATURE or set(env.feat) != {"spans", "strand"}:
                self.fail(s, "db write outside the fragment")
            if env.types.get("dbRecord") is not None:
                self.fail(s, "two db writes on one path")
            sub_ = nxt
            e2 = env.copy()
            e2.types["dbRecord"] = "DbRecord"
            return f"{pad}let dbRecord := ({env.feat['spans'][0]}, {env.feat['strand'][0]})\n" + sub_(e2)
        self.fail(s, "expression statement outside the fragment")

    def if_stmt(self, s, rest, env, k, ind):
        pad = "  " * ind
        c = self.cond(s.test, env)
        if self.simple(s.body) and self.simple(s.orelse):
            cand = [n for n in self.assigned(s.body + s.orelse)]
            ends = []

            def probe(stmts):
                def fin(e):
                    ends.append(e)
                    return ""
                self.block(stmts, env, fin, ind + 1)

            t0 = self.tmp
            probe(s.body)
            probe(s.orelse)
            self.tmp = t0
            ea, eb = ends
            # names merged after the `if`: defined with one type on both paths; the others must be dead afterwards
            # (they become unknown names, so a later read is a translation problem)
            names, dropped = [], []
            for n in cand:
                ta, tb = ea.types.get(n), eb.types.get(n)
                if ta is not None and ta == tb and ta not in ("EmptyList", FEATURE, OPAQUE) and n not in ea.pending and n not in eb.pending:
                    names.append(n)
                else:
                    dropped.append(n)
            feat_changed = set(ea.feat.items()) != set(env.feat.items()) or set(eb.feat.items()) != set(env.feat.items())
            if not names and not feat_changed:
                self.fail(s, "a conditional that assigns nothing that lives on")
            if feat_changed:
                # feature fields set inside a conditional: the rest of the function is duplicated into both arms
                a = self.block(s.body + rest, env, k, ind + 1)
                b = self.block(s.orelse + rest, env, k, ind + 1)
                return f"{pad}if {c} then (\n" + a + f"{pad}) else (\n" + b + f"{pad})\n"

            def arm(stmts):
                def fin(e):
                    return "  " * (ind + 2) + ("(" + ", ".join(ln(n) for n in names) + ")" if len(names) != 1 else ln(names[0])) + "\n"
                return self.block(stmts, env, fin, ind + 2)

            a = arm(s.body)
            b = arm(s.orelse)
            e2 = env.copy()
            for n in names:
                e2.types[n] = ea.types[n]
                e2.copied_from.pop(n, None)
            for n in dropped:
                e2.types.pop(n, None)
            e2.written_views |= ea.written_views | eb.written_views
            if len(names) == 1:
                head = f"{pad}let {ln(names[0])} :=\n"
                tail = ""
            else:
                t = self.fresh()
                head = f"{pad}let {t} :=\n"
                tail = "".join(f"{pad}let {ln(n)} := {t}" + ".2" * i + (".1" if i < len(names) - 1 else "") + "\n" for i, n in enumerate(names))
            return (head + f"{pad}  if {c} then (\n" + a + f"{pad}  ) else (\n" + b + f"{pad}  )\n" + tail + self.block(rest, e2, k, ind))
        # general case: the rest of the function is duplicated into both arms
        a = self.block(s.body + rest, env, k, ind + 1)
        b = self.block(s.orelse + rest, env, k, ind + 1)
        return f"{pad}if {c} then (\n" + a + f"{pad}) else (\n" + b + f"{pad})\n"

    # ---- loops
    def for_stmt(self, s, rest, env, k, ind):
        pad = "  " * ind
        if s.orelse:
            self.fail(s, "for/else")
        it = s.iter
        # the db loop of get_features
        if isinstance(it, ast.Call) and isinstance(it.func, ast.Attribute) and it.func.attr == "get_features_matching":
            return self.db_loop(s, rest, env, ind)
        # elementwise in-place map:  for i, v in enumerate(a.ravel()): ...; a.ravel()[i] = e
        if isinstance(it, ast.Call) and isinstance(it.func, ast.Name) and it.func.id == "enumerate":
            return self.ravel_loop(s, rest, env, k, ind)
        # for key in ("on_alignment", "parent_id"): feature.pop(key)  -- dict plumbing of keys that carry no coordinates
        if isinstance(it, (ast.Tuple, ast.List)) and it.elts and all(isinstance(x, ast.Constant) and isinstance(x.value, str) for x in it.elts) \
                and isinstance(s.target, ast.Name) and len(s.body) == 1 and isinstance(s.body[0], ast.Expr):
            c = s.body[0].value
            ok = (isinstance(c, ast.Call) and isinstance(c.func, ast.Attribute) and c.func.attr == "pop" and isinstance(c.func.value, ast.Name)
                  and env.types.get(c.func.value.id) == FEATURE and len(c.args) == 1 and isinstance(c.args[0], ast.Name)
                  and c.args[0].id == s.target.id and not c.keywords)
            if not ok or {x.value for x in it.elts} & {"spans", "strand"}:
                self.fail(s, "loop over keys outside the fragment")
            return self.block(rest, env, k, ind)
        xs, tx = self.expr(it, env)
        e_body = env.copy()
        if tx == ROWS and isinstance(s.target, ast.Name):
            var = ln(s.target.id)
            e_body.types[s.target.id] = ROW
            pre = ""
        elif tx == ROWS and isinstance(s.target, ast.Tuple) and len(s.target.elts) == 2 and all(isinstance(x, ast.Name) for x in s.target.elts):
            var = self.fresh("p")
            a, b = (x.id for x in s.target.elts)
            e_body.types[a] = INT
            e_body.types[b] = INT
            pre = f"{pad}    let {ln(a)} := {var}.1\n{pad}    let {ln(b)} := {var}.2\n"
        elif tx == SPANS and isinstance(s.target, ast.Name):
            var = ln(s.target.id)
            e_body.types[s.target.id] = SPAN
            pre = ""
        else:
            self.fail(s, f"loop over a {tx}")
        # accumulators: lists defined before the loop that the body appends to
        body_assigned = self.assigned(s.body)
        accs = [n for n in body_assigned if env.types.get(n) in (SPANS, ROWS, "EmptyList")]
        if len(accs) != 1:
            self.fail(s, f"loop with {len(accs)} accumulator lists")
        acc = accs[0]
        for n in ast.walk(ast.Module(body=s.body, type_ignores=[])):
            if isinstance(n, ast.Name) and n.id == acc and isinstance(n.ctx, ast.Load):
                # only acc.append(..) / acc += [..]
                pass
        self.check_acc_only_appended(s, acc)
        # everything else assigned in the body must be dead after the loop
        loop_locals = [n for n in body_assigned if n != acc] + [x.id for x in ast.walk(s.target) if isinstance(x, ast.Name)]
        for st in rest:
            for n in ast.walk(st):
                if isinstance(n, ast.Name) and isinstance(n.ctx, ast.Load) and n.id in loop_locals:
                    # fine if it is re-assigned before being read: keep it simple and refuse
                    if not self.reassigned_before(rest, n.id, n):
                        self.fail(s, f"`{n.id}` assigned in the loop body is read after the loop")
        e_body.types[acc] = "EmptyList"
        e_body.pending.discard(acc)
        fn = Fn(self.unit, self.f, "loop")
        fn.tmp = self.tmp
        fn.acc = acc
        fn.k_continue = lambda e, i: "  " * i + f".ok {ln(acc)}\n"
        fn.k_ret = None
        body_txt = f"{pad}    let {ln(acc)} : List _ := []\n" + pre + fn.block(s.body, e_body, lambda e: fn.k_continue(e, ind + 2), ind + 2)
        self.tmp = fn.tmp
        acc_ty = fn.acc_type or env.types[acc]
        if acc_ty == "EmptyList":
            self.fail(s, "the loop never appends")
        el = "MSpan" if acc_ty == SPANS else "Int × Int"
        body_txt = body_txt.replace("List _ := []", f"List ({el}) := []", 1)
        ds = self.fresh("ds")
        e2 = env.copy()
        e2.types[acc] = acc_ty
        xt = "Int × Int" if tx == ROWS else "MSpan"
        e2.pending.discard(acc)
        upd = f"{ds}.flatten" if acc in env.pending else f"{ln(acc)} ++ {ds}.flatten"
        return (f"{pad}match mapExcept (fun ({var} : {xt}) => (show Except FErr (List ({el})) from\n" + body_txt + f"{pad}    )) {xs} with\n"
                f"{pad}| .error e => .error e\n{pad}| .ok {ds} =>\n{pad}let {ln(acc)} := {upd}\n" + self.block(rest, e2, k, ind))

    acc_type = None
    acc = None

    def reassigned_before(self, stmts, name, use):
        for st in stmts:
            if any(n is use for n in ast.walk(st)):
                return False
            if isinstance(st, ast.Assign) and any(isinstance(t, ast.Name) and t.id == name for t in st.targets):
                return not any(isinstance(n, ast.Name) and n.id == name and isinstance(n.ctx, ast.Load) for n in ast.walk(st.value))
        return False

    def check_acc_only_appended(self, s, acc):
        ok_nodes = set()
        for n in ast.walk(ast.Module(body=s.body, type_ignores=[])):
            if isinstance(n, ast.Expr) and isinstance(n.value, ast.Call) and isinstance(n.value.func, ast.Attribute) \
                    and n.value.func.attr == "append" and isinstance(n.value.func.value, ast.Name) and n.value.func.value.id == acc:
                ok_nodes.add(id(n.value.func.value))
            if isinstance(n, ast.AugAssign) and isinstance(n.target, ast.Name) and n.target.id == acc and isinstance(n.op, ast.Add):
                ok_nodes.add(id(n.target))
        for n in ast.walk(ast.Module(body=s.body, type_ignores=[])):
            if isinstance(n, ast.Name) and n.id == acc and id(n) not in ok_nodes:
                self.fail(s, f"the accumulator `{acc}` is used other than by append / += inside the loop")

    def k_continue(self, env, ind):  # overwritten for loop bodies
        raise TranslationError(f"{self.f.name}: `continue` outside a loop")

    def ravel_loop(self, s, rest, env, k, ind):
        pad = "  " * ind
        it = s.iter
        ok = (len(it.args) == 1 and isinstance(it.args[0], ast.Call) and isinstance(it.args[0].func, ast.Attribute)
              and it.args[0].func.attr == "ravel" and isinstance(it.args[0].func.value, ast.Name)
              and isinstance(s.target, ast.Tuple) and len(s.target.elts) == 2 and all(isinstance(x, ast.Name) for x in s.target.elts))
        if not ok:
            self.fail(s, "enumerate loop outside the fragment")
        arr = it.args[0].func.value.id
        if env.types.get(arr) != ROWS:
            self.fail(s, "ravel of a non-array")
        i, v = (x.id for x in s.target.elts)
        last = s.body[-1] if s.body else None
        ok = (isinstance(last, ast.Assign) and isinstance(last.targets[0], ast.Subscript) and isinstance(last.targets[0].slice, ast.Name)
              and last.targets[0].slice.id == i and isinstance(last.targets[0].value, ast.Call)
              and isinstance(last.targets[0].value.func, ast.Attribute) and last.targets[0].value.func.attr == "ravel"
              and isinstance(last.targets[0].value.func.value, ast.Name) and last.targets[0].value.func.value.id == arr)
        if not ok:
            self.fail(s, "the enumerate loop does not end in `a.ravel()[i] = e`")
        for st in s.body:
            for n in ast.walk(st):
                if isinstance(n, ast.Name) and n.id in (i, arr) and not (st is last and n.id in (i, arr) and not any(n is m for m in ast.walk(last.value))):
                    self.fail(s, "the index / the array is used inside the elementwise loop")
        e_body = env.copy()
        e_body.types[v] = INT
        fn = Fn(self.unit, self.f, "elem")
        fn.tmp = self.tmp

        def fin(e):
            t, ty = fn.expr(last.value, e)
            if ty != INT:
                self.fail(s, "elementwise value is not an int")
            return "  " * (ind + 2) + f".ok {t}\n"

        body = fn.block(s.body[:-1], e_body, fin, ind + 2)
        self.tmp = fn.tmp
        # names assigned in the body must be dead afterwards
        for st in rest:
            for n in ast.walk(st):
                if isinstance(n, ast.Name) and isinstance(n.ctx, ast.Load) and n.id in self.assigned(s.body[:-1]) + [i, v]:
                    self.fail(s, f"`{n.id}` assigned in the loop body is read after the loop")
        return (f"{pad}match mapCoords (fun ({ln(v)} : Int) => (show Except FErr Int from\n" + body + f"{pad}    )) {ln(arr)} with\n"
                f"{pad}| .error e => .error e\n{pad}| .ok {ln(arr)} =>\n" + self.block(rest, env, k, ind))

    def db_loop(self, s, rest, env, ind):
        if rest:
            self.fail(s, "statements after the db loop")
        kw = {k.arg: k.value for k in s.iter.keywords}
        if "start" not in kw or "stop" not in kw:
            self.fail(s, "db query without start= / stop=")
        a, ta = self.expr(kw["start"], env)
        b, tb = self.expr(kw["stop"], env)
        if ta != INT or tb != INT:
            self.fail(s, "db window of non-ints")
        self.db_body = s
        return "  " * ind + f".ok ({a}, {b})\n"

    def ret(self, s, value, env, ind):
        pad = "  " * ind
        if self.kind != "fn":
            self.fail(s, "return inside a loop body / an inlined method")
        if value is None:
            self.fail(s, "bare return")
        m = self.monadic_call(value, env)
        if self.ret_type == "AddResult":
            if m is None or m[1] != FEAT:
                self.fail(s, "add_feature does not return a made feature")
            if env.types.get("dbRecord") != "DbRecord":
                self.fail(s, "add_feature returns before the db was written")
            return f"{pad}match {m[0]} with\n{pad}| .error e => .error e\n{pad}| .ok f => .ok (dbRecord, f)\n"
        if m is not None:
            if m[1] != self.ret_type:
                self.fail(s, f"returns a {m[1]}, expected {self.ret_type}")
            return f"{pad}{m[0]}\n"
        t, ty = self.expr(value, env)
        if ty != self.ret_type:
            self.fail(s, f"returns a {ty}, expected {self.ret_type}")
        return f"{pad}.ok {t}\n"


# loop bodies: appending to the accumulator records its type
_orig_expr_stmt = Fn.expr_stmt


def _expr_stmt(self, s, env, nxt, ind):
    c = s.value
    f = c.func
    if self.kind == "loop" and isinstance(f, ast.Attribute) and isinstance(f.value, ast.Name) and f.value.id == self.acc and f.attr == "append":
        t, te = self.expr(c.args[0], env)
        self.acc_type = {SPAN: SPANS, ROW: ROWS}.get(te) or self.fail(s, f"append of a {te}")
    return _orig_expr_stmt(self, s, env, nxt, ind)


Fn.expr_stmt = _expr_stmt
_orig_block = Fn.block


def _block(self, stmts, env, k, ind):
    if stmts and self.kind == "loop" and isinstance(stmts[0], ast.AugAssign) and isinstance(stmts[0].target, ast.Name) and stmts[0].target.id == self.acc:
        _, tb = self.expr(stmts[0].value, env)
        self.acc_type = tb
    return _orig_block(self, stmts, env, k, ind)


Fn.block = _block


class Unit:
    def __init__(self, path, cls=None):
        self.path = Path(path)
        self.tree = ast.parse(self.path.read_text())
        self.cls = None
        if cls:
            for n in self.tree.body:
                if isinstance(n, ast.ClassDef) and n.name == cls:
                    self.cls = n
            if self.cls is None:
                raise TranslationError(f"{self.path.name}: class {cls} not found")

    def method(self, name, cls=None):
        c = self.cls
        if cls:
            c = next((n for n in self.tree.body if isinstance(n, ast.ClassDef) and n.name == cls), None)
        if c is None:
            return None
        return next((n for n in c.body if isinstance(n, ast.FunctionDef) and n.name == name), None)

    def function(self, name):
        return next((n for n in self.tree.body if isinstance(n, ast.FunctionDef) and n.name == name), None)


def _need(fdef, what, where):
    if fdef is None:
        raise TranslationError(f"{where}: {what} not found")
    return fdef


def _params(fdef):
    a = fdef.args
    return [x.arg for x in a.posonlyargs + a.args + a.kwonlyargs if x.arg not in ("self", "cls")]


def gen_sequence(path, ns):
    """(lean text, info) for one sequence module"""
    u = Unit(path, "Sequence")
    out = [f"namespace {ns}\n"]
    info = {}
    # ---- make_feature
    mf = _need(u.method("make_feature"), "Sequence.make_feature", path)
    ps = _params(mf)
    if not ps:
        raise TranslationError("make_feature has no feature parameter")
    fn = Fn(u, mf, "fn")
    fn.ret_type = FEAT
    env = Env({ps[0]: FEATURE}, {"spans": ("spans", ROWS), "strand": ("minus", STRAND)})
    body = fn.block(mf.body, env, lambda e: fn.fail(mf, "falls off the end"), 1)
    out.append("/-- `Sequence.make_feature(feature)`: `spans` = feature[\"spans\"] (view coordinates), `minus` = (feature[\"strand\"] == \"-\") -/\n"
               "def makeFeature (sv : View) (minus : Bool) (spans : List (Int × Int)) : Except FErr Feat :=\n" + body)
    info["make_feature"] = len(mf.body)
    # ---- get_features
    gf = _need(u.method("get_features"), "Sequence.get_features", path)
    stmts = list(gf.body)
    # B5: the leading `if self._annotation_db is None: return None`
    stmts = [s for s in stmts if not (isinstance(s, ast.Expr) and isinstance(s.value, ast.Constant))]
    if stmts and isinstance(stmts[0], ast.If) and isinstance(stmts[0].test, ast.Compare) and isinstance(stmts[0].test.ops[0], ast.Is) \
            and len(stmts[0].body) == 1 and isinstance(stmts[0].body[0], ast.Return) and not stmts[0].orelse:
        stmts = stmts[1:]
    names = _params(gf)
    for need in ("start", "stop"):
        if need not in names:
            raise TranslationError(f"get_features has no `{need}` parameter")
    fn = Fn(u, gf, "fn")
    fn.ret_type = "Window"
    fn.db_body = None
    env = Env({n: (OPT if n in ("start", "stop") else OPAQUE) for n in names})
    body = fn.block(stmts, env, lambda e: fn.fail(gf, "no db loop"), 1)
    if fn.db_body is None:
        raise TranslationError("get_features: the annotation db loop was not found")
    out.append("\n/-- `Sequence.get_features`: the `(start, stop)` sent to `annotation_db.get_features_matching` -/\n"
               "def queryWindow (sv : View) (start stop : Option Int) : Except FErr (Int × Int) :=\n" + body)
    # the loop body for one record, preceded by the backward slice of the prefix it reads
    loop = fn.db_body
    if not isinstance(loop.target, ast.Name):
        raise TranslationError("get_features: db loop target is not a name")
    fvar = loop.target.id
    prefix = stmts[: stmts.index(loop)]
    needed = {n.id for st in loop.body for n in ast.walk(st) if isinstance(n, ast.Name) and isinstance(n.ctx, ast.Load)} - {fvar, "self"}
    keep = []
    for st in reversed(prefix):
        asg = set(Fn(u, gf, "fn").assigned([st]))
        if asg & needed:
            keep.append(st)
            needed |= {n.id for n in ast.walk(st) if isinstance(n, ast.Name) and isinstance(n.ctx, ast.Load)} - {"self"}
    keep.reverse()
    body_stmts = []
    for st in loop.body:
        if isinstance(st, ast.Expr) and isinstance(st.value, ast.Yield):
            r = ast.Return(value=st.value.value)
            ast.copy_location(r, st)
            body_stmts.append(r)
        else:
            body_stmts.append(st)
    fn2 = Fn(u, gf, "fn")
    fn2.ret_type = FEAT
    env2 = Env({n: (OPT if n in ("start", "stop") else OPAQUE) for n in names})
    env2.types[fvar] = FEATURE
    env2.feat = {"spans": ("dbSpans", ROWS), "strand": ("minus", STRAND)}
    body2 = fn2.block(keep + body_stmts, env2, lambda e: fn2.fail(gf, "the db loop body does not yield"), 1)
    out.append("\n/-- the body of the db loop of `Sequence.get_features` for one record (`dbSpans`, `minus`) -/\n"
               "def featureOnView (sv : View) (minus : Bool) (dbSpans : List (Int × Int)) : Except FErr Feat :=\n" + body2)
    info["get_features"] = dict(prefix=len(prefix), slice=len(keep), body=len(loop.body))
    # ---- add_feature
    af = _need(u.method("add_feature"), "Sequence.add_feature", path)
    names = _params(af)
    for need in ("spans", "strand"):
        if need not in names:
            raise TranslationError(f"add_feature has no `{need}` parameter")
    fn3 = Fn(u, af, "fn")
    fn3.ret_type = "AddResult"
    env3 = Env({n: (ROWS if n == "spans" else STRAND if n == "strand" else OPAQUE) for n in names})
    body3 = fn3.block(af.body, env3, lambda e: fn3.fail(af, "falls off the end"), 1)
    out.append("\n/-- `Sequence.add_feature(spans=, strand=)` on a view: the `(spans, strand)` of the record written to the annotation db\n"
               "and the Feature returned (`strand` = (strand == \"-\"), B2) -/\n"
               "def addFeature (sv : View) (spans : List (Int × Int)) (strand : Bool) : Except FErr ((List (Int × Int) × Bool) × Feat) :=\n" + body3)
    info["add_feature"] = len(af.body)
    out.append(f"\nend {ns}\n")
    return "".join(out), info


def gen_location(path):
    u = Unit(path)
    out = ["namespace GenLoc\n"]
    info = {}
    sfl = _need(u.function("_spans_from_locations"), "_spans_from_locations", path)
    ps = _params(sfl)
    if ps != ["locations", "parent_length"]:
        raise TranslationError(f"_spans_from_locations parameters {ps}")
    fn = Fn(u, sfl, "fn")
    fn.ret_type = SPANS
    body = fn.block(sfl.body, Env({"locations": ROWS, "parent_length": INT}), lambda e: fn.fail(sfl, "falls off the end"), 1)
    out.append("/-- `location._spans_from_locations(locations, parent_length)` -/\n"
               "def spansFromLocations (locations : List (Int × Int)) (parent_length : Int) : Except FErr (List MSpan) :=\n" + body)
    fl = _need(u.method("from_locations", "MapABC"), "MapABC.from_locations", path)
    ps = _params(fl)
    if ps[:2] != ["locations", "parent_length"]:
        raise TranslationError(f"from_locations parameters {ps}")
    fn = Fn(u, fl, "fn")
    fn.ret_type = FMAP
    body = fn.block(fl.body, Env({"locations": ROWS, "parent_length": INT}), lambda e: fn.fail(fl, "falls off the end"), 1)
    out.append("\n/-- `MapABC.from_locations(locations, parent_length)` for a FeatureMap (`from_spans` = the constructor) -/\n"
               "def fromLocations (locations : List (Int × Int)) (parent_length : Int) : Except FErr FMapG :=\n" + body)
    nr = _need(u.method("nucleic_reversed", "FeatureMap"), "FeatureMap.nucleic_reversed", path)
    fn = Fn(u, nr, "fn")
    fn.ret_type = FMAP
    # `self.spans`, `self.parent_length`, `self.__class__(...)`
    body_src = ast.unparse(ast.Module(body=nr.body, type_ignores=[]))
    body_src = body_src.replace("self.__class__(", "FeatureMap(").replace("self.spans", "self_.spans").replace("self.parent_length", "self_.parent_length")
    stmts = ast.parse(body_src).body
    body = fn.block(stmts, Env({"self_": FMAP}), lambda e: fn.fail(nr, "falls off the end"), 1)
    out.append("\n/-- `FeatureMap.nucleic_reversed()` -/\n"
               "def nucleicReversed (self_ : FMapG) : Except FErr FMapG :=\n" + body)
    info["location"] = dict(spans_from_locations=len(sfl.body), from_locations=len(fl.body), nucleic_reversed=len(nr.body))
    out.append("\nend GenLoc\n")
    return "".join(out), info


HEADER = """/-
  GENERATED by translator/c04_feature2lean.py from the python source of the checked tree -- do not edit.
  (core/location.py -> GenLoc; core/sequence.py -> GenOld; core/new_sequence.py -> GenNew)

  Conventions: B1 min()/max() of an empty array is 0; B2 a missing strand reads as "+"; B3 numpy views are copied;
  B4 the `length >= 0` assertion of the Span constructor is not modelled; B5 the `_annotation_db is None` guard of
  get_features is not modelled.  Loops are `mapExcept body xs` + `flatten` (the body returns what one iteration appends).
  Proofs/C04GenEq.lean proves every definition below equal to the hand model Model/FeatureView.lean.
-/
import CogentModel.Model.FeatureGenPrelude
set_option linter.unusedVariables false
namespace CogentModel.C04Gen
open CogentModel.View CogentModel.FeatureView

"""


def translate(src_root):
    """-> (lean text or None, info, problems)"""
    core = Path(src_root) / "core"
    if not core.exists():
        core = Path(src_root) / "cogent3" / "core"
    problems, info, parts = [], {}, []
    try:
        t, i = gen_location(core / "location.py")
        parts.append(t)
        info.update(i)
    except (TranslationError, SyntaxError, OSError) as e:
        problems.append(f"location.py: {e}")
    for fname, ns in (("sequence.py", "GenOld"), ("new_sequence.py", "GenNew")):
        try:
            t, i = gen_sequence(core / fname, ns)
            parts.append("\n" + t)
            info[ns] = i
        except (TranslationError, SyntaxError, OSError) as e:
            problems.append(f"{fname}: {e}")
    if problems:
        return None, info, problems
    return HEADER + "".join(parts) + "\nend CogentModel.C04Gen\n", info, problems


def write_if_changed(path, text):
    path = Path(path)
    if path.exists() and path.read_text() == text:
        return False
    path.parent.mkdir(parents=True, exist_ok=True)
    path.write_text(text)
    return True


if __name__ == "__main__":
    import sys

    lean, info, problems = translate(sys.argv[1] if len(sys.argv) > 1 else "/repo/src/cogent3")
    print(info, problems, file=sys.stderr)
    if lean:
        print(lean)
