"""C12 translator: cogent3 data tables -> lean/CogentModel/Gen/C12Tables.lean

Reads, on every run, from the CURRENT working tree of the repository

* core/genetic_code.py       NcbiGeneticCodeData  (list of [code_sequence, ID, name, start_codon_sequence])
* core/new_genetic_code.py   code_mapping + _mapping_cols
* core/moltype.py            IUPAC_gap, IUPAC_missing, IUPAC_{DNA,RNA}_chars, IUPAC_{DNA,RNA}_ambiguities,
                             IUPAC_{DNA,RNA}_ambiguities_complements  and which of these DNA/RNA = MolType(...) uses
* core/new_moltype.py        the same names

by parsing the source with `ast` (literal tables only; `frozenset((...))` calls are evaluated structurally),
falling back to importing the module in a subprocess when a table is no longer a literal.

The output is content-addressed: it depends only on the extracted tables (no timestamps, no paths), so an
unchanged source gives a byte-identical file and lake does no work.
"""
from __future__ import annotations

import ast
import json
import subprocess
import sys
from pathlib import Path


class TranslationError(Exception):
    pass


# --------------------------------------------------------------------------
# ast extraction
# --------------------------------------------------------------------------
def _top_assigns(tree):
    out = {}
    for n in tree.body:
        if isinstance(n, ast.Assign) and len(n.targets) == 1 and isinstance(n.targets[0], ast.Name):
            out[n.targets[0].id] = n.value
        elif isinstance(n, ast.AnnAssign) and isinstance(n.target, ast.Name) and n.value is not None:
            out[n.target.id] = n.value
    return out


def _lit(node, env=None):
    """literal evaluation that also understands frozenset/tuple/list/set calls on literals and
    references to already extracted names"""
    env = env or {}
    if isinstance(node, ast.Constant):
        return node.value
    if isinstance(node, (ast.Tuple, ast.List)):
        return [_lit(e, env) for e in node.elts]
    if isinstance(node, ast.Set):
        return [_lit(e, env) for e in node.elts]
    if isinstance(node, ast.Dict):
        res = []
        for k, v in zip(node.keys, node.values):
            if k is None:
                raise TranslationError("dict unpacking in a table")
            res.append((_lit(k, env), _lit(v, env)))
        return res
    if isinstance(node, ast.Call) and isinstance(node.func, ast.Name) and node.func.id in (
        "frozenset",
        "tuple",
        "list",
        "set",
    ):
        if len(node.args) != 1 or node.keywords:
            raise TranslationError(f"unsupported call {ast.dump(node)[:80]}")
        v = _lit(node.args[0], env)
        return list(v)
    if isinstance(node, ast.Name) and node.id in env:
        return env[node.id]
    raise TranslationError(f"not a literal: {ast.dump(node)[:100]}")


def _old_codes(path: Path):
    tree = ast.parse(path.read_text())
    a = _top_assigns(tree)
    node = a.get("NcbiGeneticCodeData")
    if node is None:
        raise TranslationError("genetic_code.py: NcbiGeneticCodeData not found")
    if isinstance(node, ast.ListComp):
        # [GeneticCode(*data) for data in [[...], ...]]
        if len(node.generators) != 1 or node.generators[0].ifs:
            raise TranslationError("genetic_code.py: unexpected comprehension")
        elt = node.elt
        ok = (
            isinstance(elt, ast.Call)
            and isinstance(elt.func, ast.Name)
            and elt.func.id == "GeneticCode"
            and len(elt.args) == 1
            and isinstance(elt.args[0], ast.Starred)
            and not elt.keywords
        )
        if not ok:
            raise TranslationError("genetic_code.py: NcbiGeneticCodeData element is not GeneticCode(*data)")
        rows = _lit(node.generators[0].iter)
    else:
        raise TranslationError("genetic_code.py: NcbiGeneticCodeData is not a list comprehension")
    # positional parameter order of GeneticCode.__init__
    order = None
    for n in tree.body:
        if isinstance(n, ast.ClassDef) and n.name == "GeneticCode":
            for f in n.body:
                if isinstance(f, ast.FunctionDef) and f.name == "__init__":
                    order = [x.arg for x in f.args.args[1:]]
    if order is None or not {"code_sequence", "ID", "name", "start_codon_sequence"} <= set(order):
        raise TranslationError(f"genetic_code.py: GeneticCode.__init__ parameters {order}")
    res = []
    for r in rows:
        d = dict(zip(order, r))
        res.append((d["ID"], d["name"], d["code_sequence"], d["start_codon_sequence"]))
    return res


def _new_codes(path: Path):
    tree = ast.parse(path.read_text())
    a = _top_assigns(tree)
    if "code_mapping" not in a or "_mapping_cols" not in a:
        raise TranslationError("new_genetic_code.py: code_mapping/_mapping_cols not found")
    cols = _lit(a["_mapping_cols"])
    rows = _lit(a["code_mapping"])
    if sorted(cols) != sorted(["ncbi_code_sequence", "ID", "name", "ncbi_start_codon_map"]):
        raise TranslationError(f"new_genetic_code.py: _mapping_cols = {cols}")
    res = []
    for r in rows:
        d = dict(zip(cols, r))
        res.append((d["ID"], d["name"], d["ncbi_code_sequence"], d["ncbi_start_codon_map"]))
    return res


_MT_NAMES = [
    "IUPAC_gap",
    "IUPAC_missing",
    "IUPAC_DNA_chars",
    "IUPAC_DNA_ambiguities",
    "IUPAC_DNA_ambiguities_complements",
    "IUPAC_RNA_chars",
    "IUPAC_RNA_ambiguities",
    "IUPAC_RNA_ambiguities_complements",
]


def _moltype_tables(path: Path, which: str):
    """returns dict(gap, missing, dna=dict(chars, ambig, compl), rna=...)"""
    tree = ast.parse(path.read_text())
    a = _top_assigns(tree)
    env = {}
    for name in _MT_NAMES:
        if name not in a:
            raise TranslationError(f"{path.name}: {name} not found")
        env[name] = _lit(a[name], env)
    # which tables do DNA / RNA = MolType(...) actually use?
    res = dict(gap=env["IUPAC_gap"], missing=env["IUPAC_missing"])
    mono_kw = "motifset" if which == "old" else "monomers"
    for mt in ("DNA", "RNA"):
        node = a.get(mt)
        if not (isinstance(node, ast.Call) and isinstance(node.func, ast.Name) and node.func.id == "MolType"):
            raise TranslationError(f"{path.name}: {mt} is not MolType(...)")
        kw = {k.arg: k.value for k in node.keywords}
        for need in (mono_kw, "ambiguities", "complements"):
            if need not in kw:
                raise TranslationError(f"{path.name}: {mt} = MolType(...) lacks {need}=")
        mono = kw[mono_kw]
        # new: monomers="".join(IUPAC_DNA_chars)
        if (
            isinstance(mono, ast.Call)
            and isinstance(mono.func, ast.Attribute)
            and mono.func.attr == "join"
            and isinstance(mono.func.value, ast.Constant)
            and mono.func.value.value == ""
            and len(mono.args) == 1
        ):
            mono = mono.args[0]
        chars = _lit(mono, env)
        if isinstance(chars, str):
            chars = list(chars)
        ambig = _lit(kw["ambiguities"], env)
        compl = _lit(kw["complements"], env)
        for extra in ("gap", "missing"):
            if extra in kw:
                v = _lit(kw[extra], env)
                if v != res[extra]:
                    raise TranslationError(f"{path.name}: {mt} overrides {extra}")
        res[mt.lower()] = dict(
            chars=list(chars),
            ambig=[(k, list(v)) for k, v in ambig],
            compl=[(k, v) for k, v in compl],
        )
    return res


# --------------------------------------------------------------------------
# fallback: import in a subprocess
# --------------------------------------------------------------------------
_FALLBACK = r"""
import json, sys
from cogent3.core import genetic_code as og, new_genetic_code as ng, moltype as om, new_moltype as nm
def mt(m):
    r = dict(gap=m.IUPAC_gap, missing=m.IUPAC_missing)
    for k in ("DNA", "RNA"):
        r[k.lower()] = dict(chars=list(getattr(m, f"IUPAC_{k}_chars")),
            ambig=[(a, sorted(b)) for a, b in getattr(m, f"IUPAC_{k}_ambiguities").items()],
            compl=list(getattr(m, f"IUPAC_{k}_ambiguities_complements").items()))
    return r
out = dict(
  old_codes=[(g.ID, g.name, g.code_sequence, g.start_codon_sequence) for g in og.NcbiGeneticCodeData],
  new_codes=[(d["ID"], d["name"], d["ncbi_code_sequence"], d["ncbi_start_codon_map"])
             for d in (dict(zip(ng._mapping_cols, r)) for r in ng.code_mapping)],
  old_mt=mt(om), new_mt=mt(nm))
json.dump(out, sys.stdout)
"""


def _fallback(src_root: Path, python: str):
    env = dict(**__import__("os").environ)
    env["PYTHONPATH"] = str(src_root.parent) + ":" + env.get("PYTHONPATH", "")
    p = subprocess.run([python, "-W", "ignore", "-c", _FALLBACK], capture_output=True, text=True, env=env, timeout=600)
    if p.returncode != 0:
        raise TranslationError(f"fallback import failed: {p.stderr[-400:]}")
    d = json.loads(p.stdout[p.stdout.index("{") :])
    for k in ("old_mt", "new_mt"):
        for m in ("dna", "rna"):
            d[k][m]["ambig"] = [tuple(x) for x in d[k][m]["ambig"]]
            d[k][m]["compl"] = [tuple(x) for x in d[k][m]["compl"]]
    d["old_codes"] = [tuple(x) for x in d["old_codes"]]
    d["new_codes"] = [tuple(x) for x in d["new_codes"]]
    return d


def extract(src_root: Path, python: str = sys.executable):
    """src_root = <repo>/src/cogent3.  returns (tables, notes)"""
    notes = []
    core = src_root / "core"
    tables = {}
    fb = None

    def attempt(key, fn):
        nonlocal fb
        try:
            tables[key] = fn()
        except (TranslationError, SyntaxError, ValueError, KeyError, TypeError) as e:
            notes.append(f"{key}: ast extraction failed ({e}); fell back to importing the module")
            if fb is None:
                fb = _fallback(src_root, python)
            tables[key] = fb[key]

    attempt("old_codes", lambda: _old_codes(core / "genetic_code.py"))
    attempt("new_codes", lambda: _new_codes(core / "new_genetic_code.py"))
    attempt("old_mt", lambda: _moltype_tables(core / "moltype.py", "old"))
    attempt("new_mt", lambda: _moltype_tables(core / "new_moltype.py", "new"))
    return tables, notes


# --------------------------------------------------------------------------
# validation + Lean emission
# --------------------------------------------------------------------------
def validate(t):
    """shape problems that make the tables untranslatable (not property violations)"""
    probs = []
    for key in ("old_codes", "new_codes"):
        for row in t[key]:
            if not (isinstance(row[0], int) and row[0] >= 0 and all(isinstance(x, str) for x in row[1:])):
                probs.append(f"{key}: malformed row {row!r}")
    for key in ("old_mt", "new_mt"):
        m = t[key]
        for s in (m["gap"], m["missing"]):
            if not (isinstance(s, str) and len(s) == 1):
                probs.append(f"{key}: gap/missing not a single character")
        for mt in ("dna", "rna"):
            d = m[mt]
            for c in d["chars"]:
                if not (isinstance(c, str) and len(c) == 1):
                    probs.append(f"{key}.{mt}: monomer {c!r}")
            for k, v in d["ambig"]:
                if not (isinstance(k, str) and len(k) == 1 and all(isinstance(x, str) and len(x) == 1 for x in v)):
                    probs.append(f"{key}.{mt}: ambiguity {k!r}")
            for k, v in d["compl"]:
                if not (isinstance(k, str) and len(k) == 1 and isinstance(v, str) and len(v) == 1):
                    probs.append(f"{key}.{mt}: complement {k!r}")
    return probs


def _ch(c: str) -> str:
    if c == "'":
        return "'\\''"
    if c == "\\":
        return "'\\\\'"
    if 32 <= ord(c) < 127:
        return f"'{c}'"
    return f"(Char.ofNat {ord(c)})"


def _chars(s) -> str:
    return "[" + ",".join(_ch(c) for c in s) + "]"


def _str(s: str) -> str:
    return '"' + s.replace("\\", "\\\\").replace('"', '\\"') + '"'


def to_lean(t) -> str:
    L = []
    L.append("/- GENERATED on every run by /verif/translator/tables2lean.py from the repository's")
    L.append("   core/genetic_code.py, core/new_genetic_code.py, core/moltype.py, core/new_moltype.py.")
    L.append("   Do not edit: the file is overwritten (content-addressed) by `./check C12`. -/")
    L.append("namespace CogentModel.C12Tables")
    L.append("")
    for key, name in (("old_codes", "oldCodes"), ("new_codes", "newCodes")):
        L.append(f"/-- (ID, code_sequence, start codon map) of every genetic code, in source order -/")
        L.append(f"def {name} : List (Nat × List Char × List Char) := [")
        rows = [f"  ({r[0]}, {_chars(r[2])},\n      {_chars(r[3])})" for r in t[key]]
        L.append(",\n".join(rows))
        L.append("]")
        L.append(f"def {name}Names : List (Nat × String) := [")
        L.append(",\n".join(f"  ({r[0]}, {_str(r[1])})" for r in t[key]))
        L.append("]")
        L.append("")
    for key, pre in (("old_mt", "old"), ("new_mt", "new")):
        m = t[key]
        L.append(f"def {pre}Gap : Char := {_ch(m['gap'])}")
        L.append(f"def {pre}Missing : Char := {_ch(m['missing'])}")
        for mt in ("dna", "rna"):
            d = m[mt]
            P = f"{pre}{mt.capitalize()}"
            L.append(f"def {P}Chars : List Char := {_chars(d['chars'])}")
            L.append(f"def {P}Ambig : List (Char × List Char) := [")
            L.append(",\n".join(f"  ({_ch(k)}, {_chars(v)})" for k, v in d["ambig"]))
            L.append("]")
            L.append(f"def {P}Compl : List (Char × Char) := [")
            L.append(",\n".join(f"  ({_ch(k)}, {_ch(v)})" for k, v in d["compl"]))
            L.append("]")
        L.append("")
    L.append("end CogentModel.C12Tables")
    return "\n".join(L) + "\n"


def generate(src_root: Path, out_path: Path, python: str = sys.executable):
    """returns (tables, problems, notes, changed)"""
    tables, notes = extract(src_root, python)
    probs = validate(tables)
    if probs:
        return tables, probs, notes, False
    text = to_lean(tables)
    changed = (not out_path.exists()) or out_path.read_text() != text
    if changed:
        out_path.parent.mkdir(parents=True, exist_ok=True)
        tmp = out_path.with_suffix(".lean.tmp")
        tmp.write_text(text)
        tmp.replace(out_path)
    return tables, probs, notes, changed


if __name__ == "__main__":
    repo = Path(sys.argv[1] if len(sys.argv) > 1 else "/repo")
    out = Path(sys.argv[2] if len(sys.argv) > 2 else "/verif/lean/CogentModel/Gen/C12Tables.lean")
    t, p, n, ch = generate(repo / "src" / "cogent3", out, "/venv/bin/python")
    print("problems", p, "notes", n, "changed", ch, "codes", len(t["old_codes"]), len(t["new_codes"]))
