"""Python -> Lean translator for the pure gap-dict helpers of ``cogent3/app/align.py`` used by ``pairwise_to_multiple``.

On every run the source of the checked tree is re-read with ``ast`` only (nothing of cogent3 is imported or executed) and
``lean/CogentModel/Gen/C18Gaps.lean`` (namespace ``CogentModel.Gen.C18Gaps``) is emitted.  The output is a pure function of
the source text.  ``Props/C18G.lean`` proves every generated definition equal to the hand model ``Model/GapMerge.lean``
(on which the C18 merge theorems are stated) for ALL arguments, so a semantic edit of one of these functions breaks a proof
obligation (or, when the edit uses syntax outside the supported subset, is reported as a translation problem).

Translated:  ``_GapOffset.__init__`` (-> ``gapOffsetInit`` + structure ``GapOffsetG``), ``_GapOffset.__getitem__``
(-> ``gapOffsetGetitem``), ``_gap_difference``, ``_merged_gaps``, ``_subset_gaps_to_align_coords``,
``_combined_refseq_gaps``, ``_gaps_for_injection``.

Statement subset: assignments to locals / tuple unpacking of a translated call, ``d[k] = v``, ``x += e``, ``x -= e``,
``if/elif/else``, ``return``, ``raise`` (function becomes ``Except String``), ``for`` over ``sorted(d.items())`` /
``d.items()`` / ``d`` (structural recursion on the item list; the loop state is the tuple of variables assigned in the
body that exist before the loop), ``d.update(e)``.  Anything else is a TranslationError (reported, never skipped).

Typing: ``int`` -> ``Int``; dict {gap position: length} -> ``Gaps`` (association list, the primitives ``dget``/``dset``/
``sortGaps``/``bisectLeft``/``pyIdx``/``keysUnion`` of ``Model/GapMerge.lean`` are the dict / sorted / bisect / list-index
semantics); ``bool`` -> ``Bool``; sorted key list -> ``List Int``; ``_GapOffset`` -> generated structure.

Translation rules that rest on the dict invariant (unique keys), stated here because they are trusted:
  R1  ``for p in d: ... d[p] ...``     iterates the items ``(p, v)`` of ``d``; ``d[p]`` is ``v`` (``d`` is not assigned in the body)
  R2  ``x.update({K: V for p in d})``  is the loop ``for p in d: x[K] = V`` (same final order and values: new keys are
                                       appended in order of first occurrence and the last value wins, in both)
  R3  ``{}``.update(d) / update of an empty dict is a copy of ``d`` (``dupdate``)
  R4  ``d[k]`` / ``d.get(k, default)`` read with a default: a KeyError is totalised to 0 (as in the hand model; the
      callers only read keys they iterate over)
  R5  ``if self.X is None: self.X = E`` with ``self.X = None`` in ``__init__`` is a cache: reads of ``self.X`` are ``E``
  R6  ``{k: E for k in set(a) | set(b)}`` enumerates the keys of ``a`` then the new keys of ``b`` (set order is unspecified in
      Python; the harness compares dicts as sorted item lists)
"""
from __future__ import annotations

import ast
from pathlib import Path


class TranslationError(Exception):
    pass


def src(node):
    try:
        return ast.unparse(node)
    except Exception:  # noqa: BLE001
        return type(node).__name__


LEAN_TYPE = {"int": "Int", "dict": "Gaps", "bool": "Bool", "keys": "List Int", "go": "GapOffsetG", "oint": "Option Int"}

# python function name -> (lean name, parameter types, result type)
FUNCS = {
    "_gap_difference": ("gapDifference", ["dict", "dict"], "dict2"),
    "_merged_gaps": ("mergedGaps", ["dict", "dict"], "dict"),
    "_subset_gaps_to_align_coords": ("subsetGapsToAlignCoords", ["dict", "dict", "go"], "dict"),
    "_combined_refseq_gaps": ("combinedRefseqGaps", ["dict", "dict"], "dict"),
    "_gaps_for_injection": ("gapsForInjection", ["dict", "dict", "int"], "dict"),
}
ORDER = ["_gap_difference", "_merged_gaps", "_subset_gaps_to_align_coords", "_combined_refseq_gaps", "_gaps_for_injection"]
CMP = {ast.Lt: "<", ast.LtE: "≤", ast.Gt: ">", ast.GtE: "≥", ast.Eq: "=", ast.NotEq: "≠"}


def field_name(attr):
    return attr.lstrip("_")


class Fn:
    """translator of one function body"""

    def __init__(self, unit, lean_name, env, self_fields=None, memo=None):
        self.unit = unit
        self.name = lean_name
        self.env = dict(env)  # python name -> type
        self.self_fields = self_fields  # attr -> type (methods of _GapOffset)
        self.memo = memo or {}  # attr -> ast expr (R5)
        self.subst = {}  # (dict name, key name) -> lean value name (R1)
        self.aux = []  # emitted loop definitions
        self.nloops = 0
        self.raises = False

    # ---------------------------------------------------------------- expressions
    def expr(self, n):
        """-> (lean term, type)"""
        if isinstance(n, ast.Constant):
            if isinstance(n.value, bool):
                return ("true" if n.value else "false"), "bool"
            if isinstance(n.value, int):
                return (str(n.value) if n.value >= 0 else f"({n.value})"), "int"
            if n.value is None:
                return "none", "none"
            raise TranslationError(f"unsupported constant `{src(n)}`")
        if isinstance(n, ast.UnaryOp) and isinstance(n.op, ast.USub):
            a, t = self.expr(n.operand)
            self.need(t, "int", n)
            return f"(-{a})", "int"
        if isinstance(n, ast.Name):
            if n.id not in self.env:
                raise TranslationError(f"{self.name}: unknown name `{n.id}`")
            return n.id, self.env[n.id]
        if isinstance(n, ast.Attribute) and isinstance(n.value, ast.Name) and n.value.id == "self":
            if n.attr in self.memo:
                return self.expr(self.memo[n.attr])
            if self.self_fields is None or n.attr not in self.self_fields:
                raise TranslationError(f"{self.name}: unknown attribute `{src(n)}`")
            if f"self_{field_name(n.attr)}" in self.env:  # inside __init__
                return f"self_{field_name(n.attr)}", self.self_fields[n.attr]
            return f"self.{field_name(n.attr)}", self.self_fields[n.attr]
        if isinstance(n, ast.BinOp) and isinstance(n.op, (ast.Add, ast.Sub)):
            a, ta = self.expr(n.left)
            b, tb = self.expr(n.right)
            self.need(ta, "int", n.left)
            self.need(tb, "int", n.right)
            return f"({a} {'+' if isinstance(n.op, ast.Add) else '-'} {b})", "int"
        if isinstance(n, ast.BinOp) and isinstance(n.op, ast.BitOr):
            # set(a) | set(b) over two dicts  (R6)
            def setof(x):
                if isinstance(x, ast.Call) and isinstance(x.func, ast.Name) and x.func.id == "set" and len(x.args) == 1 and not x.keywords:
                    v, t = self.expr(x.args[0])
                    self.need(t, "dict", x)
                    return v
                raise TranslationError(f"{self.name}: unsupported set operand `{src(x)}`")
            return f"(keysUnion {setof(n.left)} {setof(n.right)})", "keys"
        if isinstance(n, ast.Dict) and not n.keys:
            return "([] : Gaps)", "dict"
        if isinstance(n, ast.Subscript):
            if isinstance(n.value, ast.Name) and isinstance(n.slice, ast.Name) and (n.value.id, n.slice.id) in self.subst:
                return self.subst[(n.value.id, n.slice.id)], "int"  # R1
            v, tv = self.expr(n.value)
            k, tk = self.expr(n.slice)
            self.need(tk, "int", n.slice)
            if tv == "dict":
                return f"((dget {v} {k}).getD 0)", "int"  # R4
            if tv == "go":
                return f"(gapOffsetGetitem {v} {k})", "int"
            if tv == "keys":
                return f"(pyIdx {v} {k})", "int"
            raise TranslationError(f"{self.name}: subscript of a {tv}: `{src(n)}`")
        if isinstance(n, ast.IfExp):
            c = self.test(n.test)
            a, ta = self.expr(n.body)
            b, tb = self.expr(n.orelse)
            if ta == tb:
                return f"(if {c} then {a} else {b})", ta
            if {ta, tb} == {"int", "none"}:
                a = f"some {a}" if ta == "int" else "none"
                b = f"some {b}" if tb == "int" else "none"
                return f"(if {c} then {a} else {b})", "oint"
            raise TranslationError(f"{self.name}: branches of `{src(n)}` have types {ta}/{tb}")
        if isinstance(n, ast.DictComp) and len(n.generators) == 1 and not n.generators[0].ifs and isinstance(n.generators[0].target, ast.Name):
            g = n.generators[0]
            it, ti = self.expr(g.iter)
            self.need(ti, "keys", g.iter)
            saved = self.env.get(g.target.id)
            self.env[g.target.id] = "int"
            k, tk = self.expr(n.key)
            v, tv = self.expr(n.value)
            if saved is None:
                del self.env[g.target.id]
            else:
                self.env[g.target.id] = saved
            self.need(tk, "int", n.key)
            self.need(tv, "int", n.value)
            return f"({it}.map fun {g.target.id} => ({k}, {v}))", "dict"
        if isinstance(n, ast.Call):
            return self.call(n)
        raise TranslationError(f"{self.name}: unsupported expression `{src(n)}`")

    def call(self, n):
        f = n.func
        if isinstance(f, ast.Name):
            args = n.args
            if f.id in ("max", "min") and len(args) == 2 and not n.keywords:
                a, ta = self.expr(args[0])
                b, tb = self.expr(args[1])
                self.need(ta, "int", args[0])
                self.need(tb, "int", args[1])
                return f"({f.id} {a} {b})", "int"
            if f.id == "min" and len(args) == 1 and not n.keywords:
                a, ta = self.expr(args[0])
                self.need(ta, "dict", args[0])
                return f"(minKey {a})", "int"
            if f.id == "sorted" and len(args) == 1 and not n.keywords:
                a, ta = self.expr(args[0])
                self.need(ta, "dict", args[0])
                return f"((sortGaps {a}).map (·.1))", "keys"
            if f.id == "bisect_left" and len(args) == 2 and not n.keywords:
                a, ta = self.expr(args[0])
                b, tb = self.expr(args[1])
                self.need(ta, "keys", args[0])
                self.need(tb, "int", args[1])
                return f"((bisectLeft {a} {b} : Nat) : Int)", "int"
            if f.id == "_GapOffset":
                if len(args) != 1 or any(k.arg != "invert" for k in n.keywords) or len(n.keywords) > 1:
                    raise TranslationError(f"{self.name}: unsupported constructor call `{src(n)}`")
                a, ta = self.expr(args[0])
                self.need(ta, "dict", args[0])
                inv = "false"
                if n.keywords:
                    inv, ti = self.expr(n.keywords[0].value)
                    self.need(ti, "bool", n.keywords[0].value)
                return f"(gapOffsetInit {a} {inv})", "go"
            if f.id in FUNCS and not n.keywords:
                ln, ptypes, rt = FUNCS[f.id]
                if len(args) != len(ptypes):
                    raise TranslationError(f"{self.name}: `{src(n)}`: {len(ptypes)} arguments expected")
                parts = []
                for a, pt in zip(args, ptypes):
                    v, t = self.expr(a)
                    self.need(t, pt, a)
                    parts.append(v)
                if f.id in self.unit.raising:
                    raise TranslationError(f"{self.name}: call of the raising function `{f.id}` is not supported")
                return f"({ln} {' '.join(parts)})", rt
        if isinstance(f, ast.Attribute) and f.attr == "get" and len(n.args) == 2 and not n.keywords:
            d, td = self.expr(f.value)
            k, tk = self.expr(n.args[0])
            dv, tdv = self.expr(n.args[1])
            self.need(td, "dict", f.value)
            self.need(tk, "int", n.args[0])
            self.need(tdv, "int", n.args[1])
            return f"((dget {d} {k}).getD {dv})", "int"
        raise TranslationError(f"{self.name}: unsupported call `{src(n)}`")

    def need(self, t, want, n):
        if t != want:
            raise TranslationError(f"{self.name}: `{src(n)}` is a {t}, a {want} is required")

    # ---------------------------------------------------------------- tests
    def test(self, n):
        if isinstance(n, ast.BoolOp):
            op = " && " if isinstance(n.op, ast.And) else " || "
            return "(" + op.join(self.test(v) for v in n.values) + ")"
        if isinstance(n, ast.UnaryOp) and isinstance(n.op, ast.Not):
            return f"(!{self.test(n.operand)})"
        if isinstance(n, ast.Compare) and len(n.ops) == 1:
            a, op, b = n.left, n.ops[0], n.comparators[0]
            if isinstance(op, (ast.In, ast.NotIn)):
                x, tx = self.expr(a)
                self.need(tx, "int", a)
                if isinstance(b, ast.List):
                    alts = []
                    for e in b.elts:
                        v, tv = self.expr(e)
                        self.need(tv, "int", e)
                        alts.append(f"decide ({x} = {v})")
                    r = "(" + " || ".join(alts) + ")"
                else:
                    d, td = self.expr(b)
                    self.need(td, "dict", b)
                    r = f"(dget {d} {x}).isSome"
                return r if isinstance(op, ast.In) else f"(!{r})"
            if type(op) in CMP:
                x, tx = self.expr(a)
                y, ty = self.expr(b)
                if tx == "oint":
                    x, tx = f"({x}.getD 0)", "int"  # R4-like: None compared only when unreachable
                if ty == "oint":
                    y, ty = f"({y}.getD 0)", "int"
                self.need(tx, "int", a)
                self.need(ty, "int", b)
                return f"decide ({x} {CMP[type(op)]} {y})"
            raise TranslationError(f"{self.name}: unsupported comparison `{src(n)}`")
        v, t = self.expr(n)
        if t == "bool":
            return v
        if t == "dict":
            return f"(!{v}.isEmpty)"
        raise TranslationError(f"{self.name}: truth value of a {t}: `{src(n)}`")

    # ---------------------------------------------------------------- statements
    @staticmethod
    def terminates(stmts):
        if not stmts:
            return False
        last = stmts[-1]
        if isinstance(last, (ast.Return, ast.Raise)):
            return True
        if isinstance(last, ast.If):
            return Fn.terminates(last.body) and Fn.terminates(last.orelse)
        return False

    @staticmethod
    def has_exit(stmts):
        return any(isinstance(x, (ast.Return, ast.Raise)) for s in stmts for x in ast.walk(s))

    @staticmethod
    def assigned(stmts):
        out = []
        for s in stmts:
            for x in ast.walk(s):
                tgt = None
                if isinstance(x, (ast.Assign, ast.AugAssign)):
                    tgts = x.targets if isinstance(x, ast.Assign) else [x.target]
                    for t in tgts:
                        for e in (t.elts if isinstance(t, ast.Tuple) else [t]):
                            if isinstance(e, ast.Name):
                                tgt = e.id
                            elif isinstance(e, ast.Subscript) and isinstance(e.value, ast.Name):
                                tgt = e.value.id
                            elif isinstance(e, ast.Attribute) and isinstance(e.value, ast.Name) and e.value.id == "self":
                                tgt = f"self_{field_name(e.attr)}"
                            if tgt and tgt not in out:
                                out.append(tgt)
                elif isinstance(x, ast.Call) and isinstance(x.func, ast.Attribute) and x.func.attr == "update" and isinstance(x.func.value, ast.Name):
                    if x.func.value.id not in out:
                        out.append(x.func.value.id)
                elif isinstance(x, ast.For):
                    for e in (x.target.elts if isinstance(x.target, ast.Tuple) else [x.target]):
                        if isinstance(e, ast.Name) and e.id not in out:
                            out.append(e.id)
        return out

    def tup(self, names):
        return names[0] if len(names) == 1 else "(" + ", ".join(names) + ")"

    def tup_type(self, names):
        return " × ".join(LEAN_TYPE[self.env[v]] for v in names)

    def block(self, stmts, k, ind):
        """Lean term for `stmts` followed by the continuation k() (a function producing the term that uses the
        current variables); `ind` = indentation"""
        if not stmts:
            return k()
        s, rest = stmts[0], stmts[1:]
        pad = " " * ind
        if isinstance(s, ast.Expr) and isinstance(s.value, ast.Constant) and isinstance(s.value.value, str):
            return self.block(rest, k, ind)
        if isinstance(s, ast.Return):
            if rest:
                raise TranslationError(f"{self.name}: statements after return")
            if s.value is None:
                raise TranslationError(f"{self.name}: bare return")
            if isinstance(s.value, ast.Tuple):
                vals = []
                for e in s.value.elts:
                    v, t = self.expr(e)
                    self.need(t, "dict", e)
                    vals.append(v)
                v = "(" + ", ".join(vals) + ")"
            else:
                v, _t = self.expr(s.value)
            return f".ok {v}" if self.raises else v
        if isinstance(s, ast.Raise):
            exc = s.exc.func.id if isinstance(s.exc, ast.Call) and isinstance(s.exc.func, ast.Name) else (s.exc.id if isinstance(s.exc, ast.Name) else None)
            if exc is None:
                raise TranslationError(f"{self.name}: unsupported raise `{src(s)}`")
            return f'.error "{exc}"'
        if isinstance(s, ast.Assign) and len(s.targets) == 1:
            t = s.targets[0]
            if isinstance(t, ast.Name):
                v, ty = self.expr(s.value)
                if ty == "none":
                    raise TranslationError(f"{self.name}: `{src(s)}` assigns None")
                self.env[t.id] = ty
                return f"let {t.id} := {v}\n{pad}" + self.block(rest, k, ind)
            if isinstance(t, ast.Attribute) and isinstance(t.value, ast.Name) and t.value.id == "self" and self.self_fields is not None:
                if isinstance(s.value, ast.Constant) and s.value.value is None:
                    self.memo_none.append(t.attr)
                    return self.block(rest, k, ind)
                v, ty = self.expr(s.value)
                nm = f"self_{field_name(t.attr)}"
                self.env[nm] = ty
                self.self_fields[t.attr] = ty
                return f"let {nm} := {v}\n{pad}" + self.block(rest, k, ind)
            if isinstance(t, ast.Subscript) and isinstance(t.value, ast.Name):
                d, td = self.expr(t.value)
                self.need(td, "dict", t.value)
                kk, tk = self.expr(t.slice)
                self.need(tk, "int", t.slice)
                v, tv = self.expr(s.value)
                self.need(tv, "int", s.value)
                return f"let {d} := dset {d} {kk} {v}\n{pad}" + self.block(rest, k, ind)
            if isinstance(t, ast.Tuple) and all(isinstance(e, ast.Name) for e in t.elts) and len(t.elts) == 2:
                v, ty = self.expr(s.value)
                self.need(ty, "dict2", s.value)
                a, b = t.elts[0].id, t.elts[1].id
                self.env[a] = self.env[b] = "dict"
                return f"let {a}_{b} := {v}\n{pad}let {a} := {a}_{b}.1\n{pad}let {b} := {a}_{b}.2\n{pad}" + self.block(rest, k, ind)
        if isinstance(s, ast.AugAssign) and isinstance(s.target, ast.Name) and isinstance(s.op, (ast.Add, ast.Sub)):
            x, tx = self.expr(s.target)
            v, tv = self.expr(s.value)
            self.need(tx, "int", s.target)
            self.need(tv, "int", s.value)
            return f"let {x} := {x} {'+' if isinstance(s.op, ast.Add) else '-'} {v}\n{pad}" + self.block(rest, k, ind)
        if isinstance(s, ast.Expr) and isinstance(s.value, ast.Call) and isinstance(s.value.func, ast.Attribute) and s.value.func.attr == "update" \
                and isinstance(s.value.func.value, ast.Name) and len(s.value.args) == 1 and not s.value.keywords:
            tgt = s.value.func.value
            arg = s.value.args[0]
            d, td = self.expr(tgt)
            self.need(td, "dict", tgt)
            if isinstance(arg, ast.DictComp):  # R2
                if len(arg.generators) != 1 or arg.generators[0].ifs or not isinstance(arg.generators[0].target, ast.Name):
                    raise TranslationError(f"{self.name}: unsupported comprehension `{src(arg)}`")
                g = arg.generators[0]
                loop = ast.For(target=g.target, iter=g.iter, orelse=[], body=[
                    ast.Assign(targets=[ast.Subscript(value=tgt, slice=arg.key, ctx=ast.Store())], value=arg.value)])
                return self.block([loop] + rest, k, ind)
            v, tv = self.expr(arg)
            self.need(tv, "dict", arg)
            return f"let {d} := dupdate {d} {v}\n{pad}" + self.block(rest, k, ind)
        if isinstance(s, ast.If):
            # R5: cache
            if self.self_fields is not None and isinstance(s.test, ast.Compare) and isinstance(s.test.ops[0], ast.Is) and not s.orelse and len(s.body) == 1 \
                    and isinstance(s.body[0], ast.Assign) and src(s.body[0].targets[0]) == src(s.test.left) \
                    and isinstance(s.test.left, ast.Attribute) and src(s.test.left.value) == "self" \
                    and isinstance(s.test.comparators[0], ast.Constant) and s.test.comparators[0].value is None:
                attr = s.test.left.attr
                if attr not in self.unit.cache_fields:
                    raise TranslationError(f"{self.name}: `{src(s.test)}` but __init__ does not set self.{attr} = None")
                self.memo[attr] = s.body[0].value
                return self.block(rest, k, ind)
            c = self.test(s.test)
            if self.has_exit(s.body) or self.has_exit(s.orelse):
                # a branch leaves the function: the rest of the block is the continuation of the other paths
                saved = dict(self.env)
                a = self.block(list(s.body) + ([] if self.terminates(s.body) else rest), k, ind + 2)
                self.env = dict(saved)
                b = self.block(list(s.orelse) + ([] if (s.orelse and self.terminates(s.orelse)) else rest), k, ind + 2)
                self.env = saved if self.terminates(s.body) else self.env
                return f"if {c} then\n{pad}  {a}\n{pad}else\n{pad}  {b}"
            names = [v for v in self.assigned(list(s.body) + list(s.orelse))]
            for v in names:
                if v not in self.env:
                    raise TranslationError(f"{self.name}: `{v}` is first assigned inside a branch of `if {src(s.test)}`")
            t = self.tup(names)
            saved = dict(self.env)
            a = self.block(list(s.body), lambda: t, ind + 4)
            self.env = dict(saved)
            b = self.block(list(s.orelse), lambda: t, ind + 4)
            self.env = saved
            if len(names) == 1:
                head = f"let {t} :=\n{pad}  if {c} then\n{pad}    {a}\n{pad}  else\n{pad}    {b}\n{pad}"
                return head + self.block(rest, k, ind)
            st = "st_" + "_".join(names)
            head = f"let {st} : {self.tup_type(names)} :=\n{pad}  if {c} then\n{pad}    {a}\n{pad}  else\n{pad}    {b}\n{pad}"
            return head + self.unpack(st, names, pad) + self.block(rest, k, ind)
        if isinstance(s, ast.For) and not s.orelse:
            return self.loop(s, rest, k, ind)
        raise TranslationError(f"{self.name}: unsupported statement `{src(s)[:80]}`")

    def unpack(self, st, names, pad):
        out = ""
        for i, v in enumerate(names):
            proj = ".2" * i + (".1" if i < len(names) - 1 else "")
            out += f"let {v} := {st}{proj}\n{pad}"
        return out

    def loop(self, s, rest, k, ind):
        pad = " " * ind
        it = s.iter
        keyloop = None
        if isinstance(it, ast.Call) and isinstance(it.func, ast.Name) and it.func.id == "sorted" and len(it.args) == 1 and not it.keywords \
                and isinstance(it.args[0], ast.Call) and isinstance(it.args[0].func, ast.Attribute) and it.args[0].func.attr == "items" and not it.args[0].args:
            d, td = self.expr(it.args[0].func.value)
            self.need(td, "dict", it.args[0].func.value)
            items = f"(sortGaps {d})"
        elif isinstance(it, ast.Call) and isinstance(it.func, ast.Attribute) and it.func.attr == "items" and not it.args:
            d, td = self.expr(it.func.value)
            self.need(td, "dict", it.func.value)
            items = d
        elif isinstance(it, ast.Name):
            d, td = self.expr(it)
            self.need(td, "dict", it)
            items = d
            keyloop = it.id
        else:
            raise TranslationError(f"{self.name}: unsupported loop iterable `{src(it)}`")
        if keyloop is None:
            if not (isinstance(s.target, ast.Tuple) and len(s.target.elts) == 2 and all(isinstance(e, ast.Name) for e in s.target.elts)):
                raise TranslationError(f"{self.name}: loop target `{src(s.target)}` over items")
            kname, vname = s.target.elts[0].id, s.target.elts[1].id
        else:
            if not isinstance(s.target, ast.Name):
                raise TranslationError(f"{self.name}: loop target `{src(s.target)}` over keys")
            kname, vname = s.target.id, f"{s.target.id}_val"
        body_assigned = self.assigned(s.body)
        if keyloop is not None and keyloop in body_assigned:
            raise TranslationError(f"{self.name}: `{keyloop}` is modified while it is iterated")
        targets = [kname] + ([vname] if keyloop is None else [])
        state = [v for v in body_assigned + targets if v in self.env]
        state = list(dict.fromkeys(state))
        if not state:
            raise TranslationError(f"{self.name}: loop over `{src(it)}` changes nothing")
        # free variables of the body
        free = []
        for x in [y for st in s.body for y in ast.walk(st)]:
            nm = None
            if isinstance(x, ast.Name) and isinstance(x.ctx, ast.Load):
                nm = x.id
            elif isinstance(x, ast.Attribute) and isinstance(x.value, ast.Name) and x.value.id == "self":
                nm = "self"
            if nm and nm in self.env and nm not in state and nm not in targets and nm not in free:
                free.append(nm)
        self.nloops += 1
        lname = f"{self.name}_loop{self.nloops}"
        raising = self.has_exit(s.body)
        if raising and any(isinstance(x, ast.Return) for st in s.body for x in ast.walk(st)):
            raise TranslationError(f"{self.name}: return inside a loop")
        sub = Fn(self.unit, self.name, self.env, self.self_fields, self.memo)
        sub.raises = raising
        sub.env[kname] = "int"
        sub.env[vname] = "int"
        if keyloop is not None:
            sub.subst[(keyloop, kname)] = vname
        sub.subst.update(self.subst)
        sub.nloops = self.nloops
        call = f"{lname} {' '.join(free)}".rstrip()
        body = sub.block(list(s.body), lambda: f"{call} rest {sub.tup(state)}", 4)
        if sub.aux:
            raise TranslationError(f"{self.name}: nested loops are not supported")
        sty = self.tup_type(state)
        ret = f"Except String ({sty})" if raising else sty
        params = " ".join(f"({v} : {LEAN_TYPE[self.env[v]]})" for v in free)
        pat = self.tup([("_" if v in targets else v) for v in state])
        self.aux.append(
            f"/-- loop `for {src(s.target)} in {src(it)}` of {self.name}; state ({', '.join(state)}) -/\n"
            f"def {lname} {params} : Gaps → {sty} → {ret}\n"
            f"  | [], st => {'.ok st' if raising else 'st'}\n"
            f"  | ({kname}, {vname}) :: rest, {pat} =>\n    {body}\n")
        st = f"st{self.nloops}"
        unpack = self.unpack(st, state, pad) if len(state) > 1 else f"let {state[0]} := {st}\n{pad}"
        if raising:
            if not self.raises:
                raise TranslationError(f"{self.name}: internal: raising loop in a non-raising function")
            return f"match {call} {items} {self.tup(state)} with\n{pad}| .error e => .error e\n{pad}| .ok {st} =>\n{pad}  " + \
                unpack.replace(f"\n{pad}", f"\n{pad}  ") + self.block(rest, k, ind + 2)
        return f"let {st} := {call} {items} {self.tup(state)}\n{pad}" + unpack + self.block(rest, k, ind)


class Unit:
    def __init__(self, tree):
        self.tree = tree
        self.raising = set()
        self.cache_fields = []


def _func(body, name):
    f = [n for n in body if isinstance(n, ast.FunctionDef) and n.name == name]
    if len(f) != 1:
        raise TranslationError(f"function {name} not found exactly once")
    return f[0]


def _params(fn, skip_self=False):
    a = fn.args
    if a.vararg or a.kwarg or a.kwonlyargs or a.posonlyargs:
        raise TranslationError(f"{fn.name}: unsupported parameter kinds")
    names = [x.arg for x in a.args]
    return names[1:] if skip_self else names


PRELUDE = """/-- `min(d)` of a dict: its smallest key = the first key of `sorted(d.items())` (0 for the empty dict, where Python
raises; only evaluated behind a non-emptiness test) -/
def minKey (g : Gaps) : Int := match sortGaps g with | [] => 0 | (p, _) :: _ => p

/-- `a.update(b)`: assignment of every item of `b` in order; the update of an empty dict is a copy (R3) -/
def dupdate (a b : Gaps) : Gaps := if a.isEmpty then b else b.foldl (fun acc kv => dset acc kv.1 kv.2) a

"""


def translate(path: Path):
    text = Path(path).read_text()
    tree = ast.parse(text)
    unit = Unit(tree)
    problems, defs, seen = [], [], {}

    # ---- class _GapOffset
    try:
        cls = [n for n in tree.body if isinstance(n, ast.ClassDef) and n.name == "_GapOffset"]
        if len(cls) != 1:
            raise TranslationError("class _GapOffset not found exactly once")
        init = _func(cls[0].body, "__init__")
        ps = _params(init, skip_self=True)
        if ps != ["gaps_lengths", "invert"] or len(init.args.defaults) != 1 or src(init.args.defaults[0]) != "False":
            raise TranslationError(f"_GapOffset.__init__ parameters are {ps} (defaults {[src(d) for d in init.args.defaults]})")
        f = Fn(unit, "gapOffsetInit", dict(gaps_lengths="dict", invert="bool"), self_fields={})
        f.memo_none = []
        fields = {}

        def fin():
            for a, t in f.self_fields.items():
                fields[a] = t
            return "{ " + ", ".join(f"{field_name(a)} := self_{field_name(a)}" for a in f.self_fields) + " }"

        body = f.block(list(init.body), fin, 2)
        unit.cache_fields = list(f.memo_none)
        struct = "structure GapOffsetG where\n" + "".join(f"  {field_name(a)} : {LEAN_TYPE[t]}\n" for a, t in fields.items())
        defs.append("/-- the attributes `_GapOffset.__init__` sets (cache attributes " + ", ".join(unit.cache_fields) + " excluded, R5) -/\n" + struct)
        defs.extend(f.aux)
        defs.append(f"/-- `_GapOffset.__init__(gaps_lengths, invert)` -/\ndef gapOffsetInit (gaps_lengths : Gaps) (invert : Bool) : GapOffsetG :=\n  {body}\n")
        seen["_GapOffset.__init__"] = f"fields {list(fields)}"

        get = _func(cls[0].body, "__getitem__")
        if _params(get, skip_self=True) != ["index"]:
            raise TranslationError("_GapOffset.__getitem__ parameters")
        g = Fn(unit, "gapOffsetGetitem", dict(self="go", index="int"), self_fields=dict(fields))
        body = g.block(list(get.body), lambda: (_ for _ in ()).throw(TranslationError("__getitem__ falls off its end")), 2)
        defs.extend(g.aux)
        defs.append(f"/-- `_GapOffset.__getitem__(index)` -/\ndef gapOffsetGetitem (self : GapOffsetG) (index : Int) : Int :=\n  {body}\n")
        seen["_GapOffset.__getitem__"] = "ok"
        other = [n.name for n in cls[0].body if isinstance(n, ast.FunctionDef) and n.name not in ("__init__", "__getitem__", "__repr__", "__str__")]
        if other:
            raise TranslationError(f"_GapOffset has further methods {other}")
    except TranslationError as e:
        problems.append(f"_GapOffset: {e}")

    # ---- module functions
    for py in ORDER:
        ln, ptypes, rt = FUNCS[py]
        try:
            fn = _func(tree.body, py)
            ps = _params(fn)
            if len(ps) != len(ptypes) or fn.args.defaults:
                raise TranslationError(f"{py}: parameters {ps}")
            f = Fn(unit, ln, dict(zip(ps, ptypes)))
            f.raises = any(isinstance(x, ast.Raise) for x in ast.walk(fn))
            if f.raises:
                unit.raising.add(py)
            body = f.block(list(fn.body), lambda: (_ for _ in ()).throw(TranslationError(f"{py} falls off its end")), 2)
            defs.extend(f.aux)
            rty = {"dict": "Gaps", "dict2": "Gaps × Gaps"}[rt]
            if f.raises:
                rty = f"Except String ({rty})"
            sig = " ".join(f"({p} : {LEAN_TYPE[t]})" for p, t in zip(ps, ptypes))
            defs.append(f"/-- `{py}({', '.join(ps)})` -/\ndef {ln} {sig} : {rty} :=\n  {body}\n")
            seen[py] = "ok"
        except TranslationError as e:
            problems.append(f"{py}: {e}")

    header = "/-\n  GENERATED by /verif/translator/c18_gaps2lean.py from cogent3/app/align.py\n" \
             "  (regenerated on every check run; do not edit).  Every definition is proved equal to the hand model\n" \
             "  Model/GapMerge.lean in Props/C18G.lean.\n-/\nimport CogentModel.Model.GapMerge\n\n" \
             "namespace CogentModel.Gen.C18Gaps\nopen CogentModel.GapMerge\n\n" + PRELUDE
    lean = header + "\n".join(defs) + "\nend CogentModel.Gen.C18Gaps\n"
    if problems:
        return None, dict(seen=seen), problems
    return lean, dict(seen=seen), problems


def write_if_changed(path: Path, text: str) -> bool:
    if path.exists() and path.read_text() == text:
        return False
    path.parent.mkdir(parents=True, exist_ok=True)
    path.write_text(text)
    return True


if __name__ == "__main__":
    import sys

    p = Path(sys.argv[1] if len(sys.argv) > 1 else "/repo/src/cogent3/app/align.py")
    lean, info, problems = translate(p)
    print(lean)
    print(problems, file=sys.stderr)
