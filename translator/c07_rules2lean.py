"""C07 translator: statements of cogent3/recalculation/scope.py and cogent3/evolve/parameter_controller.py
->  lean/CogentModel/Gen/C07Rules.lean

Translated from the CURRENT source text (stdlib `ast` only, nothing of cogent3 is imported), one python statement
to one line of a Lean `do` block in the `Except String` monad (`raise X` -> `throw "X"`, `assert` -> `pyAssert`,
`for` / `continue` / `return` / re-assignment are Lean's own `for` / `continue` / `return` / `let mut`):

  scope.py  _LeafDefn.get_current_bounds, _LeafDefn.get_mean_current_value (specialised to warn=False),
            the per-scope body of the first loop of _LeafDefn.assign_all (+ the statements before the loop it reads),
            ParameterController._updateIntermediateValues, update_intermediate_values, assign_all,
            update_from_calculator, updates_postponed (a @contextmanager generator: the statements run on entry, on a normal exit and when an
            exception leaves the block become three functions),
            _NonLeafDefn.update (class NLFn below: the rebuild of the scope -> input-ordinal mapping, the regrouping and the
            recomputation of one value per group; primitives and hand model in lean/CogentModel/Model/NonLeaf.lean)
  parameter_controller.py  the tail of set_param_rule: everything after the scope keywords have been parsed, i.e. the
            argument checks and the argument list of the final self.assign_all(...) call

Every python value that may be None or a number is an `Option Rat`; attribute accesses / library calls map to ONE
primitive each of lean/CogentModel/Model/RulesPrims.lean (table `_call` / `_attr` below).  Anything outside the
supported fragment is a reported translation problem, never skipped silently.  The skeleton of `_LeafDefn.assign_all`
around the translated loop body (collect every scope's setting first, assign afterwards) is not translated; it is
compared with the expected AST shape and any other shape is a translation problem (the hand model
`Rules.assignAll` has that shape; the behaviour is tied by the harness).
The output is a pure function of the two source texts.
"""
from __future__ import annotations

import ast
from pathlib import Path


class Unsupported(Exception):
    pass


RESERVED = {"default", "from", "at", "end", "fun", "let", "have", "show", "then", "else", "if", "by", "match", "with",
            "def", "open", "calc", "instance", "structure", "where", "do", "in", "for", "return", "mut", "local", "prefix"}


def lname(n: str) -> str:
    return n + "_" if n in RESERVED else n


def u(n) -> str:
    return ast.unparse(n)


class Fn:
    """one python statement list -> lines of a Lean do block"""

    def __init__(self, name, params, ptypes, var_types, ctl=False, const_false=(), result=None, frame=None):
        self.name = name
        self.params = list(params)
        self.types = dict(ptypes)  # python name -> type tag
        self.var_types = dict(var_types)
        self.ctl = ctl  # statements mutate `self` (threaded as a mutable variable)
        self.const_false = set(const_false)
        self.result = result  # lean text returned by a bare `return` / at the end
        self.declared = set(self.params)
        self.lines = []
        self.tmp = 0

    # ------------------------------------------------------------------ types
    TYPE_LEAN = {"PV": "PV", "S": "PSetting", "OB": "Option Bool", "B": "Bool", "LPV": "List PV", "LN": "List Nat",
                 "OLN": "Option (List Nat)", "N": "Nat"}
    TYPE_DEFAULT = {"PV": "none", "S": "default", "OB": "none", "B": "false", "LPV": "[]", "LN": "[]", "OLN": "none",
                    "N": "0"}

    def tof(self, name):
        return self.types.get(name) or self.var_types.get(name) or "PV"

    # ------------------------------------------------------------------ expressions
    def truth(self, n):
        """python truthiness of an expression -> Lean Bool text"""
        if isinstance(n, ast.BoolOp):
            op = " && " if isinstance(n.op, ast.And) else " || "
            return "(" + op.join(self.truth(v) for v in n.values) + ")"
        if isinstance(n, ast.UnaryOp) and isinstance(n.op, ast.Not):
            return f"(!{self.truth(n.operand)})"
        if isinstance(n, ast.Compare):
            return self.compare(n)
        t, e = self.ex(n)
        if t == "B":
            return e
        if t == "PV":
            return f"(truthy {e})"
        if t == "OB":
            return f"(truthyB {e})"
        raise Unsupported(f"truthiness of `{u(n)}` (type {t})")

    def compare(self, n):
        if len(n.ops) != 1:
            raise Unsupported(f"chained comparison `{u(n)}`")
        op, a, b = n.ops[0], n.left, n.comparators[0]
        if isinstance(op, (ast.Is, ast.IsNot)):
            if not (isinstance(b, ast.Constant) and b.value is None):
                raise Unsupported(f"`{u(n)}`")
            _, ea = self.ex(a)
            return f"{ea}.isNone" if isinstance(op, ast.Is) else f"{ea}.isSome"
        if isinstance(op, ast.In):
            if self.ctl and u(b) == "self._changed" and isinstance(a, ast.Call) and u(a.func) == "id" and len(a.args) == 1:
                return f"(Prim.changedContains self {self.ex(a.args[0])[1]})"
            raise Unsupported(f"`{u(n)}`")
        ta, ea = self.ex(a)
        tb, eb = self.ex(b)
        if {ta, tb} - {"PV"}:
            raise Unsupported(f"comparison of non-numbers `{u(n)}`")
        prim = {ast.Eq: "pyEq", ast.Lt: "pyLt", ast.Gt: "pyGt"}.get(type(op))
        if prim is None:
            raise Unsupported(f"comparison operator in `{u(n)}`")
        return f"(Prim.{prim} {ea} {eb})"

    def ex(self, n):
        """-> (type tag, lean text)"""
        if isinstance(n, ast.Constant):
            if n.value is None:
                return "NONE", "none"
            if isinstance(n.value, bool):
                return "B", "true" if n.value else "false"
            if isinstance(n.value, int):
                return "PV", f"(some {n.value})"
            raise Unsupported(f"constant {n.value!r}")
        if isinstance(n, ast.Name):
            if n.id == "self":
                return "ST", "self"
            return self.tof(n.id), lname(n.id)
        if isinstance(n, (ast.BoolOp, ast.Compare)) or (isinstance(n, ast.UnaryOp) and isinstance(n.op, ast.Not)):
            return "B", self.truth(n)
        if isinstance(n, ast.Tuple):
            parts = [self.ex(e) for e in n.elts]
            return "T:" + ",".join(p[0] for p in parts), "(" + ", ".join(p[1] for p in parts) + ")"
        if isinstance(n, ast.List):
            parts = [self.ex(e) for e in n.elts]
            return "LN", "[" + ", ".join(p[1] for p in parts) + "]"
        if isinstance(n, ast.BinOp) and isinstance(n.op, ast.Div):
            return "PV", f"(Prim.pyDiv {self.ex(n.left)[1]} {self.ex(n.right)[1]})"
        if isinstance(n, ast.ListComp):
            if len(n.generators) != 1 or n.generators[0].ifs or not isinstance(n.generators[0].target, ast.Name):
                raise Unsupported(f"`{u(n)}`")
            g = n.generators[0]
            ti, ei = self.ex(g.iter)
            if ti != "LN":
                raise Unsupported(f"comprehension over `{u(g.iter)}`")
            v = g.target.id
            old = self.types.get(v)
            self.types[v] = "N"
            te, ee = self.ex(n.elt)
            if old is None:
                self.types.pop(v)
            else:
                self.types[v] = old
            if te != "PV":
                raise Unsupported(f"`{u(n)}`")
            return "LPV", f"({ei}.map (fun {lname(v)} => {ee}))"
        if isinstance(n, ast.Subscript):
            tv, ev = self.ex(n.value)
            if tv == "LPV" and isinstance(n.slice, ast.Constant) and isinstance(n.slice.value, int) and n.slice.value >= 0:
                return "PV", f"(Prim.pyIdx {ev} {n.slice.value})"
            raise Unsupported(f"`{u(n)}`")
        if isinstance(n, ast.Attribute):
            return self.attr(n)
        if isinstance(n, ast.Call):
            return self.call(n)
        raise Unsupported(f"expression `{u(n)}`")

    def attr(self, n):
        t = u(n)
        if not self.ctl:
            if t == "self.numeric":
                return "B", "(Prim.numeric d)"
            if t == "self.const_by_default":
                return "OB", "(Prim.constByDefault d)"
        else:
            if t == "self._update_suspended":
                return "B", "self.suspended"
            if t == "self.defns":
                return "LN", "(Prim.defns g)"
            if n.attr == "clients" and isinstance(n.value, ast.Name) and self.tof(n.value.id) == "N":
                return "LN", f"(Prim.defnClients g {lname(n.value.id)})"
        raise Unsupported(f"attribute `{t}`")

    def _args(self, n, npos, kw_ok=()):
        if len(n.args) != npos or any(isinstance(a, ast.Starred) for a in n.args):
            raise Unsupported(f"call `{u(n)}`: expected {npos} positional arguments")
        for k in n.keywords:
            if k.arg in kw_ok and isinstance(k.value, ast.Name) and k.value.id == k.arg and k.arg in self.const_false:
                continue  # warn=warn at the specialisation warn=False
            raise Unsupported(f"call `{u(n)}`: keyword {k.arg}")
        return [self.ex(a) for a in n.args]

    def call(self, n):
        f = u(n.func)
        if not self.ctl:
            # self.assignments[<e>].get_bounds() / .get_default_value()
            if (isinstance(n.func, ast.Attribute) and isinstance(n.func.value, ast.Subscript)
                    and u(n.func.value.value) == "self.assignments" and not n.args and not n.keywords):
                _, ei = self.ex(n.func.value.slice)
                if n.func.attr == "get_bounds":
                    return "T:PV,PV,PV", f"(Prim.getBounds self {ei})"
                if n.func.attr == "get_default_value":
                    return "PV", f"(Prim.getDefaultValue self {ei})"
            if f == "self.get_default_setting().get_bounds" and not n.args and not n.keywords:
                return "T:PV,PV,PV", "(Prim.defaultBounds d)"
            if f == "self.get_mean_current_value":
                (a,) = self._args(n, 1, kw_ok=("warn",))
                return "PV", f"(← get_mean_current_value d self {a[1]})"
            if f == "self.get_current_bounds":
                (a,) = self._args(n, 1)
                return "T:PV,PV", f"(← get_current_bounds d self {a[1]})"
            if f == "self.unwrap_value":
                (a,) = self._args(n, 1)
                return "PV", f"(Prim.unwrapValue {a[1]})"
            if f == "ConstVal":
                (a,) = self._args(n, 1)
                return "S", f"(PSetting.const {a[1]})"
            if f == "Var":
                if len(n.args) == 1 and not n.keywords and isinstance(n.args[0], ast.Tuple) and len(n.args[0].elts) == 3:
                    a, b, c = [self.ex(e)[1] for e in n.args[0].elts]
                    return "S", f"(PSetting.var {a} {b} {c})"
            if f == "len":
                (a,) = self._args(n, 1)
                return "PV", f"(Prim.pyLen {a[1]})"
            if f == "sum":
                (a,) = self._args(n, 1)
                if a[0] != "LPV":
                    raise Unsupported(f"`{u(n)}`")
                return "PV", f"(Prim.pySum {a[1]})"
        else:
            if f == "isinstance" and len(n.args) == 2 and u(n.args[1]) == "_LeafDefn":
                return "B", f"(Prim.isLeaf g {self.ex(n.args[0])[1]})"
            if u(n) == "list(self.defn_for.values())":
                return "LN", "(Prim.defns g)"  # one entry per definition, in the order of self.defns
        raise Unsupported(f"call `{u(n)}`")

    # ------------------------------------------------------------------ statements
    def emit(self, ind, text):
        self.lines.append("  " * ind + text)

    def assign_name(self, ind, name, text):
        ln = lname(name)
        if name in self.declared:
            self.emit(ind, f"{ln} := {text}")
        else:
            self.declared.add(name)
            self.emit(ind, f"let mut {ln} := {text}")

    def store(self, ind, target, ttype, text):
        if isinstance(target, ast.Name):
            if ttype not in ("NONE",) and not ttype.startswith("T:") and target.id not in self.types:
                self.types.setdefault(target.id, self.var_types.get(target.id, ttype))
            self.assign_name(ind, target.id, text)
        elif self.ctl and u(target) == "self._update_suspended":
            self.emit(ind, f"self := Prim.setSuspended self {text}")
        else:
            raise Unsupported(f"assignment target `{u(target)}`")

    def hoist(self, ind, stmts, outer_later):
        """declare (with a typed default) the names first assigned inside a nested block of `stmts` that are used
        again outside that nested block"""
        plain = set()  # names a preceding plain statement of this block assigns (declared there)
        for i, s in enumerate(stmts):
            if not isinstance(s, (ast.If, ast.For)):
                plain |= {x.id for x in ast.walk(s) if isinstance(x, ast.Name) and isinstance(x.ctx, ast.Store)}
                continue
            inner = [x for x in ast.walk(s) if isinstance(x, ast.Name) and isinstance(x.ctx, ast.Store)
                     and x.id not in plain]
            later = set(outer_later)
            for s2 in stmts[i + 1:]:
                later |= {x.id for x in ast.walk(s2) if isinstance(x, ast.Name)}
            for x in inner:
                if x.id in self.declared or x.id not in later:
                    continue
                if isinstance(s, ast.For) and any(x is y for y in ast.walk(s.target)):
                    continue
                t = self.var_types.get(x.id, "PV")
                self.types[x.id] = t
                self.declared.add(x.id)
                self.emit(ind, f"let mut {lname(x.id)} : {self.TYPE_LEAN[t]} := {self.TYPE_DEFAULT[t]}")

    def block(self, ind, stmts, later=frozenset()):
        self.hoist(ind, stmts, later)
        n0 = len(self.lines)
        for i, s in enumerate(stmts):
            rest = set(later)
            for s2 in stmts[i + 1:]:
                rest |= {x.id for x in ast.walk(s2) if isinstance(x, ast.Name)}
            self.stmt(ind, s, rest, stmts[i + 1:])
        if len(self.lines) == n0:
            self.emit(ind, "pure ()")

    def stmt(self, ind, s, later, following):
        if isinstance(s, ast.Expr) and isinstance(s.value, ast.Constant) and isinstance(s.value.value, str):
            return  # docstring
        if isinstance(s, ast.Pass):
            return
        if isinstance(s, ast.Assign):
            if len(s.targets) > 1:  # a = b = <constant>
                if not isinstance(s.value, ast.Constant):
                    raise Unsupported(f"`{u(s)}`")
                for t in s.targets:
                    self.stmt(ind, ast.Assign(targets=[t], value=s.value), later, following)
                return
            tgt = s.targets[0]
            if self.ctl and isinstance(tgt, ast.Name) and u(s.value) == "self.defn_for[par_name]" and tgt.id in self.params:
                return  # `defn = self.defn_for[par_name]`: the definition is the parameter `defn`
            if isinstance(s.value, (ast.JoinedStr,)) or (isinstance(s.value, ast.Call) and isinstance(s.value.func, ast.Attribute)
                                                         and s.value.func.attr == "join"):
                if following and isinstance(following[-1], ast.Raise):
                    return  # builds the text of the exception raised at the end of this block
                raise Unsupported(f"string statement `{u(s)}`")
            t, e = self.ex(s.value)
            if isinstance(tgt, ast.Tuple):
                n = len(tgt.elts)
                if not t.startswith("T:") or len(t[2:].split(",")) != n:
                    raise Unsupported(f"tuple assignment `{u(s)}`")
                tys = t[2:].split(",")
                tmps = [f"t{i}" for i in range(n)]
                self.emit(ind, f"let ({', '.join(tmps)}) := {e}")
                for el, ty, tm in zip(tgt.elts, tys, tmps):
                    self.store(ind, el, ty, tm)
                return
            if (isinstance(s.value, ast.List) and not s.value.elts and isinstance(tgt, ast.Name)
                    and tgt.id not in self.declared and self.var_types.get(tgt.id) == "LN"):
                self.types[tgt.id] = "LN"
                self.declared.add(tgt.id)
                self.emit(ind, f"let mut {lname(tgt.id)} : List Nat := []")
                return
            if t == "NONE":
                if isinstance(tgt, ast.Name) and tgt.id not in self.declared:
                    ty = self.var_types.get(tgt.id, "PV")
                    self.types[tgt.id] = ty
                    self.declared.add(tgt.id)
                    self.emit(ind, f"let mut {lname(tgt.id)} : {self.TYPE_LEAN[ty]} := none")
                    return
            if isinstance(tgt, ast.Name) and self.tof(tgt.id) == "OLN" and t == "LN":
                e = f"(some {e})"
                t = "OLN"
            self.store(ind, tgt, t, e)
            return
        if isinstance(s, ast.If):
            if isinstance(s.test, ast.Name) and s.test.id in self.const_false:
                if s.orelse:
                    for x in s.orelse:
                        self.stmt(ind, x, later, following)
                return
            self.emit(ind, f"if {self.truth(s.test)} then")
            self.block(ind + 1, s.body, later)
            orelse = s.orelse
            while len(orelse) == 1 and isinstance(orelse[0], ast.If) and not (
                    isinstance(orelse[0].test, ast.Name) and orelse[0].test.id in self.const_false):
                s2 = orelse[0]
                self.emit(ind, f"else if {self.truth(s2.test)} then")
                self.block(ind + 1, s2.body, later)
                orelse = s2.orelse
            if orelse:
                self.emit(ind, "else")
                self.block(ind + 1, orelse, later)
            return
        if isinstance(s, ast.For):
            if s.orelse or not isinstance(s.target, ast.Name):
                raise Unsupported(f"for statement `{u(s)[:60]}`")
            ti, ei = self.ex(s.iter)
            if ti != "LN":
                raise Unsupported(f"loop over `{u(s.iter)}` (type {ti})")
            v = s.target.id
            self.types[v] = "N"
            self.declared.add(v)
            self.emit(ind, f"for {lname(v)} in {ei} do")
            self.block(ind + 1, s.body, later | {v})
            return
        if isinstance(s, ast.Continue):
            self.emit(ind, "continue")
            return
        if isinstance(s, ast.Return):
            if s.value is None:
                if self.result is None:
                    raise Unsupported("bare return")
                self.emit(ind, f"return {self.result}")
            else:
                self.emit(ind, f"return {self.ex(s.value)[1]}")
            return
        if isinstance(s, ast.Raise):
            exc = s.exc
            name = u(exc.func) if isinstance(exc, ast.Call) else u(exc)
            if not name.isidentifier():
                raise Unsupported(f"`{u(s)}`")
            self.emit(ind, f'throw "{name}"')
            return
        if isinstance(s, ast.Assert):
            self.emit(ind, f"Prim.pyAssert {self.truth(s.test)}")
            return
        if isinstance(s, ast.Expr) and isinstance(s.value, ast.Call):
            self.effect(ind, s.value)
            return
        raise Unsupported(f"statement `{u(s)[:70]}`")

    def effect(self, ind, c):
        f = u(c.func)
        if not self.ctl:
            if f == "self.check_setting_is_valid":
                (a,) = self._args(c, 1)
                self.emit(ind, f"Prim.checkSettingIsValid d {a[1]}")
                return
            raise Unsupported(f"call statement `{u(c)}`")
        if f == "self._changed.clear" and not c.args and not c.keywords:
            self.emit(ind, "self := Prim.changedClear self")
            return
        if f == "self._changed.add" and len(c.args) == 1 and isinstance(c.args[0], ast.Call) and u(c.args[0].func) == "id":
            self.emit(ind, f"self := Prim.changedAdd self {self.ex(c.args[0].args[0])[1]}")
            return
        if f == "self._changed.update" and len(c.args) == 1 and isinstance(c.args[0], ast.GeneratorExp):
            ge = c.args[0]
            g0 = ge.generators[0]
            if (len(ge.generators) == 1 and not g0.ifs and isinstance(g0.target, ast.Name)
                    and u(ge.elt) == f"id({g0.target.id})"):
                ti, ei = self.ex(g0.iter)
                if ti == "OLN":
                    ei = f"({ei}.getD [])"
                elif ti != "LN":
                    raise Unsupported(f"`{u(c)}`")
                self.emit(ind, f"self := Prim.changedUpdate self {ei}")
                return
        if f == "self._updateIntermediateValues" and not c.args and not c.keywords:
            self.emit(ind, "self := (← updateIntermediateValues_ g self)")
            return
        if f == "self.update_intermediate_values" and len(c.args) <= 1 and not c.keywords:
            if c.args:
                t, e = self.ex(c.args[0])
                if t == "LN":
                    e = f"(some {e})"
                elif t != "OLN":
                    raise Unsupported(f"`{u(c)}`")
            else:
                e = "none"
            self.emit(ind, f"self := (← update_intermediate_values g self {e})")
            return
        if (isinstance(c.func, ast.Attribute) and c.func.attr == "append" and isinstance(c.func.value, ast.Name)
                and self.tof(c.func.value.id) == "LN" and c.func.value.id in self.declared and len(c.args) == 1
                and not c.keywords):
            t, e = self.ex(c.args[0])
            if t != "N":
                raise Unsupported(f"`{u(c)}`")
            self.emit(ind, f"{lname(c.func.value.id)} := {lname(c.func.value.id)} ++ [{e}]")
            return
        if (isinstance(c.func, ast.Attribute) and c.func.attr == "update_from_calculator" and isinstance(c.func.value, ast.Name)
                and self.tof(c.func.value.id) == "N" and len(c.args) == 1 and u(c.args[0]) == "calc" and not c.keywords):
            self.emit(ind, f"self := Prim.defnFromCalc self {lname(c.func.value.id)} {lname('calc')}")
            return
        if (isinstance(c.func, ast.Attribute) and c.func.attr == "update" and isinstance(c.func.value, ast.Name)
                and self.tof(c.func.value.id) == "N" and not c.args and not c.keywords):
            self.emit(ind, f"self := Prim.defnUpdate g self {lname(c.func.value.id)}")
            return
        if (isinstance(c.func, ast.Attribute) and c.func.attr == "assign_all" and isinstance(c.func.value, ast.Name)
                and self.tof(c.func.value.id) == "N" and u(c).endswith("(*args, **kw)")):
            self.emit(ind, f"self := Prim.defnAssign self {lname(c.func.value.id)} args")
            return
        raise Unsupported(f"call statement `{u(c)}`")

    # ------------------------------------------------------------------ whole function
    def prune(self, stmts):
        """drop what has no counterpart: docstrings, `pass`, the statements that build the message of the exception
        raised at the end of their block, and `defn = self.defn_for[par_name]` (the definition IS the parameter)"""
        res = []
        ends_in_raise = bool(stmts) and isinstance(stmts[-1], ast.Raise)
        for s in stmts:
            if isinstance(s, ast.Pass) or (isinstance(s, ast.Expr) and isinstance(s.value, ast.Constant)
                                           and isinstance(s.value.value, str)):
                continue
            if isinstance(s, ast.Assign) and len(s.targets) == 1:
                v = s.value
                is_str = isinstance(v, ast.JoinedStr) or (isinstance(v, ast.Call) and isinstance(v.func, ast.Attribute)
                                                          and v.func.attr == "join")
                if is_str and ends_in_raise:
                    continue
                if (self.ctl and isinstance(s.targets[0], ast.Name) and s.targets[0].id in self.params
                        and u(v) == "self.defn_for[par_name]"):
                    continue
            if isinstance(s, ast.If):
                s = ast.If(test=s.test, body=self.prune(s.body), orelse=self.prune(s.orelse))
            elif isinstance(s, ast.For):
                s = ast.For(target=s.target, iter=s.iter, body=self.prune(s.body), orelse=s.orelse)
            res.append(s)
        return res

    def body(self, stmts, reassigned_params=()):
        stmts = self.prune(stmts)
        if self.ctl:
            self.emit(1, "let mut self := self")
        assigned = {x.id for s in stmts for x in ast.walk(s) if isinstance(x, ast.Name) and isinstance(x.ctx, ast.Store)}
        for p in self.params:
            if p in assigned:
                self.emit(1, f"let mut {lname(p)} := {lname(p)}")
        self.block(1, stmts)
        if not (stmts and isinstance(stmts[-1], (ast.Return, ast.Raise))):
            if self.result is None:
                raise Unsupported(f"{self.name}: falls off the end without a result")
            self.emit(1, f"return {self.result}")
        return self.lines

class NLFn:
    """`_NonLeafDefn.update`: statements over the definition's own bookkeeping (`self.assignments`, `self.uniq`,
    `self.values`) and its inputs `self.args`; one statement per line, `self` threaded as a mutable variable;
    every attribute access / library call is ONE primitive of Model/NonLeaf.lean (namespace Prim)"""

    def __init__(self):
        self.lines = []
        self.declared = set()

    def emit(self, ind, text):
        self.lines.append("  " * ind + text)

    def target(self, t):
        if isinstance(t, ast.Name):
            return lname(t.id)
        if isinstance(t, ast.Tuple) and all(isinstance(e, ast.Name) for e in t.elts):
            return "(" + ", ".join(lname(e.id) for e in t.elts) + ")"
        raise Unsupported(f"loop target `{u(t)}`")

    def ex(self, n):
        t = u(n)
        if isinstance(n, ast.Name):
            if n.id == "self":
                raise Unsupported("bare `self`")
            return lname(n.id)
        if t == "self.args":
            return "args"
        if t == "self.uniq":
            return "(Prim.uniq self)"
        if isinstance(n, ast.ListComp):
            if len(n.generators) != 1 or n.generators[0].ifs or n.generators[0].is_async:
                raise Unsupported(f"`{t}`")
            g = n.generators[0]
            return f"({self.ex(g.iter)}.map (fun {self.target(g.target)} => {self.ex(n.elt)}))"
        if isinstance(n, ast.Subscript):
            if (isinstance(n.value, ast.Attribute) and n.value.attr == "values" and isinstance(n.value.value, ast.Name)
                    and isinstance(n.slice, ast.Name)):
                return f"(Prim.argValue {lname(n.value.value.id)} {lname(n.slice.id)})"
            raise Unsupported(f"`{t}`")
        if isinstance(n, ast.Call):
            f = u(n.func)
            if n.keywords:
                raise Unsupported(f"call `{t}`: keywords")
            if f == "dict" and len(n.args) == 1 and isinstance(n.args[0], ast.Call) and u(n.args[0].func) == "list" \
                    and len(n.args[0].args) == 1 and isinstance(n.args[0].args[0], ast.Call):
                z = n.args[0].args[0]
                if u(z.func) == "zip" and len(z.args) == 2 and u(z.args[0]) == "self.valid_dimensions" and not z.keywords:
                    return f"(Prim.scopeDict self {self.ex(z.args[1])})"
            if f == "zip" and len(n.args) == 2 and not any(isinstance(a, ast.Starred) for a in n.args):
                return f"(List.zip {self.ex(n.args[0])} {self.ex(n.args[1])})"
            if f == "tuple" and len(n.args) == 1 and not isinstance(n.args[0], ast.Starred):
                return f"(Prim.pyTuple {self.ex(n.args[0])})"
            if f == "self.make_calc_function" and not n.args:
                return "(Prim.makeCalcFunction f)"
            if (isinstance(n.func, ast.Attribute) and n.func.attr == "output_ordinal_for" and isinstance(n.func.value, ast.Name)
                    and len(n.args) == 1 and not isinstance(n.args[0], ast.Starred)):
                return f"(Prim.outputOrdinalFor {lname(n.func.value.id)} {self.ex(n.args[0])})"
            # nullor(self.name, <calc>, self.recycling)(*<list>)
            if (isinstance(n.func, ast.Call) and u(n.func.func) == "nullor" and not n.func.keywords
                    and len(n.func.args) == 3 and u(n.func.args[0]) == "self.name" and u(n.func.args[2]) == "self.recycling"
                    and len(n.args) == 1 and isinstance(n.args[0], ast.Starred)):
                return f"(Prim.nullorCall {self.ex(n.func.args[1])} {self.ex(n.args[0].value)})"
            raise Unsupported(f"call `{t}`")
        raise Unsupported(f"expression `{t}`")

    def stmt(self, ind, s):
        if isinstance(s, ast.For):
            if s.orelse or u(s.iter) != "self.assignments" or not isinstance(s.target, ast.Name):
                raise Unsupported(f"for statement `{u(s)[:60]}`")
            self.emit(ind, f"for {lname(s.target.id)} in (Prim.keys self) do")
            for x in s.body:
                self.stmt(ind + 1, x)
            return
        if isinstance(s, ast.Assign) and len(s.targets) == 1:
            tgt = s.targets[0]
            if isinstance(tgt, ast.Name):
                kw = "" if tgt.id in self.declared else "let mut "
                self.declared.add(tgt.id)
                self.emit(ind, f"{kw}{lname(tgt.id)} := {self.ex(s.value)}")
                return
            if isinstance(tgt, ast.Subscript) and u(tgt.value) == "self.assignments":
                self.emit(ind, f"self := Prim.setAssignment self {self.ex(tgt.slice)} {self.ex(s.value)}")
                return
            if u(tgt) == "self.values":
                self.emit(ind, f"self := Prim.setValues self {self.ex(s.value)}")
                return
            raise Unsupported(f"assignment target `{u(tgt)}`")
        if isinstance(s, ast.Expr) and u(s.value) == "self._update_from_assignments()":
            self.emit(ind, "self := Prim.updateFromAssignments self")
            return
        raise Unsupported(f"statement `{u(s)[:70]}`")

    def body(self, stmts):
        self.emit(1, "let mut self := self")
        for s in stmts:
            self.stmt(1, s)
        self.emit(1, "return self")
        return self.lines


def _find(tree, cls, name):
    for n in ast.walk(tree):
        if isinstance(n, ast.ClassDef) and (cls is None or n.name == cls):
            for m in n.body:
                if isinstance(m, ast.FunctionDef) and m.name == name:
                    return m
    return None


def _strip_doc(stmts):
    if stmts and isinstance(stmts[0], ast.Expr) and isinstance(stmts[0].value, ast.Constant) and isinstance(stmts[0].value.value, str):
        return stmts[1:]
    return stmts


def _argnames(f):
    return [a.arg for a in f.args.args]


LOOP2 = """
for scope, setting in settings:
    for scope_t in scope:
        assert scope_t in self.assignments, scope_t
        self.assignments[scope_t] = setting
"""
LOOP1_ITER = "self.interpret_scopes(independent=independent, **scope_spec or {})"

HEADER = """import CogentModel.Model.RulesPrims
import CogentModel.Model.NonLeaf
/- GENERATED by translator/c07_rules2lean.py from cogent3/recalculation/scope.py and
   cogent3/evolve/parameter_controller.py on every run -- do not edit.  One python statement per line; the
   primitives are those of Model/RulesPrims.lean.  Props/C07Gen.lean proves every definition below equal to
   the hand model (Model/ParamRules.lean, Model/Controller.lean) for all arguments. -/
set_option linter.unusedVariables false
"""


def translate(src_root: Path):
    """-> (lean text or None, info, problems)"""
    problems, info = [], {}
    scope_py = (src_root / "recalculation" / "scope.py").read_text()
    pc_py = (src_root / "evolve" / "parameter_controller.py").read_text()
    st, pt = ast.parse(scope_py), ast.parse(pc_py)
    out = [HEADER, "namespace CogentModel.Gen.C07Rules", "open CogentModel.Rules CogentModel.Rules.Prim", ""]
    done = []

    def section(title, sig, fn, stmts):
        try:
            lines = fn.body(stmts)
        except Unsupported as e:
            problems.append(f"{title}: unsupported: {e}")
            return
        out.append(f"/-- {title} -/")
        out.append(sig)
        out.extend(lines)
        out.append("")
        done.append(title)

    # ---- _LeafDefn.get_current_bounds
    f = _find(st, "_LeafDefn", "get_current_bounds")
    if f is None or _argnames(f) != ["self", "scope"]:
        problems.append("_LeafDefn.get_current_bounds(self, scope) not found")
    else:
        section("_LeafDefn.get_current_bounds",
                "def get_current_bounds (d : Defn) (self : St) (scope : List Nat) : Except String (PV × PV) := do",
                Fn("get_current_bounds", ["scope"], {"scope": "LN"}, {}), _strip_doc(f.body))
    # ---- _LeafDefn.get_mean_current_value
    f = _find(st, "_LeafDefn", "get_mean_current_value")
    if f is None or _argnames(f) != ["self", "scope", "warn"]:
        problems.append("_LeafDefn.get_mean_current_value(self, scope, warn) not found")
    else:
        section("_LeafDefn.get_mean_current_value (warn=False)",
                "def get_mean_current_value (d : Defn) (self : St) (scope : List Nat) : Except String PV := do",
                Fn("get_mean_current_value", ["scope"], {"scope": "LN"}, {"values": "LPV"}, const_false=["warn"]),
                _strip_doc(f.body))
    # ---- _LeafDefn.assign_all: per-scope body of the first loop
    f = _find(st, "_LeafDefn", "assign_all")
    want = ["self", "scope_spec", "value", "lower", "upper", "const", "independent", "warn"]
    if f is None or _argnames(f) != want:
        problems.append(f"_LeafDefn.assign_all({', '.join(want)}) not found")
    else:
        body = _strip_doc(f.body)
        loops = [i for i, s in enumerate(body) if isinstance(s, ast.For)]
        ok = (len(loops) == 2 and loops[1] == len(body) - 1 and loops[0] == len(body) - 2
              and ast.dump(body[loops[1]]) == ast.dump(ast.parse(LOOP2).body[0])
              and u(body[loops[0]].iter) == LOOP1_ITER and u(body[loops[0]].target) == "scope"
              and not body[loops[0]].orelse and body[loops[0]].body
              and u(body[loops[0]].body[-1]) == "settings.append((scope, setting))")
        if not ok:
            problems.append("_LeafDefn.assign_all: the skeleton around the per-scope body is not `settings = []; ...; for scope in "
                            "self.interpret_scopes(...): <body>; settings.append((scope, setting))` followed by the loop that "
                            "assigns the collected settings")
        else:
            pre = body[: loops[0]]
            loop_body = body[loops[0]].body[:-1]
            used = {x.id for s in loop_body for x in ast.walk(s) if isinstance(x, ast.Name)}
            keep = []
            for s in pre:
                stores = {x.id for x in ast.walk(s) if isinstance(x, ast.Name) and isinstance(x.ctx, ast.Store)}
                if stores & used:
                    keep.append(s)
                elif u(s) != "settings = []":
                    problems.append(f"_LeafDefn.assign_all: statement before the loop not understood: `{u(s)[:60]}`")
            ret = ast.Return(value=ast.Name(id="setting", ctx=ast.Load()))
            section("_LeafDefn.assign_all: the body of `for scope in self.interpret_scopes(...)` (warn=False)",
                    "def assign_all_scope (d : Defn) (self : St) (scope : List Nat) (value lower upper : PV) "
                    "(const : Option Bool) : Except String PSetting := do",
                    Fn("assign_all_scope", ["scope", "value", "lower", "upper", "const"],
                       {"scope": "LN", "value": "PV", "lower": "PV", "upper": "PV", "const": "OB"},
                       {"setting": "S"}, const_false=["warn"]),
                    keep + loop_body + [ret])
    # ---- set_param_rule tail
    f = _find(pt, None, "set_param_rule")
    want = ["self", "par_name", "is_independent", "is_constant", "value", "lower", "init", "upper", "warn"]
    if f is None or _argnames(f) != want:
        problems.append(f"set_param_rule({', '.join(want)}) not found")
    else:
        body = _strip_doc(f.body)
        cut = [i for i, s in enumerate(body)
               if isinstance(s, ast.If) and isinstance(s.test, ast.NamedExpr) and u(s.test.target) == "edges"]
        last = body[-1]
        if (len(cut) != 1 or not (isinstance(last, ast.Expr) and isinstance(last.value, ast.Call)
                                  and u(last.value.func) == "self.assign_all")):
            problems.append("set_param_rule: expected `if edges := ...` (end of scope parsing) and a final self.assign_all(...) call")
        else:
            call = last.value
            a = call.args
            kws = {k.arg: u(k.value) for k in call.keywords}
            if len(a) < 2 or u(a[0]) != "par_name" or u(a[1]) != "scopes" or kws != {"warn": "warn"}:
                problems.append(f"set_param_rule: final call not understood: `{u(call)}`")
            else:
                ret = ast.Return(value=ast.Tuple(elts=list(a[2:]), ctx=ast.Load()))
                section("ParameterController.set_param_rule: the statements after the scope keywords are parsed; returns the "
                        "arguments (value, lower, upper, const, independent) of the final self.assign_all call",
                        "def set_param_rule_tail (is_independent : Option Bool) (is_constant : Bool) (value lower init upper : PV) : "
                        "Except String (PV × PV × PV × Bool × Option Bool) := do",
                        Fn("set_param_rule_tail", ["is_independent", "is_constant", "value", "lower", "init", "upper"],
                           {"is_independent": "OB", "is_constant": "B", "value": "PV", "lower": "PV", "init": "PV",
                            "upper": "PV"}, {}),
                        body[cut[0] + 1: -1] + [ret])
    out += ["end CogentModel.Gen.C07Rules", "", "namespace CogentModel.Gen.C07Ctl", "open CogentModel.Ctl",
            "variable {V : Type} [Inhabited V]", ""]
    # ---- ParameterController
    f = _find(st, "ParameterController", "_updateIntermediateValues")
    if f is None or _argnames(f) != ["self"]:
        problems.append("ParameterController._updateIntermediateValues(self) not found")
    else:
        section("ParameterController._updateIntermediateValues",
                "def updateIntermediateValues_ (g : Graph V) (self : St V) : Except String (St V) := do",
                Fn("_updateIntermediateValues", [], {}, {}, ctl=True, result="self"), _strip_doc(f.body))
    f = _find(st, "ParameterController", "update_intermediate_values")
    if f is None or _argnames(f) != ["self", "changed"]:
        problems.append("ParameterController.update_intermediate_values(self, changed) not found")
    else:
        section("ParameterController.update_intermediate_values",
                "def update_intermediate_values (g : Graph V) (self : St V) (changed : Option (List Nat)) : Except String (St V) := do",
                Fn("update_intermediate_values", ["changed"], {"changed": "OLN"}, {}, ctl=True, result="self"),
                _strip_doc(f.body))
    f = _find(st, "ParameterController", "assign_all")
    if f is None or _argnames(f) != ["self", "par_name"] or f.args.vararg is None or f.args.kwarg is None:
        problems.append("ParameterController.assign_all(self, par_name, *args, **kw) not found")
    else:
        section("ParameterController.assign_all (`defn = self.defn_for[par_name]` is the parameter `defn`; `*args, **kw` is the value `args`)",
                "def assign_all (g : Graph V) (self : St V) (defn : Nat) (args : V) : Except String (St V) := do",
                Fn("assign_all", ["defn", "args"], {"defn": "N", "args": "V"}, {}, ctl=True, result="self"), _strip_doc(f.body))
    f = _find(st, "ParameterController", "update_from_calculator")
    if f is None or _argnames(f) != ["self", "calc"]:
        problems.append("ParameterController.update_from_calculator(self, calc) not found")
    else:
        section("ParameterController.update_from_calculator (`calc` is the value the calculator holds for each definition)",
                "def update_from_calculator (g : Graph V) (self : St V) (calc_ : Nat → V) : Except String (St V) := do",
                Fn("update_from_calculator", ["calc"], {"calc": "CALC"}, {"changed": "LN"}, ctl=True, result="self"),
                _strip_doc(f.body))
    f = _find(st, "ParameterController", "updates_postponed")
    if f is None or _argnames(f) != ["self"] or [u(d) for d in f.decorator_list] != ["contextmanager"]:
        problems.append("@contextmanager ParameterController.updates_postponed(self) not found")
    else:
        body = _strip_doc(f.body)

        def is_yield(s):
            return isinstance(s, ast.Expr) and isinstance(s.value, ast.Yield) and s.value.value is None

        enter = normal = exc = None
        for i, s in enumerate(body):
            if is_yield(s):
                enter, normal, exc = body[:i], body[i + 1:], []
                break
            if isinstance(s, ast.Try) and not s.handlers and not s.orelse and any(is_yield(x) for x in s.body):
                j = [k for k, x in enumerate(s.body) if is_yield(x)][0]
                enter = body[:i] + s.body[:j]
                normal = s.body[j + 1:] + s.finalbody + body[i + 1:]
                exc = list(s.finalbody)
                break
        if enter is None or any(isinstance(x, (ast.Yield, ast.YieldFrom)) for s in enter + normal for x in ast.walk(s)):
            problems.append("updates_postponed: expected exactly one bare `yield`, alone or inside try/finally")
        else:
            stores = {x.id for s in enter for x in ast.walk(s) if isinstance(x, ast.Name) and isinstance(x.ctx, ast.Store)}
            loads = {x.id for s in normal + exc for x in ast.walk(s) if isinstance(x, ast.Name) and isinstance(x.ctx, ast.Load)}
            frame = sorted((stores & loads) - {"self"})
            if frame != ["old"]:
                problems.append(f"updates_postponed: frame variables {frame} (expected ['old'])")
            else:
                section("ParameterController.updates_postponed: the statements before the `yield`; returns the frame variable `old`",
                        "def updates_postponed_enter (g : Graph V) (self : St V) : Except String (St V × Bool) := do",
                        Fn("updates_postponed_enter", [], {}, {"old": "B"}, ctl=True, result="(self, old)"), enter)
                section("ParameterController.updates_postponed: what runs when the block ends normally",
                        "def updates_postponed_exit (g : Graph V) (self : St V) (old : Bool) : Except String (St V) := do",
                        Fn("updates_postponed_exit", ["old"], {"old": "B"}, {}, ctl=True, result="self"), normal)
                section("ParameterController.updates_postponed: what runs when an exception leaves the block",
                        "def updates_postponed_xexit (g : Graph V) (self : St V) (old : Bool) : Except String (St V) := do",
                        Fn("updates_postponed_xexit", ["old"], {"old": "B"}, {}, ctl=True, result="self"), exc)
    out += ["end CogentModel.Gen.C07Ctl", "", "namespace CogentModel.Gen.C07NonLeaf", "open CogentModel.NonLeaf",
            "variable {V : Type}", ""]
    # ---- _NonLeafDefn.update
    f = _find(st, "_NonLeafDefn", "update")
    if f is None or _argnames(f) != ["self"]:
        problems.append("_NonLeafDefn.update(self) not found")
    else:
        section("_NonLeafDefn.update (`args` = self.args, `f` = the definition's calc)",
                "def update (args : List (Arg V)) (f : List V → V) (self : St V) : Except String (St V) := do",
                NLFn(), _strip_doc(f.body))
    out += ["end CogentModel.Gen.C07NonLeaf", ""]
    info["translated"] = done
    return "\n".join(out), info, problems


def write_if_changed(path: Path, text: str) -> bool:
    if path.exists() and path.read_text() == text:
        return False
    path.parent.mkdir(parents=True, exist_ok=True)
    path.write_text(text)
    return True


if __name__ == "__main__":
    import sys

    lean, info, problems = translate(Path(sys.argv[1] if len(sys.argv) > 1 else "/repo/src/cogent3"))
    print(lean)
    print(info, problems, file=sys.stderr)
