"""C03: Python -> Lean translator for integer "window generator" methods of cogent3/core/alignment.py.

Reads (stdlib ``ast`` only, nothing of cogent3 is imported or executed) the methods named in ``TARGETS`` and emits
``lean/CogentModel/Gen/C03Windows.lean``.  The output is a pure function of the source text.

Supported fragment (anything else is a *translation problem*, never skipped):
  * parameters ``self`` + names; a parameter with default ``None`` is ``Option Int``, every other one ``Int``;
  * statements: ``name = expr`` (re-assignment shadows, the type may change from Option Int to Int),
    ``if cond: <for>`` without else (the function then yields nothing),
    ``for v in range(a[, b[, c]]): yield self[lo : hi]`` -> the list of ``(lo, hi)`` pairs over ``PySlice.rangeList``;
  * expressions: int literals, names, ``len(self)`` (the parameter ``n``), ``+ - *``, ``//`` (``Int.fdiv``),
    ``%`` (``Int.fmod``), ``min/max`` of two arguments, (chained) comparisons, ``and / or / not``,
    ``x is None`` / ``x is not None`` on an Option parameter,
    ``[e0, e1][test]`` (a two-element list indexed by a bool: ``e1`` when the test holds, else ``e0``) and
    ``a if test else b``; when the test is ``x is None`` the result is a ``match`` on ``x`` and the name ``x`` stands for
    the unwrapped value in the branch where it is not ``None`` (static specialisation, as in py2lean_view).
A docstring is skipped.  The generated function returns the list of ``(lower, upper)`` bounds of the slices of ``self``
the generator yields, in order.
"""
from __future__ import annotations

import ast
from pathlib import Path

TARGETS = [("AlignmentI", "sliding_windows", "slidingWindows")]
KEYWORDS = {"end", "at", "from", "then", "else", "if", "fun", "let", "do", "in", "with", "match", "have", "show", "by",
            "where", "open", "def", "instance", "structure", "class", "namespace", "section", "variable", "theorem",
            "example", "import", "return", "for", "unless", "mut", "Type", "n"}


class TranslationError(Exception):
    pass


def lname(x: str) -> str:
    return x + "_" if x in KEYWORDS else x


class Fn:
    def __init__(self, cls, fn: ast.FunctionDef):
        self.where = f"{cls}.{fn.name}"
        self.fn = fn
        self.types = {}

    def bad(self, node, why):
        raise TranslationError(f"{self.where} line {getattr(node, 'lineno', '?')}: {why}: {ast.unparse(node)[:80]}")

    # -- expressions ------------------------------------------------------------------------------------------
    def is_none_test(self, t):
        """(name, holds_when_none) for `x is None` / `x is not None` on an Option variable"""
        if (isinstance(t, ast.Compare) and len(t.ops) == 1 and isinstance(t.ops[0], (ast.Is, ast.IsNot))
                and isinstance(t.left, ast.Name) and isinstance(t.comparators[0], ast.Constant)
                and t.comparators[0].value is None):
            if self.types.get(t.left.id) != "opt":
                self.bad(t, "`is None` test on a value that is not Optional")
            return t.left.id, isinstance(t.ops[0], ast.Is)
        return None

    def select(self, node, test, when_true, when_false):
        nt = self.is_none_test(test)
        if nt:
            x, none_is_true = nt
            e_none, e_some = (when_true, when_false) if none_is_true else (when_false, when_true)
            a = self.expr(e_none, want="int")  # x is None here: a use of x is not an int
            saved = self.types[x]
            self.types[x] = "int"  # inside the `some` branch the name stands for the unwrapped value
            try:
                b = self.expr(e_some, want="int")
            finally:
                self.types[x] = saved
            return f"(match {lname(x)} with | none => {a} | some {lname(x)} => {b})"
        c = self.prop(test)
        return f"(if {c} then {self.expr(when_true, 'int')} else {self.expr(when_false, 'int')})"

    def expr(self, e, want="int"):
        if isinstance(e, ast.Constant) and isinstance(e.value, int) and not isinstance(e.value, bool):
            return str(e.value) if e.value >= 0 else f"({e.value})"
        if isinstance(e, ast.Name):
            if e.id not in self.types:
                self.bad(e, "unknown name")
            if self.types[e.id] != want:
                self.bad(e, f"value of type {self.types[e.id]} used where {want} is needed")
            return lname(e.id)
        if isinstance(e, ast.UnaryOp) and isinstance(e.op, ast.USub):
            return f"(-{self.expr(e.operand)})"
        if isinstance(e, ast.BinOp):
            a, b = self.expr(e.left), self.expr(e.right)
            if isinstance(e.op, ast.Add):
                return f"({a} + {b})"
            if isinstance(e.op, ast.Sub):
                return f"({a} - {b})"
            if isinstance(e.op, ast.Mult):
                return f"({a} * {b})"
            if isinstance(e.op, ast.FloorDiv):
                return f"(Int.fdiv {a} {b})"
            if isinstance(e.op, ast.Mod):
                return f"(Int.fmod {a} {b})"
            self.bad(e, "unsupported operator")
        if isinstance(e, ast.Call) and isinstance(e.func, ast.Name) and not e.keywords:
            if e.func.id == "len" and len(e.args) == 1 and isinstance(e.args[0], ast.Name) and e.args[0].id == "self":
                return "n"
            if e.func.id in ("min", "max") and len(e.args) == 2:
                return f"({e.func.id} {self.expr(e.args[0])} {self.expr(e.args[1])})"
            self.bad(e, "unsupported call")
        if isinstance(e, ast.Subscript) and isinstance(e.value, ast.List) and len(e.value.elts) == 2:
            return self.select(e, e.slice, e.value.elts[1], e.value.elts[0])
        if isinstance(e, ast.IfExp):
            return self.select(e, e.test, e.body, e.orelse)
        self.bad(e, "unsupported expression")

    def prop(self, t):
        if isinstance(t, ast.BoolOp):
            op = " ∧ " if isinstance(t.op, ast.And) else " ∨ "
            return "(" + op.join(self.prop(v) for v in t.values) + ")"
        if isinstance(t, ast.UnaryOp) and isinstance(t.op, ast.Not):
            return f"(¬ {self.prop(t.operand)})"
        if isinstance(t, ast.Compare):
            nt = self.is_none_test(t)
            if nt:
                return f"({lname(nt[0])} {'=' if nt[1] else '≠'} none)"
            sym = {ast.Lt: "<", ast.LtE: "≤", ast.Gt: ">", ast.GtE: "≥", ast.Eq: "=", ast.NotEq: "≠"}
            parts, left = [], t.left
            for op, right in zip(t.ops, t.comparators):
                if type(op) not in sym:
                    self.bad(t, "unsupported comparison")
                parts.append(f"({self.expr(left)} {sym[type(op)]} {self.expr(right)})")
                left = right
            return parts[0] if len(parts) == 1 else "(" + " ∧ ".join(parts) + ")"
        self.bad(t, "unsupported condition")

    # -- statements -------------------------------------------------------------------------------------------
    def loop(self, st, ind):
        if not (isinstance(st, ast.For) and isinstance(st.target, ast.Name) and not st.orelse
                and isinstance(st.iter, ast.Call) and isinstance(st.iter.func, ast.Name) and st.iter.func.id == "range"
                and 1 <= len(st.iter.args) <= 3 and not st.iter.keywords):
            self.bad(st, "expected `for v in range(...)`")
        args = [self.expr(a) for a in st.iter.args]
        a, b, c = ("0", args[0], "1") if len(args) == 1 else (args[0], args[1], "1") if len(args) == 2 else args
        if len(st.body) != 1 or not (isinstance(st.body[0], ast.Expr) and isinstance(st.body[0].value, ast.Yield)):
            self.bad(st, "loop body must be one `yield self[lo:hi]`")
        y = st.body[0].value.value
        if not (isinstance(y, ast.Subscript) and isinstance(y.value, ast.Name) and y.value.id == "self"
                and isinstance(y.slice, ast.Slice) and y.slice.step is None and y.slice.lower is not None
                and y.slice.upper is not None):
            self.bad(st, "loop body must be one `yield self[lo:hi]`")
        v = st.target.id
        saved = self.types.get(v)
        self.types[v] = "int"
        lo, hi = self.expr(y.slice.lower), self.expr(y.slice.upper)
        if saved is None:
            del self.types[v]
        else:
            self.types[v] = saved
        return f"{ind}(CogentModel.PySlice.rangeList {a} {b} {c}).map fun {lname(v)} => ({lo}, {hi})"

    def block(self, stmts, ind):
        if not stmts:
            return f"{ind}[]"
        st, rest = stmts[0], stmts[1:]
        if isinstance(st, ast.Expr) and isinstance(st.value, ast.Constant) and isinstance(st.value.value, str):
            return self.block(rest, ind)
        if isinstance(st, ast.Assign) and len(st.targets) == 1 and isinstance(st.targets[0], ast.Name):
            v = st.targets[0].id
            val = self.expr(st.value)
            self.types[v] = "int"
            return f"{ind}let {lname(v)} : Int := {val}\n" + self.block(rest, ind)
        if isinstance(st, ast.If) and not st.orelse and not rest and len(st.body) == 1:
            c = self.prop(st.test)
            return f"{ind}if {c} then\n{self.loop(st.body[0], ind + '  ')}\n{ind}else []"
        if isinstance(st, ast.For) and not rest:
            return self.loop(st, ind)
        self.bad(st, "unsupported statement")

    def translate(self, lean_name):
        a = self.fn.args
        if a.vararg or a.kwarg or a.kwonlyargs or a.posonlyargs:
            self.bad(self.fn, "unsupported parameter kinds")
        names = [x.arg for x in a.args]
        if not names or names[0] != "self":
            self.bad(self.fn, "not a method")
        defaults = [None] * (len(names) - len(a.defaults)) + list(a.defaults)
        sig = ["(n : Int)"]
        for nm, d in zip(names[1:], defaults[1:]):
            if d is None:
                self.types[nm] = "int"
                sig.append(f"({lname(nm)} : Int)")
            elif isinstance(d, ast.Constant) and d.value is None:
                self.types[nm] = "opt"
                sig.append(f"({lname(nm)} : Option Int)")
            else:
                self.bad(d, "unsupported default value")
        body = self.block(list(self.fn.body), "  ")
        doc = f"/-- `{self.where}({', '.join(names[1:])})`: bounds `(lo, hi)` of the slices `self[lo:hi]` it yields; `n` = `len(self)` -/"
        return f"{doc}\ndef {lean_name} {' '.join(sig)} : List (Int × Int) :=\n{body}\n"


def translate(alignment_py: Path):
    """returns (lean text or None, info dict, problems)"""
    tree = ast.parse(alignment_py.read_text())
    classes = {n.name: n for n in tree.body if isinstance(n, ast.ClassDef)}
    out, problems, info = [], [], {}
    for cls, meth, lean_name in TARGETS:
        fn = next((f for f in classes[cls].body if isinstance(f, ast.FunctionDef) and f.name == meth), None) if cls in classes else None
        if fn is None:
            problems.append(f"{cls}.{meth} not found")
            continue
        try:
            out.append(Fn(cls, fn).translate(lean_name))
            info[f"{cls}.{meth}"] = lean_name
        except TranslationError as e:
            problems.append(str(e))
    if problems:
        return None, info, problems
    text = ("/- GENERATED by translator/c03_windows2lean.py from cogent3/core/alignment.py on every run -- do not edit. -/\n"
            "import CogentModel.Spec.PySlice\nnamespace CogentModel.Gen.C03Windows\n\n" + "\n".join(out)
            + "\nend CogentModel.Gen.C03Windows\n")
    return text, info, problems


def write_if_changed(path: Path, text: str) -> bool:
    if path.exists() and path.read_text() == text:
        return False
    path.parent.mkdir(parents=True, exist_ok=True)
    path.write_text(text)
    return True


if __name__ == "__main__":
    import sys

    lean, info, problems = translate(Path(sys.argv[1] if len(sys.argv) > 1 else "/repo/src/cogent3/core/alignment.py"))
    print(lean if lean else problems)
