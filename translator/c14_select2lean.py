"""C14: Python -> Lean translation of the SELECTION part of `composable._apply_to` and of `composable._proxy_input`.

Reads, with ``ast`` only (nothing of cogent3 is imported or executed), app/composable.py and emits
``lean/CogentModel/Gen/C14Select.lean`` (namespace CogentModel.Gen.C14Select) over the hand-written domain
``Model/SelectPrims.lean``.  The output is a pure function of the source text.

Translated:
  _proxy_input(dstore)     whole function  -> proxyInputLoop, proxyInput
  _apply_to(self, dstore…) the statements from ``inputs = {}`` up to and including ``inputs = _proxy_input(inputs.values())``
                           -> applyToLoop, applyToSelect.  What precedes (the `self.input` test, turning ONE path / a data store into a
                           list) and what follows (the writer loop, the log file) is outside this translation.

Supported fragment -- anything else is a *translation problem* (returned, never skipped):
  statements   ``x = {}``, ``x = []``, ``x = e``, ``d[k] = v``, ``xs.append(e)``, if/else, ``continue``, ``raise Exc("literal")``,
               ``return x`` (last statement of _proxy_input), ``for v in <list>: …`` whose body re-assigns exactly ONE variable of the
               enclosing scope (the accumulator; it becomes an argument of a structurally recursive definition, ``continue`` and the end
               of the body are the recursive call, ``raise`` is ``Except.error``),
               logging statements of _apply_to are recognised and left out: ``self.set_logger(logger)`` and an ``if self.logger:`` block whose
               body only assigns ``start`` / ``logger`` and calls methods of ``logger``
  expressions  names, ``a if c else b``, ``Path(m.unique_id)``, ``id_from_source(x)``, ``isinstance(m, DataMember)``,
               ``isinstance(e, source_proxy)``, ``source_proxy(e)``, ``k in d``, ``k in self.data_store``, ``not e``, truthiness of an
               element / of the list, ``d.values()``, ``_proxy_input(xs)``
"""
from __future__ import annotations

import ast
from pathlib import Path

from .c14_call2lean import TranslationError, _find, _params, _q, _src, write_if_changed  # noqa: F401

LEAN_TY = {"Elem": "Nat", "PIn": "PIn", "Dict": "Dict", "PList": "List PIn", "ElemList": "List Nat", "PInList": "List PIn"}


class Sel:
    def __init__(self, fname):
        self.fname = fname
        self.defs = []
        self.skipped = []
        self.raises = []

    # ---------- expressions -> (text, type) ----------
    def ex(self, e, env):
        if isinstance(e, ast.Name):
            if e.id in env:
                return env[e.id]
            raise TranslationError(f"unknown name {e.id!r}")
        if isinstance(e, ast.IfExp):
            c = self.truthy(e.test, env)
            a, aty = self.ex(e.body, env)
            b, bty = self.ex(e.orelse, env)
            if {aty, bty} == {"IdArg", "Elem"}:  # `Path(m.unique_id) if … else m`: both are arguments for id_from_source
                a = a if aty == "IdArg" else f"(IdArg.self {a})"
                b = b if bty == "IdArg" else f"(IdArg.self {b})"
                aty = bty = "IdArg"
            if aty != bty:
                raise TranslationError(f"conditional expression joins {aty} and {bty}: {_src(e)}")
            return f"if {c} then {a} else {b}", aty
        if isinstance(e, ast.UnaryOp) and isinstance(e.op, ast.Not):
            return f"(!{self.truthy(e.operand, env)})", "Bool"
        if isinstance(e, ast.Compare) and len(e.ops) == 1 and isinstance(e.ops[0], (ast.In, ast.NotIn)):
            neg = isinstance(e.ops[0], ast.NotIn)
            k, kty = self.ex(e.left, env)
            r = e.comparators[0]
            if kty != "Id":
                raise TranslationError(f"membership test of a {kty}: {_src(e)}")
            if isinstance(r, ast.Attribute) and r.attr == "data_store" and isinstance(r.value, ast.Name) and r.value.id == "self":
                t = f"(env.inStore {k})"
            else:
                d, dty = self.ex(r, env)
                if dty != "Dict":
                    raise TranslationError(f"membership test in a {dty}: {_src(e)}")
                t = f"(Dict.has {d} {k})"
            return (f"(!{t})" if neg else t), "Bool"
        if isinstance(e, ast.Call) and not e.keywords:
            f = e.func
            if isinstance(f, ast.Name) and f.id == "Path" and len(e.args) == 1:
                a = e.args[0]
                if isinstance(a, ast.Attribute) and a.attr == "unique_id":
                    t, ty = self.ex(a.value, env)
                    if ty == "Elem":
                        return f"(IdArg.pathOfUniqueId {t})", "IdArg"
                raise TranslationError(f"Path of {_src(a)}")
            if isinstance(f, ast.Name) and f.id == "id_from_source" and len(e.args) == 1:
                t, ty = self.ex(e.args[0], env)
                if ty == "Elem":
                    t, ty = f"(IdArg.self {t})", "IdArg"
                if ty != "IdArg":
                    raise TranslationError(f"id_from_source of a {ty}")
                return f"(env.idFromSource {t})", "Id"
            if isinstance(f, ast.Name) and f.id == "isinstance" and len(e.args) == 2 and isinstance(e.args[1], ast.Name):
                t, ty = self.ex(e.args[0], env)
                c = e.args[1].id
                if c == "DataMember" and ty == "Elem":
                    return f"(env.isDataMember {t})", "Bool"
                if c == "source_proxy" and ty == "PIn":
                    return f"(PIn.isProxy {t})", "Bool"
                raise TranslationError(f"isinstance({ty}, {c})")
            if isinstance(f, ast.Name) and f.id == "source_proxy" and len(e.args) == 1:
                t, ty = self.ex(e.args[0], env)
                if ty == "PIn":
                    return f"(PIn.mkProxy {t})", "PIn"
                raise TranslationError(f"source_proxy of a {ty}")
            if isinstance(f, ast.Name) and f.id == "_proxy_input" and len(e.args) == 1:
                t, ty = self.ex(e.args[0], env)
                if ty == "ElemList":
                    t, ty = f"({t}.map PIn.raw)", "PInList"
                if ty != "PInList":
                    raise TranslationError(f"_proxy_input of a {ty}")
                return f"(proxyInput env {t})", "PList"
            if isinstance(f, ast.Attribute) and f.attr == "values" and not e.args:
                t, ty = self.ex(f.value, env)
                if ty == "Dict":
                    return f"(Dict.values {t})", "ElemList"
            raise TranslationError(f"call {_src(e)}")
        raise TranslationError(f"expression {_src(e)}")

    def truthy(self, e, env):
        t, ty = self.ex(e, env)
        if ty == "Bool":
            return t
        if ty == "PIn":
            return f"(PIn.truthy env {t})"
        if ty == "Elem":
            return f"(env.truthy {t})"
        if ty in ("ElemList", "PInList", "PList"):
            return f"(!{t}.isEmpty)"
        raise TranslationError(f"truth value of a {ty}: {_src(e)}")

    # ---------- statements ----------
    def is_logging(self, s):
        if isinstance(s, ast.Expr) and isinstance(s.value, ast.Call) and isinstance(s.value.func, ast.Attribute) \
                and s.value.func.attr == "set_logger" and isinstance(s.value.func.value, ast.Name) and s.value.func.value.id == "self":
            return True
        if isinstance(s, ast.If) and isinstance(s.test, ast.Attribute) and s.test.attr == "logger" and isinstance(s.test.value, ast.Name) \
                and s.test.value.id == "self" and not s.orelse:
            for b in s.body:
                if isinstance(b, ast.Assign) and len(b.targets) == 1 and isinstance(b.targets[0], ast.Name) and b.targets[0].id in ("start", "logger"):
                    continue
                if isinstance(b, ast.Expr) and isinstance(b.value, ast.Call) and isinstance(b.value.func, ast.Attribute) \
                        and isinstance(b.value.func.value, ast.Name) and b.value.func.value.id == "logger":
                    continue
                return False
            return True
        return False

    def err(self, s):
        x = s.exc
        if not (isinstance(x, ast.Call) and isinstance(x.func, ast.Name) and len(x.args) == 1 and not x.keywords
                and isinstance(x.args[0], ast.Constant) and isinstance(x.args[0].value, str)):
            raise TranslationError(f"raise {_src(x)} (expected Exc(\"literal\"))")
        self.raises.append(f"{x.func.id}: {x.args[0].value}")
        return f".error ⟨{_q(x.func.id)}, {_q(x.args[0].value)}⟩"

    def block(self, stmts, env, ind, end):
        """`end(env)` gives the text that finishes a path which falls off the block; it is also what `continue` emits inside a loop"""
        pad = "  " * ind
        if not stmts:
            return pad + end(env)
        s, rest = stmts[0], stmts[1:]
        if isinstance(s, ast.Expr) and isinstance(s.value, ast.Constant) and isinstance(s.value.value, str):
            return self.block(rest, env, ind, end)
        if self.fname == "_apply_to" and self.is_logging(s):
            self.skipped.append(_src(s).splitlines()[0])
            return self.block(rest, env, ind, end)
        if isinstance(s, ast.Continue):
            if not env.get("__loop__"):
                raise TranslationError("continue outside a loop")
            return pad + end(env)
        if isinstance(s, ast.Raise):
            if not env.get("__except__"):
                raise TranslationError("raise in a context that cannot fail")
            return pad + self.err(s)
        if isinstance(s, ast.Return):
            if env.get("__loop__") or rest or not isinstance(s.value, ast.Name):
                raise TranslationError(f"return {_src(s.value) if s.value else ''} (only `return <name>` as the last statement)")
            t, ty = self.ex(s.value, env)
            return pad + (f".ok {t}" if env.get("__except__") else t)
        if isinstance(s, ast.Assign) and len(s.targets) == 1:
            tgt = s.targets[0]
            if isinstance(tgt, ast.Name):
                if isinstance(s.value, ast.Dict) and not s.value.keys:
                    t, ty = "Dict.empty", "Dict"
                elif isinstance(s.value, ast.List) and not s.value.elts:
                    t, ty = "[]", "PList"
                else:
                    t, ty = self.ex(s.value, env)
                return pad + f"let {tgt.id} := {t}\n" + self.block(rest, dict(env, **{tgt.id: (tgt.id, ty)}), ind, end)
            if isinstance(tgt, ast.Subscript) and isinstance(tgt.value, ast.Name):
                d, dty = self.ex(tgt.value, env)
                k, kty = self.ex(tgt.slice, env)
                v, vty = self.ex(s.value, env)
                if (dty, kty, vty) != ("Dict", "Id", "Elem"):
                    raise TranslationError(f"item assignment {_src(s)} ({dty}[{kty}] = {vty})")
                return pad + f"let {d} := (Dict.set {d} {k} {v})\n" + self.block(rest, env, ind, end)
            raise TranslationError(f"assignment {_src(s)}")
        if isinstance(s, ast.Expr) and isinstance(s.value, ast.Call) and isinstance(s.value.func, ast.Attribute) and s.value.func.attr == "append" \
                and isinstance(s.value.func.value, ast.Name) and len(s.value.args) == 1 and not s.value.keywords:
            xs, xty = self.ex(s.value.func.value, env)
            v, vty = self.ex(s.value.args[0], env)
            if (xty, vty) != ("PList", "PIn"):
                raise TranslationError(f"append of a {vty} to a {xty}")
            return pad + f"let {xs} := ({xs} ++ [{v}])\n" + self.block(rest, env, ind, end)
        if isinstance(s, ast.If):
            c = self.truthy(s.test, env)
            if (len(s.body) == 1 and not s.orelse and isinstance(s.body[0], ast.Assign) and len(s.body[0].targets) == 1
                    and isinstance(s.body[0].targets[0], ast.Name) and s.body[0].targets[0].id in env):
                name = s.body[0].targets[0].id
                t, ty = self.ex(s.body[0].value, env)
                if ty == env[name][1]:
                    return pad + f"let {name} := if {c} then {t} else {name}\n" + self.block(rest, env, ind, end)
            return (pad + f"if {c} then\n" + self.block(list(s.body) + rest, env, ind + 1, end) + "\n" + pad + "else\n"
                    + self.block(list(s.orelse) + rest, env, ind + 1, end))
        if isinstance(s, ast.For):
            return self.loop(s, rest, env, ind, end)
        raise TranslationError(f"statement {_src(s)[:80]}")

    def loop(self, s, rest, env, ind, end):
        pad = "  " * ind
        if s.orelse or not isinstance(s.target, ast.Name) or env.get("__loop__"):
            raise TranslationError(f"for statement {_src(s)[:60]}")
        it, ity = self.ex(s.iter, env)
        if ity not in ("ElemList", "PInList"):
            raise TranslationError(f"loop over a {ity}")
        ety = "Elem" if ity == "ElemList" else "PIn"
        assigned = set()
        for n in ast.walk(s):
            if isinstance(n, ast.Assign):
                for t in n.targets:
                    assigned.add(t.id if isinstance(t, ast.Name) else t.value.id if isinstance(t, ast.Subscript) and isinstance(t.value, ast.Name) else "?")
            if isinstance(n, ast.Call) and isinstance(n.func, ast.Attribute) and n.func.attr == "append" and isinstance(n.func.value, ast.Name):
                assigned.add(n.func.value.id)
            if isinstance(n, (ast.AugAssign, ast.Break, ast.While, ast.Try, ast.With, ast.Return)):
                raise TranslationError(f"{type(n).__name__} inside a for loop")
        accs = sorted(a for a in assigned if a in env and a != s.target.id)
        if len(accs) != 1:
            raise TranslationError(f"loop re-assigns {accs} of the enclosing scope (exactly one accumulator is supported)")
        acc = accs[0]
        aty = env[acc][1]
        fails = any(isinstance(n, ast.Raise) for n in ast.walk(s))
        name = {"_apply_to": "applyToLoop", "_proxy_input": "proxyInputLoop"}[self.fname]
        v = s.target.id
        inner_env = {acc: (acc, aty), v: (v, ety), "__loop__": True, "__except__": fails}
        body = self.block(list(s.body), inner_env, 2, lambda e: f"{name} env rest__ {e[acc][0]}")
        ret = f"Except PyErr {LEAN_TY[aty]}" if fails else LEAN_TY[aty]
        self.defs.append(
            f"/-- the `for {v} in {_src(s.iter)}:` loop of `{self.fname}`; `{acc}` is the value of that variable before the iteration -/\n"
            f"def {name} (env : SelEnv) : {LEAN_TY[ity]} → {LEAN_TY[aty]} → {ret}\n"
            f"  | [], {acc} => {'.ok ' if fails else ''}{acc}\n"
            f"  | {v} :: rest__, {acc} =>\n" + body)
        if fails:
            if not env.get("__except__"):
                raise TranslationError("a loop that raises inside a function that cannot fail")
            return (pad + f"match {name} env {it} {acc} with\n" + pad + "| .error err => .error err\n" + pad + f"| .ok {acc} =>\n"
                    + self.block(rest, env, ind + 1, end))
        return pad + f"let {acc} := {name} env {it} {acc}\n" + self.block(rest, env, ind, end)


def translate(src: Path):
    """returns (lean_text | None, info, problems)"""
    problems, info, defs = [], {}, []
    comp = ast.parse((src / "app" / "composable.py").read_text())

    def do_proxy():
        fn = _find(comp, "_proxy_input")
        _params(fn, ["dstore"])
        tr = Sel("_proxy_input")

        def end(env):
            raise TranslationError("_proxy_input can end without a return")

        body = tr.block(list(fn.body), {"dstore": ("dstore", "PInList"), "__except__": False}, 1, end)
        defs.extend(tr.defs)
        defs.append("/-- `_proxy_input(dstore)` -/\ndef proxyInput (env : SelEnv) (dstore : List PIn) : List PIn :=\n" + body)

    def do_apply():
        fn = _find(comp, "_apply_to")
        got = [a.arg for a in fn.args.args]
        if got[:3] != ["self", "dstore", "id_from_source"]:
            raise TranslationError(f"parameters {got}")
        body = list(fn.body)
        is_start = lambda s: (isinstance(s, ast.Assign) and len(s.targets) == 1 and isinstance(s.targets[0], ast.Name)  # noqa: E731
                              and isinstance(s.value, ast.Dict) and not s.value.keys)
        is_stop = lambda s: (isinstance(s, ast.Assign) and isinstance(s.value, ast.Call) and isinstance(s.value.func, ast.Name)  # noqa: E731
                             and s.value.func.id == "_proxy_input")
        a = [i for i, s in enumerate(body) if is_start(s)]
        b = [i for i, s in enumerate(body) if is_stop(s)]
        if len(a) != 1 or len(b) != 1 or b[0] < a[0] or not isinstance(body[b[0]].targets[0], ast.Name):
            raise TranslationError("expected exactly one `x = {}` followed by exactly one `x = _proxy_input(…)` at the top level")
        if b[0] + 1 >= len(body) or not isinstance(body[b[0] + 1], ast.For):
            raise TranslationError("`x = _proxy_input(…)` is not directly followed by the loop over the results")
        submitted = body[b[0]].targets[0].id
        res_loop = body[b[0] + 1]
        uses = [n.id for n in ast.walk(res_loop.iter) if isinstance(n, ast.Name)]
        if submitted not in uses:
            raise TranslationError(f"the loop over the results does not iterate over as_completed({submitted}, …)")
        info["preamble_outside"] = [_src(s).splitlines()[0] for s in body[: a[0]] if not (isinstance(s, ast.Expr) and isinstance(s.value, ast.Constant))]
        tr = Sel("_apply_to")
        text = tr.block(body[a[0]: b[0] + 1], {"dstore": ("dstore", "ElemList"), "__except__": True}, 1, lambda env: f".ok {env[submitted][0]}")
        info["logging_left_out"] = tr.skipped
        info["raises"] = tr.raises
        defs.extend(tr.defs)
        defs.append("/-- `_apply_to`: from `inputs = {}` to `inputs = _proxy_input(inputs.values())`; the result is what is handed to as_completed -/\n"
                    "def applyToSelect (env : SelEnv) (dstore : List Nat) : Except PyErr (List PIn) :=\n" + text)

    for label, f in (("_proxy_input", do_proxy), ("_apply_to", do_apply)):
        try:
            f()
        except TranslationError as e:
            problems.append(f"{label}: {e}")
    if problems:
        return None, info, problems
    text = (
        "import CogentModel.Model.SelectPrims\n"
        "/- GENERATED by translator/c14_select2lean.py from cogent3/app/composable.py (_proxy_input, selection part of _apply_to)\n"
        "   on every run -- do not edit. -/\n"
        "namespace CogentModel.Gen.C14Select\n"
        "open CogentModel.Composable CogentModel.SelectPrims\n\n"
        + "\n\n".join(defs)
        + "\n\nend CogentModel.Gen.C14Select\n"
    )
    return text, info, problems


if __name__ == "__main__":  # pragma: no cover
    import sys

    t, i, p = translate(Path(sys.argv[1]))
    print(t if t else p)
    print(i, file=sys.stderr)
