"""C12 translator: the pure-Python translation / stop-handling functions  ->  lean/CogentModel/Gen/C12Code.lean

Translated from the CURRENT source text (stdlib `ast` only, nothing of cogent3 is imported):

    core/genetic_code.py       _simple_rc, GeneticCode.__getitem__, translate, sixframes, is_start, is_stop
    core/new_genetic_code.py   _get_start_codon_indices, GeneticCode.__getitem__, translate, sixframes, is_stop
    core/new_sequence.py       has_terminal_stop, trim_stop_codon, get_translation   (the nucleic-acid mixin)
    core/sequence.py           has_terminal_stop, trim_stop_codon                    (NucleicAcidSequence)

Every Python operation is mapped to ONE primitive of lean/CogentModel/Model/GeneticCodePrims.lean (Python slices
with clamping and negative bounds, `range`, `len`, `str.upper/replace/translate/join`, `dict.get`, `in`,
`itertools.product`, `enumerate`, the regular expression shape `(a|b|…)[cls]*$`).  Every translated function returns
`Except PyErr <type>`: `raise X(...)` is `.error`, a call of another translated function is `Except.bind`.

Code shape: `if c: x = e` / `if c: x = e1 else: x = e2` with pure right-hand sides becomes `let x := if c then … else …`;
any other `if` is `if c then <body ; rest> else <orelse ; rest>` (the rest of the function is repeated in both
branches); a generator function `for … in …: yield v` is the list `[v for … in …]`.

Everything outside the supported fragment is reported as a translation problem (never skipped silently); a function
that cannot be translated becomes a stub that always fails (the theorem about it then no longer checks, which is
reported as well, and the driver still builds).  The output is a pure function of the source texts (no timestamps / paths).
"""
from __future__ import annotations

import ast
from pathlib import Path


class Unsupported(Exception):
    pass


LEAN_T = {
    "S": "List Char", "I": "Int", "B": "Bool", "T": "Item", "LS": "List (List Char)", "LI": "List Int",
    "GO": "OldGC", "GN": "NewGCO", "D": "Dna", "Q": "NSeq", "RE": "RE", "OM": "Option Int", "IDX": "Idx",
    "BY": "List Nat", "U": "Unit", "PM": "PM", "CA": "List (List Char)", "MTQ": "NSeq",
}
ERR = {"ValueError": "valueError", "AlphabetError": "alphabetError", "InvalidCodonError": "invalidCodon", "TypeError": "typeError"}
KEYWORDS = {"end", "from", "at", "in", "do", "fun", "let", "then", "else", "if", "match", "with", "open", "where", "show", "have", "by", "def"}

# (family, file, python name, lean name, [(param, type)], return type)
SPECS = [
    ("old", "genetic_code.py", "_simple_rc", "old_simple_rc", [("seq", "S")], "S"),
    ("old", "genetic_code.py", "__getitem__", "old_getitem", [("self", "GO"), ("item", "S")], "T"),
    ("old", "genetic_code.py", "translate", "old_translate", [("self", "GO"), ("dna", "S"), ("start", "I")], "S"),
    ("old", "genetic_code.py", "sixframes", "old_sixframes", [("self", "GO"), ("dna", "S")], "LS"),
    ("old", "genetic_code.py", "is_start", "old_is_start", [("self", "GO"), ("codon", "S")], "B"),
    ("old", "genetic_code.py", "is_stop", "old_is_stop", [("self", "GO"), ("codon", "S")], "B"),
    ("new", "new_genetic_code.py", "_get_start_codon_indices", "new_get_start_codon_indices", [("start_codon_map", "S")], "LI"),
    ("new", "new_genetic_code.py", "__getitem__", "new_getitem", [("self", "GN"), ("item", "S")], "T"),
    ("new", "new_genetic_code.py", "translate", "new_translate", [("self", "GN"), ("dna", "D"), ("start", "I"), ("rc", "B")], "S"),
    ("new", "new_genetic_code.py", "sixframes", "new_sixframes", [("self", "GN"), ("seq", "D")], ("L", ("Tup", ("S", "I", "S")))),
    ("new", "new_genetic_code.py", "is_stop", "new_is_stop", [("self", "GN"), ("codon", "S")], "B"),
    ("new", "new_sequence.py", "has_terminal_stop", "new_seq_has_terminal_stop", [("self", "Q"), ("gc", "GN"), ("strict", "B")], "B"),
    ("new", "new_sequence.py", "trim_stop_codon", "new_seq_trim_stop_codon", [("self", "Q"), ("gc", "GN"), ("strict", "B")], "Q"),
    ("new", "new_sequence.py", "get_translation", "new_seq_get_translation",
     [("self", "Q"), ("gc", "GN"), ("incomplete_ok", "B"), ("include_stop", "B"), ("trim_stop", "B")], "S"),
    ("old", "sequence.py", "has_terminal_stop", "old_seq_has_terminal_stop", [("self", "Q"), ("gc", "GO"), ("strict", "B")], "B"),
    ("old", "sequence.py", "trim_stop_codon", "old_seq_trim_stop_codon", [("self", "Q"), ("gc", "GO"), ("strict", "B")], "Q"),
    ("old", "sequence.py", "get_translation", "old_seq_get_translation",
     [("self", "Q"), ("gc", "GO"), ("incomplete_ok", "B"), ("include_stop", "B"), ("trim_stop", "B")], "S"),
]
# dictionaries / attributes of the objects: (receiver type, attribute) -> ("dict", key type, value type) | ("attr", type, lean text)
FIELDS = {
    ("GO", "codons"): ("dict", "S", "S"), ("GO", "synonyms"): ("dict", "S", "LS"), ("GO", "start_codons"): ("dict", "S", "S"),
    ("GO", "code_sequence"): ("attr", "S"), ("GN", "_codon_to_aa"): ("dict", "S", "S"), ("GN", "_aa_to_codon"): ("dict", "S", "LS"),
}


def lt(t) -> str:
    if isinstance(t, tuple) and t[0] == "L":
        return f"List ({lt(t[1])})"
    if isinstance(t, tuple) and t[0] == "Tup":
        return " × ".join(lt(x) if not (isinstance(x, tuple) and x[0] == "Tup") else f"({lt(x)})" for x in t[1])
    return LEAN_T[t]


def lname(n: str) -> str:
    n = n if n != "_" else "_u"
    return n + "_" if n in KEYWORDS else n


def chars(s: str) -> str:
    def one(c):
        if c == "'":
            return "'\\''"
        if c == "\\":
            return "'\\\\'"
        if 32 <= ord(c) < 127:
            return f"'{c}'"
        return "(Char.ofNat %d)" % ord(c)

    return "[" + ", ".join(one(c) for c in s) + "]" if s else "([] : List Char)"


def elem_type(t):
    """type of the items when iterating over a value of type t"""
    if t in ("LS", "T", "S"):
        return "S"
    if t == "LI":
        return "I"
    if isinstance(t, tuple) and t[0] == "L":
        return t[1]
    raise Unsupported(f"iteration over {t}")


def iter_text(t, s):
    if t == "T":
        return f"(Item.toList {s})"
    if t == "S":
        return f"(pyChars {s})"
    return s


class Fn:
    def __init__(self, fam, fdef: ast.FunctionDef, spec, registry, consts):
        self.fam, self.f, self.spec, self.reg, self.consts = fam, fdef, spec, registry, consts
        self.n = 0
        self.fall = None       # (kind, text): what falling off the end of the current block / `continue` means
        self.recursive = False
        self.aux = []          # lifted loop bodies: (name, signature, body text), in dependency order

    def fresh(self):
        self.n += 1
        return f"t{self.n}"

    # ------------------------------------------------------------------ calls of translated functions
    def call_fn(self, lean_name, recv, args, keywords, env, pre):
        """-> (type, text) of the bound result"""
        if lean_name not in self.reg:
            raise Unsupported(f"call of {lean_name}, which is not (or could not be) translated")
        fdef, spec = self.reg[lean_name]
        params = spec[4]
        pnames = [a.arg for a in fdef.args.args]
        defaults = dict(zip(pnames[len(pnames) - len(fdef.args.defaults):], fdef.args.defaults))
        given = {}
        pos = [p for p, _ in params]
        k = 0
        if recv is not None:
            given[pos[0]] = recv
            k = 1
        for a in args:
            if k >= len(pos):
                raise Unsupported(f"too many arguments for {lean_name}")
            given[pos[k]] = a
            k += 1
        for kw in keywords:
            if kw.arg is None or kw.arg not in pos:
                raise Unsupported(f"keyword {kw.arg} of {lean_name}")
            given[kw.arg] = kw.value
        texts = []
        for p, t in params:
            if p in given:
                v = given[p]
                if isinstance(v, tuple):  # already translated receiver
                    tt, tx = v
                else:
                    tt, tx = self.ex(v, env, pre)
            elif p in defaults:
                tt, tx = self.ex(defaults[p], {}, pre)
            else:
                raise Unsupported(f"argument {p} of {lean_name} missing")
            texts.append(self.coerce(tt, t, tx, f"argument {p} of {lean_name}"))
        v = self.fresh()
        if lean_name == self.spec[3]:
            # a self-recursive call: the definition gets a fuel argument (two levels; see `translate`)
            self.recursive = True
            pre.append((v, f"{lean_name}_fuel fuel {' '.join(texts)}"))
        else:
            pre.append((v, f"{lean_name} {' '.join(texts)}"))
        return spec[5], v

    def coerce(self, have, want, text, what):
        if have == want:
            return text
        if want == "T" and have == "S":
            return f"(Item.str {text})"
        if want == "T" and have == "LS":
            return f"(Item.strs {text})"
        if want == "D" and have == "S":
            return f"(Dna.ofStr {text})"
        if want == "D" and have == "Q":
            return f"(NSeq.array {text})"
        if want == "S" and have == "Q":
            return f"(NSeq.str {text})"
        if want == "S" and have == "T":
            return f"(Item.asStr {text})"
        if want == "LI" and have == ("L", "I"):
            return text
        if want == "I" and have == "B":
            return f"(if {text} then 1 else 0)"
        if want in ("GO", "GN") and have == "I":
            raise Unsupported(f"{what}: a genetic code id where an object is modelled")
        raise Unsupported(f"{what}: {have} where {want} is expected")

    # ------------------------------------------------------------------ tests (Prop)
    def truthy(self, t, s):
        if t == "B":
            return f"({s} = true)"
        if t in ("S", "LS", "LI", "BY") or (isinstance(t, tuple) and t[0] == "L"):
            return f"({s} ≠ [])"
        if t == "I":
            return f"({s} ≠ 0)"
        if t == "OM":
            return f"({s}.isSome = true)"
        if t == "D":
            return f"({s}.chars ≠ [])"
        if t == "Q":
            return f"({s}.chars ≠ [])"
        raise Unsupported(f"truth value of {t}")

    def test(self, n, env, pre):
        if isinstance(n, ast.UnaryOp) and isinstance(n.op, ast.Not):
            return f"(¬ {self.test(n.operand, env, pre)})"
        if isinstance(n, ast.BoolOp):
            parts = []
            for i, v in enumerate(n.values):
                p2 = []
                parts.append(self.test(v, env, p2))
                if p2 and i > 0:
                    raise Unsupported("a call that may raise inside a short-circuited operand")
                pre += p2
            return "(" + (" ∧ " if isinstance(n.op, ast.And) else " ∨ ").join(parts) + ")"
        if isinstance(n, ast.Compare):
            if len(n.ops) != 1:
                raise Unsupported("chained comparison")
            op, a, b = n.ops[0], n.left, n.comparators[0]
            if isinstance(op, (ast.In, ast.NotIn)):
                neg = isinstance(op, ast.NotIn)
                tb, sb = self.ex(b, env, pre)
                if tb == "S":
                    if not (isinstance(a, ast.Constant) and isinstance(a.value, str) and len(a.value) == 1):
                        raise Unsupported("substring test with a non-literal or longer needle")
                    r = f"({chars(a.value)[1:-1]} ∈ {sb})"
                elif tb == "LS":
                    ta, sa = self.ex(a, env, pre)
                    r = f"({self.coerce(ta, 'S', sa, 'in')} ∈ {sb})"
                elif isinstance(tb, tuple) and tb[0] == "dict":
                    ta, sa = self.ex(a, env, pre)
                    r = f"(dictHas {sb} {self.coerce(ta, tb[1], sa, 'in')} = true)"
                else:
                    raise Unsupported(f"`in` on {tb}")
                return f"(¬ {r})" if neg else r
            ta, sa = self.ex(a, env, pre)
            tb, sb = self.ex(b, env, pre)
            sym = {ast.Eq: "=", ast.NotEq: "≠", ast.Lt: "<", ast.LtE: "≤", ast.Gt: ">", ast.GtE: "≥"}.get(type(op))
            if sym is None:
                raise Unsupported(f"comparison {type(op).__name__}")
            if ta == "T" and tb == "S" and sym in ("=", "≠"):
                return f"(Item.eqStr {sa} {sb} = {'true' if sym == '=' else 'false'})"
            if ta != tb:
                raise Unsupported(f"comparison of {ta} with {tb}")
            if ta not in ("S", "I", "B", "LS"):
                raise Unsupported(f"comparison on {ta}")
            if sym in ("<", "≤", ">", "≥") and ta != "I":
                raise Unsupported(f"ordering on {ta}")
            return f"({sa} {sym} {sb})"
        t, s = self.ex(n, env, pre)
        return self.truthy(t, s)

    # ------------------------------------------------------------------ expressions -> (type, text)
    def ex(self, n, env, pre):
        if isinstance(n, ast.Constant):
            v = n.value
            if isinstance(v, bool):
                return "B", "true" if v else "false"
            if isinstance(v, int):
                return "I", f"({v} : Int)" if v >= 0 else f"(-{-v} : Int)"
            if isinstance(v, str):
                return "S", chars(v)
            raise Unsupported(f"constant {v!r}")
        if isinstance(n, ast.Name):
            if n.id in env:
                t = env[n.id]
                if isinstance(t, tuple) and t[0] == "POISON":
                    raise Unsupported(f"{n.id} depends on an untranslatable expression ({t[1]})")
                return t, lname(n.id)
            if n.id in self.consts:
                return self.consts[n.id]
            raise Unsupported(f"unknown name {n.id}")
        if isinstance(n, (ast.Compare, ast.BoolOp)) or (isinstance(n, ast.UnaryOp) and isinstance(n.op, ast.Not)):
            return "B", f"(decide {self.test(n, env, pre)})"
        if isinstance(n, ast.UnaryOp) and isinstance(n.op, ast.USub):
            t, s = self.ex(n.operand, env, pre)
            if t != "I":
                raise Unsupported("unary minus on a non-integer")
            return "I", f"(-{s})"
        if isinstance(n, ast.BinOp):
            ta, sa = self.ex(n.left, env, pre)
            tb, sb = self.ex(n.right, env, pre)
            if ta == tb == "I":
                if isinstance(n.op, (ast.Add, ast.Sub, ast.Mult)):
                    return "I", f"({sa} {'+' if isinstance(n.op, ast.Add) else '-' if isinstance(n.op, ast.Sub) else '*'} {sb})"
                if isinstance(n.op, ast.Mod):
                    return "I", f"(Int.fmod {sa} {sb})"
                if isinstance(n.op, ast.FloorDiv):
                    return "I", f"(Int.fdiv {sa} {sb})"
            if ta == tb and ta in ("S", "LS") and isinstance(n.op, ast.Add):
                return ta, f"({sa} ++ {sb})"
            if ta == "S" and tb == "I" and isinstance(n.op, ast.Mult):
                return "S", f"(pyMulStr {sa} {sb})"
            raise Unsupported(f"operator {type(n.op).__name__} on {ta}, {tb}")
        if isinstance(n, ast.IfExp):
            p2, p3 = [], []
            c = self.test(n.test, env, pre)
            ta, sa = self.ex(n.body, env, p2)
            tb, sb = self.ex(n.orelse, env, p3)
            if p2 or p3:
                raise Unsupported("a call that may raise inside a conditional expression")
            if ta != tb:
                raise Unsupported(f"conditional expression of {ta} and {tb}")
            return ta, f"(if {c} then {sa} else {sb})"
        if isinstance(n, ast.Tuple):
            parts = [self.ex(e, env, pre) for e in n.elts]
            if parts and all(t == "S" for t, _ in parts):
                return "LS", "[" + ", ".join(s for _, s in parts) + "]"
            return ("Tup", tuple(t for t, _ in parts)), "(" + ", ".join(s for _, s in parts) + ")"
        if isinstance(n, ast.List):
            if not n.elts:
                return "LS", "([] : List (List Char))"
            parts = [self.ex(e, env, pre) for e in n.elts]
            if all(t == "S" for t, _ in parts):
                return "LS", "[" + ", ".join(s for _, s in parts) + "]"
            raise Unsupported("list literal")
        if isinstance(n, ast.Attribute):
            return self.attr(n, env, pre)
        if isinstance(n, ast.Subscript):
            return self.subscript(n, env, pre)
        if isinstance(n, (ast.ListComp, ast.GeneratorExp)):
            return self.comp(n, env, pre)
        if isinstance(n, ast.Call):
            return self.call(n, env, pre)
        if isinstance(n, ast.JoinedStr):
            raise Unsupported("f-string outside re.compile")
        raise Unsupported(f"expression {type(n).__name__}: {ast.unparse(n)[:60]}")

    def attr(self, n, env, pre):
        # self.moltype.gaps / self.moltype.alphabet / m.num_gaps / self.<field> / self.name
        if isinstance(n.value, ast.Attribute) and n.value.attr == "moltype":
            t, s = self.ex(n.value.value, env, pre)
            if t == "Q" and n.attr == "gaps":
                return "LS", f"(NSeq.gapStrs {s})"
            if t == "Q" and n.attr == "alphabet":
                return "S", f"{s}.mtChars"
            if t == "Q" and n.attr == "label":
                return "S", f"(NSeq.label {s})"
            raise Unsupported(f"moltype attribute {n.attr}")
        t, s = self.ex(n.value, env, pre)
        if (t, n.attr) in FIELDS:
            f = FIELDS[(t, n.attr)]
            if f[0] == "dict":
                return ("dict", f[1], f[2]), f"{s}.{n.attr.lstrip('_')}"
            return f[1], f"{s}.{n.attr}"
        if t == "GM" and n.attr == "num_gaps":
            return "I", s
        if t == "Q" and n.attr == "moltype":
            return "MTQ", s
        raise Unsupported(f"attribute {n.attr} of {t}")

    def bound(self, b, env, pre):
        if b is None:
            return "none"
        t, s = self.ex(b, env, pre)
        if t != "I":
            raise Unsupported("slice bound that is not an integer")
        return f"(some {s})"

    def subscript(self, n, env, pre):
        t, s = self.ex(n.value, env, pre)
        sl = n.slice
        if isinstance(sl, ast.Slice):
            if sl.step is not None:
                st = sl.step
                if sl.lower is None and sl.upper is None and isinstance(st, ast.UnaryOp) and isinstance(st.op, ast.USub) and isinstance(st.operand, ast.Constant) and st.operand.value == 1:
                    if t in ("S", "LS", "BYS"):
                        return ("S" if t == "BYS" else t), f"(pyRev {s})"
                raise Unsupported(f"slice with a step: {ast.unparse(n)}")
            lo, hi = self.bound(sl.lower, env, pre), self.bound(sl.upper, env, pre)
            if t in ("S", "LS", "LI"):
                return t, f"(pySlice {s} {lo} {hi})"
            if t == "D":
                return "D", f"(Dna.slice {s} {lo} {hi})"
            if t == "Q":
                return "Q", f"(NSeq.slice {s} {lo} {hi})"
            raise Unsupported(f"slice of {t}")
        if t in ("GO", "GN"):
            return self.call_fn(("old" if t == "GO" else "new") + "_getitem", (t, s), [sl], [], env, pre)
        raise Unsupported(f"subscript of {t}")

    def comp(self, n, env, pre):
        if len(n.generators) != 1:
            raise Unsupported("nested comprehension")
        g = n.generators[0]
        ti, si = self.ex(g.iter, env, pre)
        et = elem_type(ti)
        si = iter_text(ti, si)
        env2 = dict(env)
        if isinstance(g.target, ast.Name):
            env2[g.target.id] = et
            pat = lname(g.target.id)
        elif isinstance(g.target, ast.Tuple) and all(isinstance(e, ast.Name) for e in g.target.elts) and isinstance(et, tuple) and et[0] == "Tup" and len(et[1]) == len(g.target.elts):
            for e, t in zip(g.target.elts, et[1]):
                env2[e.id] = t
            pat = "(" + ", ".join(lname(e.id) for e in g.target.elts) + ")"
        else:
            raise Unsupported("comprehension target")
        src = si
        for c in g.ifs:
            p2 = []
            ct = self.test(c, env2, p2)
            if p2:
                raise Unsupported("a call that may raise inside a comprehension filter")
            src = f"({src}.filter fun {pat} => decide {ct})"
        p2 = []
        te, se = self.ex(n.elt, env2, p2)
        rt = "LS" if te == "S" else "LI" if te == "I" else ("L", te)
        if not p2:
            return rt, f"({src}.map fun {pat} => {se})"
        v = self.fresh()
        if len(p2) == 1 and p2[0][0] == se:
            inner = p2[0][1]  # the element IS the call
        else:
            inner = " ".join(f"Except.bind ({m}) fun {w} =>" for w, m in p2) + f" .ok {se}"
        pre.append((v, f"{src}.mapM fun {pat} => {inner}"))
        return rt, v

    def call(self, n, env, pre):
        f = n.func
        if isinstance(f, ast.Name):
            name = f.id
            if name == "len" and len(n.args) == 1:
                t, s = self.ex(n.args[0], env, pre)
                if t in ("S", "LS", "LI", "BY") or (isinstance(t, tuple) and t[0] == "L"):
                    return "I", f"(pyLen {s})"
                if t == "D":
                    return "I", f"(Dna.len {s})"
                if t == "Q":
                    return "I", f"(NSeq.len {s})"
                raise Unsupported(f"len of {t}")
            if name == "str" and len(n.args) == 1:
                t, s = self.ex(n.args[0], env, pre)
                if t == "S":
                    return "S", s
                if t == "Q":
                    return "S", f"(NSeq.str {s})"
                raise Unsupported(f"str of {t}")
            if name in ("tuple", "list") and len(n.args) == 1:
                t, s = self.ex(n.args[0], env, pre)
                if t in ("LS", "LI") or (isinstance(t, tuple) and t[0] == "L"):
                    return t, s
                raise Unsupported(f"{name} of {t}")
            if name == "set" and not n.args:
                return "LS", "([] : List (List Char))"
            if name == "range":
                a = [self.ex(x, env, pre) for x in n.args]
                if any(t != "I" for t, _ in a):
                    raise Unsupported("range of non-integers")
                if len(a) == 1:
                    return "LI", f"(pyRange 0 {a[0][1]} 1)"
                if len(a) == 2:
                    return "LI", f"(pyRange {a[0][1]} {a[1][1]} 1)"
                if not (isinstance(n.args[2], ast.Constant) and isinstance(n.args[2].value, int) and n.args[2].value > 0):
                    raise Unsupported("range with a step that is not a positive literal")
                return "LI", f"(pyRange {a[0][1]} {a[1][1]} {a[2][1]})"
            if name == "enumerate" and len(n.args) == 1:
                t, s = self.ex(n.args[0], env, pre)
                return ("L", ("Tup", ("I", elem_type(t)))), f"(pyEnumerate {iter_text(t, s)})"
            if name == "array" and len(n.args) == 1:
                t, s = self.ex(n.args[0], env, pre)
                if t == "Q":
                    return "D", f"(NSeq.array {s})"
                raise Unsupported(f"array of {t}")
            if name == "get_code" and len(n.args) == 1:
                t, s = self.ex(n.args[0], env, pre)
                if t in ("GO", "GN"):
                    return t, s
                raise Unsupported("get_code of a non-object")
            if name == "get_moltype" and len(n.args) == 1 and not n.keywords:
                t, s = self.ex(n.args[0], env, pre)
                if t == "S":
                    return "PM", f"(protMoltype {s})"
                raise Unsupported("get_moltype of a non-string")
            if name in self.reg_py:
                return self.call_fn(self.reg_py[name], None, n.args, n.keywords, env, pre)
            raise Unsupported(f"call of {name}")
        if not isinstance(f, ast.Attribute):
            raise Unsupported("call of a computed function")
        m = f.attr
        # module functions
        if isinstance(f.value, ast.Name) and f.value.id not in env:
            mod = f.value.id
            if mod == "itertools" and m == "product" and len(n.args) == 2:
                (ta, sa), (tb, sb) = self.ex(n.args[0], env, pre), self.ex(n.args[1], env, pre)
                return ("L", ("Tup", (elem_type(ta), elem_type(tb)))), f"(pyProduct {iter_text(ta, sa)} {iter_text(tb, sb)})"
            if mod in ("new_genetic_code", "genetic_code") and m == "get_code" and len(n.args) == 1:
                t, s = self.ex(n.args[0], env, pre)
                if t in ("GO", "GN"):
                    return t, s
                raise Unsupported("get_code of a non-object")
            if mod == "re" and m == "compile" and len(n.args) == 1:
                return self.regex(n.args[0], env, pre)
            raise Unsupported(f"call of {mod}.{m}")
        # `sep.join(xs)`
        if m == "join" and len(n.args) == 1:
            tsep, ssep = self.ex(f.value, env, pre)
            t, s = self.ex(n.args[0], env, pre)
            if tsep != "S":
                raise Unsupported("join on a non-string")
            if t == "LS":
                return "S", f"(pyJoin {ssep} {s})"
            if t == "T":
                return "S", f"(pyJoin {ssep} (Item.toList {s}))"
            if t == ("L", "T"):
                v = self.fresh()
                pre.append((v, f"pyJoinItems {ssep} {s}"))
                return "S", v
            raise Unsupported(f"join of {t}")
        if m == "make_seq":
            kw = {k.arg: k.value for k in n.keywords}
            if "seq" in kw and not n.args:
                t, s = self.ex(kw["seq"], env, pre)
                return "S", self.coerce(t, "S", s, "make_seq")
            raise Unsupported("make_seq without seq=")
        if isinstance(f.value, ast.Attribute) and f.value.attr == "__class__" and False:
            pass
        # dict.get
        if m == "get" and len(n.args) == 2:
            td, sd = self.ex(f.value, env, pre)
            if isinstance(td, tuple) and td[0] == "dict":
                tk, sk = self.ex(n.args[0], env, pre)
                tv, sv = self.ex(n.args[1], env, pre)
                return td[2], f"(dictGetD {sd} {self.coerce(tk, td[1], sk, 'dict key')} {self.coerce(tv, td[2], sv, 'dict default')})"
            raise Unsupported(f"get on {td}")
        # self.codons.to_indices(dna)
        if m == "to_indices" and isinstance(f.value, ast.Attribute) and f.value.attr == "codons" and len(n.args) == 1:
            t, s = self.ex(f.value.value, env, pre)
            ta, sa = self.ex(n.args[0], env, pre)
            if t == "GN" and ta == "D":
                return "IDX", f"(NewGCO.toIndices {s} {sa})"
            raise Unsupported(f"to_indices on {t} with {ta}")
        if m in ("_translate_plus", "_translate_minus") and len(n.args) == 1:
            t, s = self.ex(f.value, env, pre)
            ta, sa = self.ex(n.args[0], env, pre)
            if t == "GN" and ta == "BY":
                return "BYS", f"(NewGCO.translate{'Plus' if m.endswith('plus') else 'Minus'} {s} {sa})"
            raise Unsupported(f"{m} on {t} with {ta}")
        if isinstance(f.value, ast.Attribute) and f.value.attr == "__class__":
            raise Unsupported("constructor call outside an assignment")
        if m == "with_gap_motif" and not n.args and isinstance(f.value, ast.Call) and isinstance(f.value.func, ast.Attribute) and f.value.func.attr == "get_alphabet":
            # gc.get_alphabet(include_stop=e).with_gap_motif()
            g = f.value
            tg, sg = self.ex(g.func.value, env, pre)
            kw = {k.arg: k.value for k in g.keywords}
            if tg == "GO" and not g.args and set(kw) <= {"include_stop"}:
                ti, si = self.ex(kw["include_stop"], env, pre) if kw else ("B", "false")
                if ti == "B":
                    return "CA", f"(OldGC.codonAlphabet {sg} {si})"
            raise Unsupported("get_alphabet(...).with_gap_motif() of this shape")
        t, s = self.ex(f.value, env, pre)
        if t == "MTQ" and m == "resolve_ambiguity" and len(n.args) == 1 and [k.arg for k in n.keywords] == ["alphabet"]:
            ta, sa = self.ex(n.args[0], env, pre)
            tb, sb = self.ex(n.keywords[0].value, env, pre)
            if ta == "S" and tb == "CA":
                v = self.fresh()
                pre.append((v, f"NSeq.resolveAmbiguity {s} {sa} {sb}"))
                return "LS", v
            raise Unsupported(f"resolve_ambiguity({ta}, alphabet={tb})")
        if t == "PM" and m == "what_ambiguity" and len(n.args) == 1 and not n.keywords:
            ta, sa = self.ex(n.args[0], env, pre)
            if ta == "LS":
                return "S", f"(PM.whatAmbiguity {s} {sa})"
            raise Unsupported(f"what_ambiguity of {ta}")
        if t == "Q" and m == "to_dna" and not n.args and not n.keywords:
            return "Q", f"(NSeq.toDna {s})"
        if t == "IDX" and m == "tobytes" and not n.args:
            return "BY", f"(Idx.tobytes {s})"
        if t == "BYS" and m == "decode":
            return "S", s
        if t == "S":
            if m == "upper" and not n.args:
                return "S", f"(pyUpper {s})"
            if m == "replace" and len(n.args) == 2 and all(isinstance(a, ast.Constant) and isinstance(a.value, str) and len(a.value) == 1 for a in n.args):
                return "S", f"(pyReplace1 {s} {chars(n.args[0].value)[1:-1]} {chars(n.args[1].value)[1:-1]})"
            if m == "translate" and len(n.args) == 1 and isinstance(n.args[0], ast.Name) and n.args[0].id in self.consts and self.consts[n.args[0].id][0] == "TRANS":
                k, v = self.consts[n.args[0].id][1]
                return "S", f"(pyTranslate {chars(k)} {chars(v)} {s})"
            if m == "rc" and not n.args:
                return "S", f"(oldSeqRc {s})"
            raise Unsupported(f"str method {m}")
        if t == "RE":
            if m == "search" and len(n.args) == 1:
                ta, sa = self.ex(n.args[0], env, pre)
                return "OM", f"(RE.search {s} {self.coerce(ta, 'S', sa, 'search')})"
            if m == "sub" and len(n.args) == 2:
                (ta, sa), (tb, sb) = self.ex(n.args[0], env, pre), self.ex(n.args[1], env, pre)
                return "S", f"(RE.sub {s} {self.coerce(ta, 'S', sa, 'sub')} {self.coerce(tb, 'S', sb, 'sub')})"
        if t == "OM" and m == "start" and not n.args:
            return "I", f"({s}.getD 0)"
        if t in ("GO", "GN"):
            return self.call_fn(("old_" if t == "GO" else "new_") + m, (t, s), n.args, n.keywords, env, pre)
        if t == "Q":
            if m == "parse_out_gaps":
                raise Unsupported("parse_out_gaps outside `m, s = self.parse_out_gaps()`")
            return self.call_fn(f"{self.fam}_seq_{m}", (t, s), n.args, n.keywords, env, pre)
        raise Unsupported(f"method {m} of {t}")

    def regex(self, n, env, pre):
        """re.compile(f"({'|'.join(X)})[{G}]*$")  ->  RE.mk X (chars of G)"""
        if isinstance(n, ast.Name) and n.id in env and env[n.id] == "RESRC":
            return "RE", lname(n.id)
        raise Unsupported("re.compile of something that is not the f-string (a|b|…)[cls]*$")

    def regex_src(self, n, env, pre):
        if not isinstance(n, ast.JoinedStr):
            return None
        v = n.values
        lit = lambda x, s: isinstance(x, ast.Constant) and x.value == s
        if len(v) == 5 and lit(v[0], "(") and lit(v[2], ")[") and lit(v[4], "]*$") and isinstance(v[1], ast.FormattedValue) and isinstance(v[3], ast.FormattedValue):
            j = v[1].value
            if isinstance(j, ast.Call) and isinstance(j.func, ast.Attribute) and j.func.attr == "join" and isinstance(j.func.value, ast.Constant) and j.func.value.value == "|" and len(j.args) == 1:
                ta, sa = self.ex(j.args[0], env, pre)
                tg, sg = self.ex(v[3].value, env, pre)
                if ta in ("LS", "T") and tg == "S":
                    return f"(RE.mk {iter_text(ta, sa) if ta == 'T' else sa} {sg})"
        raise Unsupported("f-string that is not the regular expression shape (a|b|…)[cls]*$")

    # ------------------------------------------------------------------ statements
    def ret(self, t, s):
        want = self.spec[5]
        return f".ok {self.coerce(t, want, s, 'return value')}"

    def simple_assign(self, st):
        return isinstance(st, ast.Assign) and len(st.targets) == 1 and isinstance(st.targets[0], ast.Name)

    def block(self, stmts, env, ind):
        pad = "  " * ind
        if not stmts:
            if self.fall is None:
                raise Unsupported("the function can fall off its end (returns None)")
            return f"{pad}{self.fall[1]}"
        st, rest = stmts[0], stmts[1:]
        if isinstance(st, ast.Continue):
            if self.fall is None or self.fall[0] != "loop":
                raise Unsupported("continue outside a translated loop")
            return f"{pad}{self.fall[1]}"
        if isinstance(st, ast.Return) and self.fall is not None:
            raise Unsupported("return inside a loop / an exception handler")
        if isinstance(st, ast.Expr) and isinstance(st.value, ast.Call) and isinstance(st.value.func, ast.Attribute) and st.value.func.attr == "append" \
                and isinstance(st.value.func.value, ast.Name) and len(st.value.args) == 1 and not st.value.keywords:
            # xs.append(e)  ->  let xs := xs ++ [e]
            name = st.value.func.value.id
            if env.get(name) not in ("LS", "LI"):
                raise Unsupported(f"append to {name}, which is not a list of strings / integers")
            pre = []
            te, se = self.ex(st.value.args[0], env, pre)
            se = self.coerce(te, "S" if env[name] == "LS" else "I", se, "append")
            body = f"{pad}let {lname(name)} : {lt(env[name])} := {lname(name)} ++ [{se}]\n" + self.block(rest, env, ind)
            return wrap(pre, body, ind, raw=True)
        if isinstance(st, ast.Try):
            return self.try_(st, rest, env, ind)
        if isinstance(st, ast.Expr) and isinstance(st.value, ast.Constant):
            return self.block(rest, env, ind)
        if isinstance(st, (ast.ImportFrom, ast.Import, ast.Pass)):
            return self.block(rest, env, ind)
        if isinstance(st, ast.Return):
            if st.value is None:
                raise Unsupported("return without a value")
            pre = []
            t, s = self.ex(st.value, env, pre)
            if pre and pre[-1][0] == s and t == self.spec[5]:
                return wrap(pre[:-1], pre[-1][1], ind)  # tail call
            return wrap(pre, self.ret(t, s), ind)
        if isinstance(st, ast.Raise):
            e = st.exc.func if isinstance(st.exc, ast.Call) else st.exc
            name = e.attr if isinstance(e, ast.Attribute) else e.id if isinstance(e, ast.Name) else "?"
            return f"{pad}.error PyErr.{ERR.get(name, 'other')}"
        if isinstance(st, ast.Assign) and len(st.targets) == 1 and isinstance(st.targets[0], ast.Attribute) and st.targets[0].attr == "annotation_db":
            return self.block(rest, env, ind)  # annotations are not part of the modelled sequence
        if isinstance(st, ast.Assign) and len(st.targets) == 1 and isinstance(st.targets[0], ast.Tuple):
            tg = st.targets[0]
            v = st.value
            if (len(tg.elts) == 2 and all(isinstance(e, ast.Name) for e in tg.elts) and isinstance(v, ast.Call) and isinstance(v.func, ast.Attribute)
                    and v.func.attr == "parse_out_gaps" and not v.args):
                pre = []
                t, s = self.ex(v.func.value, env, pre)
                if t != "Q":
                    raise Unsupported("parse_out_gaps on a non-sequence")
                env2 = dict(env)
                env2[tg.elts[0].id], env2[tg.elts[1].id] = "GM", "Q"
                body = f"{pad}let {lname(tg.elts[0].id)} := NSeq.numGaps {s}\n{pad}let {lname(tg.elts[1].id)} := NSeq.ungapped {s}\n" + self.block(rest, env2, ind)
                return wrap(pre, body, ind, raw=True)
            raise Unsupported(f"tuple assignment {ast.unparse(st)[:60]}")
        if self.simple_assign(st):
            name = st.targets[0].id
            pre = []
            env2 = dict(env)
            try:
                v = st.value
                if isinstance(v, ast.JoinedStr):
                    s = self.regex_src(v, env, pre)
                    t = "RESRC"
                    env2[name] = t
                    body = f"{pad}let {lname(name)} : RE := {s}\n" + self.block(rest, env2, ind)
                    return wrap(pre, body, ind, raw=True)
                if isinstance(v, ast.Call) and isinstance(v.func, ast.Attribute) and isinstance(v.func.value, ast.Attribute) and v.func.value.attr == "__class__":
                    raise Unsupported("constructor call")
                if isinstance(v, ast.Call) and isinstance(v.func, ast.Attribute) and v.func.attr == "__class__":
                    # self.__class__(s, …) / self.__class__(moltype=…, seq=s, …): the same kind of sequence with another string
                    tr, sr = self.ex(v.func.value, env, pre)
                    kw = {k.arg: k.value for k in v.keywords}
                    arg = kw.get("seq", v.args[0] if v.args else None)
                    if tr != "Q" or arg is None:
                        raise Unsupported("constructor call")
                    ta, sa = self.ex(arg, env, pre)
                    t, s = "Q", f"(NSeq.withStr {sr} {self.coerce(ta, 'S', sa, 'constructor')})"
                else:
                    t, s = self.ex(v, env, pre)
            except Unsupported as e:
                env2[name] = ("POISON", str(e))
                return self.block(rest, env2, ind)
            env2[name] = t
            ann = f" : {lt(t)}" if not (isinstance(t, tuple) and t[0] == "dict") and t not in ("GM", "BYS") else ""
            body = f"{pad}let {lname(name)}{ann} := {s}\n" + self.block(rest, env2, ind)
            return wrap(pre, body, ind, raw=True)
        if isinstance(st, ast.For):
            # generator: for … in …: yield v   (last statement)
            if not rest and len(st.body) == 1 and isinstance(st.body[0], ast.Expr) and isinstance(st.body[0].value, ast.Yield) and not st.orelse:
                comp = ast.ListComp(elt=st.body[0].value.value, generators=[ast.comprehension(target=st.target, iter=st.iter, ifs=[], is_async=0)])
                return self.block([ast.Return(value=comp)], env, ind)
            return self.for_(st, rest, env, ind)
        if isinstance(st, ast.If):
            return self.if_(st, rest, env, ind)
        raise Unsupported(f"statement {type(st).__name__}: {ast.unparse(st)[:60]}")

    def for_(self, st, rest, env, ind):
        """for x in it: body   with the variables the body updates (assigned / appended to, defined before the loop) as the
        state of a monadic left fold; `continue` / falling off the body yields the state, `raise` aborts the fold"""
        pad = "  " * ind
        if st.orelse or not isinstance(st.target, ast.Name):
            raise Unsupported("for loop with else / a non-name target")
        changed = set()
        for node in ast.walk(ast.Module(body=st.body, type_ignores=[])):
            if isinstance(node, ast.Assign):
                for tg in node.targets:
                    for e in ast.walk(tg):
                        if isinstance(e, ast.Name):
                            changed.add(e.id)
            elif isinstance(node, (ast.AugAssign, ast.NamedExpr)):
                raise Unsupported("augmented assignment / walrus inside a loop")
            elif isinstance(node, (ast.Break, ast.Return, ast.Yield)):
                raise Unsupported("break / return / yield inside a loop")
            elif isinstance(node, ast.Call) and isinstance(node.func, ast.Attribute) and node.func.attr == "append" and isinstance(node.func.value, ast.Name):
                changed.add(node.func.value.id)
        state = sorted(v for v in changed if v in env)
        if not state:
            raise Unsupported("for loop that updates no variable defined before it")
        if st.target.id in state:
            raise Unsupported("loop variable is also loop state")
        pre = []
        ti, si = self.ex(st.iter, env, pre)
        et = elem_type(ti)
        si = iter_text(ti, si)
        for v in state:
            if isinstance(env[v], tuple):
                raise Unsupported(f"loop state {v} of type {env[v]}")
        tup = "(" + ", ".join(lname(v) for v in state) + ")" if len(state) > 1 else lname(state[0])
        tupt = " × ".join(lt(env[v]) for v in state)
        env2 = dict(env)
        env2[st.target.id] = et
        saved = self.fall
        self.fall = ("loop", f".ok {tup}")
        saved_n, self.n = self.n, 0  # the body is a definition of its own: temporaries are numbered from 1 there
        try:
            body = self.block(list(st.body), env2, 1)
        finally:
            self.fall = saved
            self.n = saved_n
        # the loop body becomes a definition of its own (all variables in scope are parameters; the state and the loop
        # variable come last), so that a theorem can speak about the fold; textually identical bodies share one definition
        cap = [(v, t) for v, t in env.items() if v not in state and v != st.target.id and simple_type(t)]
        sig = " ".join(f"({lname(v)} : {lt(t)})" for v, t in cap) + f" ({tup} : {tupt}) ({lname(st.target.id)} : {lt(et)}) : Except PyErr ({tupt})"
        name = None
        for n0, sig0, body0 in self.aux:
            if (sig0, body0) == (sig, body):
                name = n0
        if name is None:
            name = f"{self.spec[3]}_for{len(self.aux) + 1}"
            self.aux.append((name, sig, body))
        fn = " ".join([name] + [lname(v) for v, _ in cap])
        text = (f"{pad}Except.bind ({si}.foldlM ({fn}) {tup}) fun ({tup} : {tupt}) =>\n" + self.block(rest, env, ind))
        return wrap(pre, text, ind, raw=True)

    def try_(self, st, rest, env, ind):
        """try: x = e  except E: …; x = e2     ->   Except.bind (pyTry (e) E (handler … .ok x)) fun x => rest"""
        pad = "  " * ind
        if st.orelse or st.finalbody or len(st.handlers) != 1 or len(st.body) != 1 or not self.simple_assign(st.body[0]):
            raise Unsupported("try statement that is not `try: x = e / except E: …`")
        h = st.handlers[0]
        if not isinstance(h.type, ast.Name) or h.type.id not in ERR or h.name is not None:
            raise Unsupported("exception handler that does not name one modelled exception class")
        name = st.body[0].targets[0].id
        if not (h.body and self.simple_assign(h.body[-1]) and h.body[-1].targets[0].id == name):
            raise Unsupported("exception handler that does not end by assigning the variable of the try body")
        p1 = []
        t1, s1 = self.ex(st.body[0].value, env, p1)
        tried = wrap(p1[:-1], p1[-1][1], ind + 2) if p1 and p1[-1][0] == s1 else wrap(p1, f".ok {s1}", ind + 2)
        saved = self.fall
        self.fall = ("value", f".ok {lname(name)}")
        try:
            handler = self.block(list(h.body), env, ind + 2)
        finally:
            self.fall = saved
        env2 = dict(env)
        env2[name] = t1
        return (f"{pad}Except.bind (pyTry (\n{tried}) PyErr.{ERR[h.type.id]} (\n{handler})) fun ({lname(name)} : {lt(t1)}) =>\n"
                + self.block(rest, env2, ind))

    def if_(self, st, rest, env, ind):
        pad = "  " * ind
        pre = []
        env = dict(env)
        head = ""
        test = st.test
        if isinstance(test, ast.NamedExpr):
            t, s = self.ex(test.value, env, pre)
            nm = test.target.id
            env[nm] = t
            head = f"{pad}let {lname(nm)} : {lt(t)} := {s}\n"
            cond = self.truthy(t, lname(nm))
        else:
            cond = self.test(test, env, pre)
        # phi form: one pure assignment per branch to the same, already typed variable
        phi = self.phi(st, env)
        if phi is not None:
            name, t, a, b = phi
            env2 = dict(env)
            env2[name] = t
            body = f"{head}{pad}let {lname(name)} : {lt(t)} := if {cond} then {a} else {b}\n" + self.block(rest, env2, ind)
            return wrap(pre, body, ind, raw=True)
        body = self.block(list(st.body) + ([] if terminates(st.body) else list(rest)), env, ind + 1)
        other = self.block(list(st.orelse) + ([] if st.orelse and terminates(st.orelse) else list(rest)), env, ind + 1)
        text = f"{head}{pad}if {cond} then\n{body}\n{pad}else\n{other}"
        return wrap(pre, text, ind, raw=True)

    def phi(self, st, env):
        if len(st.body) != 1 or not self.simple_assign(st.body[0]) or len(st.orelse) > 1:
            return None
        name = st.body[0].targets[0].id
        if st.orelse and not (self.simple_assign(st.orelse[0]) and st.orelse[0].targets[0].id == name):
            return None
        if not st.orelse and name not in env:
            return None
        try:
            p = []
            ta, sa = self.ex(st.body[0].value, env, p)
            if st.orelse:
                tb, sb = self.ex(st.orelse[0].value, env, p)
            else:
                tb, sb = env[name], lname(name)
            if p or ta != tb or isinstance(ta, tuple):
                return None
            return name, ta, sa, sb
        except Unsupported:
            return None

    def translate(self):
        fam, file, py, lean, params, ret = self.spec
        env = {p: t for p, t in params}
        got = [a.arg for a in self.f.args.args]
        for p, _ in params:
            if p not in got:
                raise Unsupported(f"parameter {p} not found (signature is {got})")
        extra = [g for g in got if g not in env]
        if extra:
            raise Unsupported(f"unmodelled parameters {extra}")
        body = self.block(self.f.body, env, 1)
        sig = " ".join(f"({lname(p)} : {lt(t)})" for p, t in params)
        auxdefs = "".join(f"/-- `{file}` `{py}`: the body of a `for` loop (state and loop variable last) -/\ndef {n} {sg} :=\n{b}\n\n" for n, sg, b in self.aux)
        if self.recursive:
            # the function calls itself (old get_translation: an RNA sequence is converted and translated again): structural
            # recursion on a fuel argument, two levels (the recursive call is made on a DNA sequence, which does not recurse)
            body = "\n".join("  " + line for line in body.split("\n"))
            args = " ".join(lname(p) for p, _ in params)
            return (auxdefs + f"/-- `{file}` `{py}` (self-recursive: fuel) -/\ndef {lean}_fuel (fuel0 : Nat) {sig} : Except PyErr ({lt(ret)}) :=\n"
                    f"  match fuel0 with\n  | 0 => .error PyErr.other\n  | fuel + 1 =>\n{body}\n\n"
                    f"/-- `{file}` `{py}` -/\ndef {lean} {sig} : Except PyErr ({lt(ret)}) :=\n  {lean}_fuel 2 {args}\n")
        return auxdefs + f"/-- `{file}` `{py}` -/\ndef {lean} {sig} : Except PyErr ({lt(ret)}) :=\n{body}\n"


def simple_type(t):
    if isinstance(t, tuple):
        return t[0] in ("L", "Tup") and all(simple_type(x) for x in (t[1] if t[0] == "Tup" else (t[1],)))
    return t in LEAN_T


def terminates(stmts):
    if not stmts:
        return False
    last = stmts[-1]
    if isinstance(last, (ast.Return, ast.Raise, ast.Continue)):
        return True
    if isinstance(last, ast.If):
        return terminates(last.body) and bool(last.orelse) and terminates(last.orelse)
    return False


def wrap(pre, body, ind=0, raw=False):
    """bind the monadic sub-results in order, then the body (a term, or - raw - an already indented block)"""
    pad = "  " * ind
    if not raw:
        body = f"{pad}{body}"
    for v, m in reversed(pre):
        body = f"{pad}Except.bind ({m}) fun {v} =>\n{body}"
    return body


def find_function(tree, name):
    """module-level function, else the first class (in source order) that defines a method of that name"""
    for n in tree.body:
        if isinstance(n, ast.FunctionDef) and n.name == name:
            return n
    for n in tree.body:
        if isinstance(n, ast.ClassDef):
            for m in n.body:
                if isinstance(m, ast.FunctionDef) and m.name == name:
                    return m
    return None


def module_consts(tree):
    """`X = maketrans("…", "…")` at module level"""
    out = {}
    for n in tree.body:
        if isinstance(n, ast.Assign) and len(n.targets) == 1 and isinstance(n.targets[0], ast.Name) and isinstance(n.value, ast.Call):
            f = n.value.func
            fname = f.id if isinstance(f, ast.Name) else f.attr if isinstance(f, ast.Attribute) else None
            if fname == "maketrans" and len(n.value.args) == 2 and all(isinstance(a, ast.Constant) and isinstance(a.value, str) for a in n.value.args):
                k, v = n.value.args[0].value, n.value.args[1].value
                if len(k) == len(v):
                    out[n.targets[0].id] = ("TRANS", (k, v))
    return out


HEADER = """import CogentModel.Model.GeneticCodePrims
/- GENERATED by translator/c12_code2lean.py from cogent3/core/genetic_code.py, new_genetic_code.py, new_sequence.py and
   sequence.py on every run -- do not edit.  Python operations are the primitives of Model/GeneticCodePrims.lean. -/
set_option linter.unusedVariables false
namespace CogentModel.Gen.C12Code
open CogentModel.GC CogentModel.GCP

"""


def translate(src: Path):
    """-> (lean text, [problems])"""
    core = Path(src) / "cogent3" / "core"
    trees, problems = {}, []
    for file in sorted({s[1] for s in SPECS}):
        try:
            trees[file] = ast.parse((core / file).read_text())
        except (OSError, SyntaxError) as e:
            problems.append(f"{file}: cannot be parsed ({e})")
    registry, reg_py = {}, {}
    parts = []
    for spec in SPECS:
        fam, file, py, lean, params, ret = spec
        if file not in trees:
            continue
        fdef = find_function(trees[file], py)
        if fdef is None:
            problems.append(f"{file}: function {py} not found")
            continue
        registry[lean] = (fdef, spec)
    for spec in SPECS:
        fam, file, py, lean, params, ret = spec
        if lean not in registry:
            continue
        fdef = registry[lean][0]
        fn = Fn(fam, fdef, spec, registry, module_consts(trees[file]))
        fn.reg_py = {s[2]: s[3] for s in SPECS if s[1] == file and s[3] in registry and s[4][0][0] != "self"}
        try:
            parts.append(fn.translate())
        except Unsupported as e:
            problems.append(f"{file}:{fdef.lineno} {py}: {e}")
            # a stub keeps the file (and the driver) compiling; the theorem about this function fails instead
            sig = " ".join(f"({lname(p)} : {lt(t)})" for p, t in params)
            parts.append(f"/-- `{file}` `{py}`: NOT TRANSLATED (outside the supported fragment) -/\ndef {lean} {sig} : Except PyErr ({lt(ret)}) :=\n  .error PyErr.other\n")
    text = HEADER + "\n".join(parts) + "\nend CogentModel.Gen.C12Code\n"
    return text, problems


def write_if_changed(path: Path, text: str) -> bool:
    path = Path(path)
    if path.exists() and path.read_text() == text:
        return False
    path.parent.mkdir(parents=True, exist_ok=True)
    path.write_text(text)
    return True


if __name__ == "__main__":
    import sys

    t, p = translate(Path(sys.argv[1] if len(sys.argv) > 1 else "/repo/src"))
    print(t)
    for x in p:
        print("PROBLEM:", x, file=sys.stderr)
