"""Python -> Lean translator for the column completion of progressive alignment:
``align/indel_positions.py::pog_traceback`` together with the part of ``POGBuilder`` it drives
(``__init__``, ``add_skipped``, ``add_aligned``, ``get_pog``), sliced to the ONE attribute the column merge reads afterwards
(``POG.aligned_positions`` = ``POGBuilder.aligned_positions``; ``AlignablePOG._calcAligneds`` reads it through
``get_full_aligned_positions``).  ``ast`` only; output ``lean/CogentModel/Gen/C18Pog.lean``; ``Props/C18G.lean`` proves the
generated ``pogTraceback`` equal to the hand model ``Model/Progressive.lean::pogTraceback`` for all child widths and ALL
position lists (valid or not).

How it translates (symbolic execution of the statements, never a comparison with an expected text):
  * the builder is represented by the value of the observed attribute (``out : List Pos``); a builder method becomes a function
    ``... -> out -> out``.  Statements of a method that do not mention the observed attribute are sliced away after a check
    that they cannot leave the method early (no return/raise/break; ``assert`` is not modelled) -- they only maintain
    ``remap/last/result/states``, which feed the kernel's jump lists, not the rows;
  * ``for x in <parameter list>`` -> structural recursion with the tuple of mutable variables as state;
    ``for p in range(a, b)`` -> ``List.foldl`` over ``List.range' a (b - a)``;
    ``for dim, pos in enumerate(posn)`` over a 2-tuple and ``for dim in [0, 1]`` -> unrolled;
  * ``if pos is not None`` on an optional column -> ``match`` returning the state tuple of both branches;
  * a fixed-length Python list of integers (``upto = [0, 0]``) -> one variable per slot (indices are constants after unrolling);
    ``fp = [None, None]; fp[dim] = p; tuple(fp)`` with a symbolic ``dim`` -> ``setDim dim (some p) (none, none)``
    (``dim`` is 0 or 1 at every call site; any other value would be an IndexError in Python and is slot 1 here).
Anything else is a TranslationError and is reported.
"""
from __future__ import annotations

import ast
from pathlib import Path


class TranslationError(Exception):
    pass


def src(n):
    try:
        return ast.unparse(n)
    except Exception:  # noqa: BLE001
        return type(n).__name__


OBS = "aligned_positions"


def _func(body, name):
    f = [n for n in body if isinstance(n, ast.FunctionDef) and n.name == name]
    if len(f) != 1:
        raise TranslationError(f"function {name} not found exactly once")
    return f[0]


def mentions_obs(node):
    return any(isinstance(x, ast.Attribute) and x.attr == OBS for x in ast.walk(node))


def mutates_obs(st):
    """does the statement (or anything inside it) assign / call a method of self.aligned_positions"""
    for x in ast.walk(st):
        if isinstance(x, (ast.Assign, ast.AugAssign, ast.Delete)):
            tg = x.targets if isinstance(x, (ast.Assign, ast.Delete)) else [x.target]
            if any(mentions_obs(t) for t in tg):
                return True
        if isinstance(x, ast.Call) and isinstance(x.func, ast.Attribute) and mentions_obs(x.func.value):
            return True
        if isinstance(x, ast.Call) and isinstance(x.func, ast.Attribute) and isinstance(x.func.value, ast.Name) and x.func.value.id == "self" \
                and x.func.attr.startswith("add_"):
            return True
    return False


def check_sliceable(st, where):
    for x in ast.walk(st):
        if isinstance(x, (ast.Return, ast.Raise, ast.Break, ast.While, ast.Try, ast.With, ast.Yield, ast.YieldFrom)):
            raise TranslationError(f"{where}: `{src(x)[:60]}` in a statement that is sliced away")


class Sym:
    """symbolic executor; values are (type, lean) with type in nat | onat | pos | const | slots | builder | pogs | poslist"""

    def __init__(self, methods, lines, ind):
        self.methods = methods
        self.env = {}
        self.lines = lines
        self.ind = ind

    def emit(self, s):
        self.lines.append(" " * self.ind + s)

    def expr(self, n):
        if isinstance(n, ast.Constant) and isinstance(n.value, int) and not isinstance(n.value, bool) and n.value >= 0:
            return ("const", str(n.value))
        if isinstance(n, ast.Constant) and n.value is None:
            return ("onat", "none")
        if isinstance(n, ast.Name):
            if n.id not in self.env:
                raise TranslationError(f"unknown name `{n.id}`")
            return self.env[n.id]
        if isinstance(n, ast.BinOp) and isinstance(n.op, ast.Add):
            a, b = self.expr(n.left), self.expr(n.right)
            if a[0] in ("nat", "const") and b[0] in ("nat", "const"):
                return ("nat", f"({a[1]} + {b[1]})")
        if isinstance(n, ast.Subscript):
            v, i = self.expr(n.value), self.expr(n.slice)
            if v[0] == "slots" and i[0] == "const":
                return ("nat", v[1][int(i[1])])
            if v[0] == "pogs" and i[0] == "const":
                return ("pog", i[1])
        if isinstance(n, ast.Call) and isinstance(n.func, ast.Name) and n.func.id == "len" and len(n.args) == 1:
            v = self.expr(n.args[0])
            if v[0] == "pog":
                return ("nat", f"n_{v[1]}")
        if isinstance(n, ast.Call) and isinstance(n.func, ast.Name) and n.func.id == "tuple" and len(n.args) == 1:
            v = self.expr(n.args[0])
            if v[0] == "pos":
                return v
        if isinstance(n, ast.List) and len(n.elts) == 2:
            vs = [self.expr(e) for e in n.elts]
            if all(v[0] == "onat" for v in vs):
                return ("pos", f"({vs[0][1]}, {vs[1][1]})")
        raise TranslationError(f"unsupported expression `{src(n)}`")

    def nat(self, v, n):
        if v[0] not in ("nat", "const"):
            raise TranslationError(f"`{src(n)}` is a {v[0]}, an integer is required")
        return v[1]

    def mutable(self):
        """names of the lean variables that make up the mutable state, in a fixed order"""
        out = []
        for k, v in self.env.items():
            if v[0] == "slots":
                out += v[1]
            elif v[0] == "builder":
                out.append("out")
        return out

    def run(self, stmts):
        for s in stmts:
            self.stmt(s)

    def stmt(self, s):
        if isinstance(s, ast.Assert):
            return
        if isinstance(s, ast.Expr) and isinstance(s.value, ast.Constant):
            return
        if isinstance(s, ast.Assign) and len(s.targets) == 1:
            t = s.targets[0]
            if isinstance(t, ast.Name):
                if isinstance(s.value, ast.List) and all(isinstance(e, ast.Constant) and isinstance(e.value, int) for e in s.value.elts):
                    names = [f"{t.id}_{i}" for i in range(len(s.value.elts))]
                    for nm, e in zip(names, s.value.elts):
                        self.emit(f"let {nm} : Nat := {e.value}")
                    self.env[t.id] = ("slots", names)
                    return
                if isinstance(s.value, ast.Call) and isinstance(s.value.func, ast.Name) and s.value.func.id == "POGBuilder" and len(s.value.args) == 1:
                    if self.expr(s.value.args[0])[0] != "pogs":
                        raise TranslationError(f"`{src(s)}`: builder over something else than the two children")
                    self.emit(f"let out : List Pos := {self.methods['__init__']}")
                    self.env[t.id] = ("builder", "out")
                    return
                v = self.expr(s.value)
                if v[0] in ("pos", "nat", "const"):
                    self.emit(f"let {t.id} : {'Pos' if v[0] == 'pos' else 'Nat'} := {v[1]}")
                    self.env[t.id] = (v[0] if v[0] != "const" else "nat", t.id)
                    return
            if isinstance(t, ast.Subscript) and isinstance(t.value, ast.Name):
                tv = self.expr(t.value)
                i = self.expr(t.slice)
                v = self.expr(s.value)
                if tv[0] == "slots" and i[0] == "const":
                    self.emit(f"let {tv[1][int(i[1])]} := {self.nat(v, s.value)}")
                    return
                if tv[0] == "pos" and i[0] in ("nat", "const") and v[0] in ("nat", "const"):
                    self.emit(f"let {t.value.id} : Pos := setDim {i[1]} (some {v[1]}) {tv[1]}")
                    self.env[t.value.id] = ("pos", t.value.id)
                    return
        if isinstance(s, ast.Expr) and isinstance(s.value, ast.Call) and isinstance(s.value.func, ast.Attribute) and isinstance(s.value.func.value, ast.Name):
            c = s.value
            obj = self.expr(c.func.value)
            if obj[0] == "builder" and c.func.attr in ("add_skipped", "add_aligned"):
                args = [self.expr(a) for a in c.args]
                for kw in c.keywords:
                    if kw.arg != "old_gap":
                        raise TranslationError(f"`{src(s)}`: keyword {kw.arg}")
                if c.func.attr == "add_skipped":
                    if len(args) != 3:
                        raise TranslationError(f"`{src(s)}`: three arguments expected")
                    self.emit(f"let out := addSkipped {' '.join(self.nat(a, c) for a in args)} out")
                else:
                    if len(args) != 1 or args[0][0] != "pos":
                        raise TranslationError(f"`{src(s)}`: one position expected")
                    self.emit(f"let out := addAligned {args[0][1]} out")
                return
        if isinstance(s, ast.For) and not s.orelse:
            it = s.iter
            if isinstance(it, ast.Call) and isinstance(it.func, ast.Name) and it.func.id == "enumerate" and len(it.args) == 1 \
                    and isinstance(s.target, ast.Tuple) and len(s.target.elts) == 2:
                v = self.expr(it.args[0])
                if v[0] != "pos":
                    raise TranslationError(f"enumerate over `{src(it.args[0])}`")
                for i, proj in enumerate([".1", ".2"]):
                    self.env[s.target.elts[0].id] = ("const", str(i))
                    self.env[s.target.elts[1].id] = ("onat", f"{v[1]}{proj}")
                    self.run(s.body)
                return
            if isinstance(it, ast.List) and all(isinstance(e, ast.Constant) and isinstance(e.value, int) for e in it.elts) and isinstance(s.target, ast.Name):
                for e in it.elts:
                    self.env[s.target.id] = ("const", str(e.value))
                    self.run(s.body)
                return
        if isinstance(s, ast.If) and not s.orelse and isinstance(s.test, ast.Compare) and len(s.test.ops) == 1 and isinstance(s.test.ops[0], ast.IsNot) \
                and isinstance(s.test.comparators[0], ast.Constant) and s.test.comparators[0].value is None and isinstance(s.test.left, ast.Name):
            v = self.expr(s.test.left)
            if v[0] != "onat":
                raise TranslationError(f"`{src(s.test)}` on a {v[0]}")
            st = self.mutable()
            tup = "(" + ", ".join(st) + ")"
            nm = s.test.left.id
            self.emit(f"let st := match {v[1]} with")
            self.emit(f"  | none => {tup}")
            self.emit(f"  | some {nm} =>")
            sub = Sym(self.methods, self.lines, self.ind + 4)
            sub.env = dict(self.env)
            sub.env[nm] = ("nat", nm)
            sub.run(s.body)
            sub.emit(tup)
            for i, x in enumerate(st):
                self.emit(f"let {x} := st{'.2' * i}{'.1' if i < len(st) - 1 else ''}")
            return
        raise TranslationError(f"unsupported statement `{src(s)[:80]}`")


def translate(path: Path):
    tree = ast.parse(Path(path).read_text())
    problems, seen = [], {}
    try:
        cls = [n for n in tree.body if isinstance(n, ast.ClassDef) and n.name == "POGBuilder"]
        if len(cls) != 1:
            raise TranslationError("class POGBuilder not found exactly once")
        body = cls[0].body
        methods = {}
        # __init__: the initial value of the observed attribute
        init = _func(body, "__init__")
        a = [s for s in init.body if isinstance(s, ast.Assign) and any(mentions_obs(t) for t in s.targets)]
        if len(a) != 1 or src(a[0].targets[0]) != f"self.{OBS}" or src(a[0].value) != "[]":
            raise TranslationError(f"POGBuilder.__init__ sets {OBS} by {[src(x) for x in a]}")
        methods["__init__"] = "[]"
        # add_aligned(self, posn, old_gap): effect on the observed attribute
        fn = _func(body, "add_aligned")
        if [x.arg for x in fn.args.args][:2] != ["self", "posn"]:
            raise TranslationError("add_aligned parameters")
        eff = []
        for s in fn.body:
            if mutates_obs(s):
                ok = isinstance(s, ast.Expr) and isinstance(s.value, ast.Call) and src(s.value.func) == f"self.{OBS}.append" and len(s.value.args) == 1 \
                    and isinstance(s.value.args[0], ast.Name) and s.value.args[0].id == "posn"
                if not ok:
                    raise TranslationError(f"add_aligned changes {OBS} by `{src(s)[:70]}`")
                eff.append("out ++ [posn]")
            else:
                check_sliceable(s, "add_aligned")
        if len(eff) != 1:
            raise TranslationError(f"add_aligned appends {len(eff)} times")
        seen["add_aligned"] = eff[0]
        defs = [f"/-- effect of `POGBuilder.add_aligned(posn)` on `aligned_positions` -/\ndef addAligned (posn : Pos) (out : List Pos) : List Pos :=\n  {eff[0]}\n"]
        # add_skipped(self, dim, start, end, old_gap=True)
        fn = _func(body, "add_skipped")
        if [x.arg for x in fn.args.args][:4] != ["self", "dim", "start", "end"]:
            raise TranslationError("add_skipped parameters")
        if len(fn.body) != 1 or not isinstance(fn.body[0], ast.For) or src(fn.body[0].iter) != "range(start, end)" or not isinstance(fn.body[0].target, ast.Name):
            raise TranslationError(f"add_skipped is not a single loop over range(start, end): `{src(fn.body[0])[:60]}`")
        lines = []
        sy = Sym(methods, lines, 4)
        p = fn.body[0].target.id
        sy.env = {"self": ("builder", "out"), "dim": ("nat", "dim"), "start": ("nat", "start"), "end": ("nat", "stop"), p: ("nat", p)}
        sy.run(fn.body[0].body)
        defs.append("/-- effect of `POGBuilder.add_skipped(dim, start, end)` -/\ndef addSkipped (dim start stop : Nat) (out : List Pos) : List Pos :=\n"
                    f"  (List.range' start (stop - start)).foldl (fun out {p} =>\n" + "\n".join(lines) + "\n    out) out\n")
        seen["add_skipped"] = "loop over range(start, end)"
        # get_pog: hands the observed attribute over unchanged
        fn = _func(body, "get_pog")
        handed = [s for s in fn.body if isinstance(s, ast.Assign) and src(s.targets[0]).endswith(f".{OBS}")]
        if len(handed) != 1 or src(handed[0].value) != f"self.{OBS}" or not isinstance(fn.body[-1], ast.Return) \
                or src(fn.body[-1].value) != src(handed[0].targets[0].value):
            raise TranslationError(f"get_pog does not return an object whose {OBS} is self.{OBS}")
        for s in fn.body:
            if s is not handed[0] and s is not fn.body[-1]:
                if mutates_obs(s):
                    raise TranslationError(f"get_pog changes {OBS}: `{src(s)[:60]}`")
                check_sliceable(s, "get_pog")
        # pog_traceback(pogs, aligned_positions)
        fn = _func(tree.body, "pog_traceback")
        if [x.arg for x in fn.args.args] != ["pogs", "aligned_positions"]:
            raise TranslationError("pog_traceback parameters")
        loops = [i for i, s in enumerate(fn.body) if isinstance(s, ast.For) and src(s.iter) == "aligned_positions"]
        if len(loops) != 1 or not isinstance(fn.body[loops[0]].target, ast.Name):
            raise TranslationError("pog_traceback: exactly one loop over aligned_positions expected")
        li = loops[0]
        lines = []
        main = Sym(methods, lines, 2)
        main.env = {"pogs": ("pogs", "pogs")}
        main.run(fn.body[:li])
        st = main.mutable()
        tup = "(" + ", ".join(st) + ")"
        tname = fn.body[li].target.id
        llines = []
        sub = Sym(methods, llines, 4)
        sub.env = dict(main.env)
        sub.env[tname] = ("pos", tname)
        sub.run(fn.body[li].body)
        if sub.mutable() != st:
            raise TranslationError("pog_traceback: the loop body changes the set of variables")
        sty = " × ".join("Nat" if x != "out" else "List Pos" for x in st)
        defs.append(f"/-- loop `for {tname} in aligned_positions` of pog_traceback; state {tup} -/\n"
                    f"def pogTraceback_loop : List Pos → {sty} → {sty}\n  | [], st => st\n  | {tname} :: rest, {tup} =>\n"
                    + "\n".join(llines) + f"\n    pogTraceback_loop rest {tup}\n")
        main.emit(f"let st := pogTraceback_loop aligned_positions {tup}")
        for i, x in enumerate(st):
            main.emit(f"let {x} := st{'.2' * i}{'.1' if i < len(st) - 1 else ''}")
        tail = fn.body[li + 1:]
        if not tail or not isinstance(tail[-1], ast.Return) or not isinstance(tail[-1].value, ast.Call) or src(tail[-1].value.func).split(".")[-1] != "get_pog" \
                or main.expr(tail[-1].value.func.value)[0] != "builder":
            raise TranslationError("pog_traceback does not end with `return <builder>.get_pog()`")
        main.run(tail[:-1])
        main.emit("out")
        defs.append("/-- `pog_traceback([pog1, pog2], aligned_positions).aligned_positions` with `n_0 = len(pog1)`, `n_1 = len(pog2)` -/\n"
                    "def pogTraceback (n_0 n_1 : Nat) (aligned_positions : List Pos) : List Pos :=\n" + "\n".join(lines) + "\n")
        seen["pog_traceback"] = f"state {tup}"
    except TranslationError as e:
        return None, dict(seen=seen), [str(e)]
    header = "/-\n  GENERATED by /verif/translator/c18_pog2lean.py from cogent3/align/indel_positions.py\n" \
             "  (regenerated on every check run; do not edit).  Proved equal to Model/Progressive.lean::pogTraceback in Props/C18G.lean.\n-/\n" \
             "import CogentModel.Model.Progressive\n\nnamespace CogentModel.Gen.C18Pog\nopen CogentModel.Progressive\n\n" \
             "/-- `fp[dim] = v` on a 2-slot list (slot 0 when `dim = 0`, else slot 1) -/\n" \
             "def setDim (dim : Nat) (v : Option Nat) (p : Pos) : Pos := if dim = 0 then (v, p.2) else (p.1, v)\n\n"
    return header + "\n".join(defs) + "\nend CogentModel.Gen.C18Pog\n", dict(seen=seen), problems


def write_if_changed(path: Path, text: str) -> bool:
    if path.exists() and path.read_text() == text:
        return False
    path.parent.mkdir(parents=True, exist_ok=True)
    path.write_text(text)
    return True


if __name__ == "__main__":
    import sys

    p = Path(sys.argv[1] if len(sys.argv) > 1 else "/repo/src/cogent3/align/indel_positions.py")
    lean, info, problems = translate(p)
    print(lean)
    print(problems, file=sys.stderr)
