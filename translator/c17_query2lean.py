"""Python -> Lean translator for the small pieces of pure decision logic around the C17 queries.

On every run this re-reads ``core/annotation_db.py`` of the checked tree with ``ast`` only (nothing of cogent3 is imported
or executed) and emits ``lean/CogentModel/Gen/C17Query.lean`` (namespace ``CogentModel.Gen.C17Query``).  The output is a
pure function of the source text: an unchanged source gives a byte-identical file.  ``Props/C17X.lean`` proves every
generated definition equal to its plain reading for ALL arguments, and ``Model/AnnotDbX.lean`` *uses* the generated
definitions, so a semantic edit of one of these expressions breaks a proof obligation.

Translated (anything unsupported inside them is a *translation problem*, never skipped):

  featuresTables / recordsTables   ``table_names = <expr>`` in get_features_matching / get_records_matching
                                   (which tables a query visits, as a function of on_alignment and self.table_names)
  countTables                      the same assignment in num_matches
  featuresKeepOa / recordsKeepOa / countKeepOa
                                   the per-table copy of the arguments in the `for table_name in table_names` loop of
                                   get_features_matching / get_records_matching / num_matches: `<copy> = {**kwargs}`, then
                                   `<copy>.pop('on_alignment', None)` under an `if <test on table_name>` (body or else
                                   branch); emitted as "does the table called table_name still get on_alignment".  The copy
                                   must be what the loop hands on (`**<copy>` / `conditions=<copy>`) and must not be changed
                                   in any other way, else translation problem
  mixinChildPattern / mixinChildColumn
                                   the `name=f"..."` pattern and the `column="..."` of the `_get_feature_by_id` call in the mixin's
                                   get_feature_children (which column is searched for which LIKE pattern)
  subsetStart / subsetStop         ``start = <expr>`` / ``stop = <expr>`` at the top of subset() (normalisation of the bounds)
  attrWrapRecords / attrWrapCount  the test of ``if <test>: kwargs["attributes"] = f'%{...}%'`` in _get_records_matching and
                                   in num_matches, as a function of the attributes value
  childSkip / parentSkip           the coordinate tests ``if <test>: continue`` that follow ``cstart, cstop = ...`` in
                                   GenbankAnnotationDb.get_feature_children / get_feature_parent

Typing: on_alignment : Option Bool, start/stop : Option Int (subset) or Int (family tests), attributes : Option String,
table_names : List String.  Python truthiness: Option Bool -> ``= some true``; Option Int -> present and non-zero;
Option String -> present and non-empty.  ``int(x)`` of an int is x.
"""
from __future__ import annotations

import ast
from pathlib import Path


class TranslationError(Exception):
    pass


def src(node):
    try:
        return ast.unparse(node)
    except Exception:  # noqa: BLE001
        return type(node).__name__


CMP = {ast.Lt: "<", ast.LtE: "≤", ast.Gt: ">", ast.GtE: "≥", ast.Eq: "=", ast.NotEq: "≠"}


class Expr:
    """expression translator over a typed environment {name: 'int' | 'oint' | 'obool' | 'ostr' | 'strs'}"""

    def __init__(self, env):
        self.env = env

    def typ(self, n):
        if isinstance(n, ast.Name) and n.id in self.env:
            return self.env[n.id]
        if isinstance(n, ast.Constant):
            if n.value is None:
                return "none"
            if isinstance(n.value, bool):
                return "bool"
            if isinstance(n.value, int):
                return "int"
            if isinstance(n.value, str):
                return "str"
        if isinstance(n, ast.Call) and isinstance(n.func, ast.Name) and n.func.id == "int" and len(n.args) == 1:
            return self.typ(n.args[0])
        if isinstance(n, ast.Attribute) and isinstance(n.value, ast.Name) and n.value.id == "self" and n.attr in self.env:
            return self.env[n.attr]
        if isinstance(n, ast.List) and all(isinstance(e, ast.Constant) and isinstance(e.value, str) for e in n.elts):
            return "strs"
        if isinstance(n, ast.IfExp):
            a, b = self.typ(n.body), self.typ(n.orelse)
            if a == b:
                return a
            if {a, b} <= {"oint", "none", "int"}:
                return "oint"
        raise TranslationError(f"cannot type `{src(n)}`")

    def val(self, n, want=None):
        """Lean term of the python value"""
        t = self.typ(n)
        if isinstance(n, ast.Name):
            out = n.id
        elif isinstance(n, ast.Attribute):
            out = n.attr
        elif isinstance(n, ast.Constant):
            out = "none" if n.value is None else ("true" if n.value is True else "false" if n.value is False else
                                                  str(n.value) if isinstance(n.value, int) else '"' + n.value + '"')
        elif isinstance(n, ast.Call):
            out = self.val(n.args[0])  # int(x) of an int
        elif isinstance(n, ast.List):
            out = "[" + ", ".join('"' + e.value + '"' for e in n.elts) + "]"
        elif isinstance(n, ast.IfExp):
            w = self.typ(n)
            return f"(if {self.test(n.test)} then {self.val(n.body, w)} else {self.val(n.orelse, w)})"
        else:
            raise TranslationError(f"unsupported value `{src(n)}`")
        if want == "oint" and t == "int":
            return f"(some {out})"
        return out

    def test(self, n):
        """Lean Bool of the python truth value of n"""
        if isinstance(n, ast.BoolOp):
            op = " && " if isinstance(n.op, ast.And) else " || "
            return "(" + op.join(self.test(v) for v in n.values) + ")"
        if isinstance(n, ast.UnaryOp) and isinstance(n.op, ast.Not):
            return f"(!{self.test(n.operand)})"
        if isinstance(n, ast.Compare):
            parts, left = [], n.left
            for op, right in zip(n.ops, n.comparators):
                parts.append(self.cmp(left, op, right))
                left = right
            return parts[0] if len(parts) == 1 else "(" + " && ".join(parts) + ")"
        if isinstance(n, ast.Call) and isinstance(n.func, ast.Attribute) and n.func.attr == "get" and src(n.func.value) == "kwargs" \
                and isinstance(n.args[0], ast.Constant) and n.args[0].value in self.env:
            return self.truth(n.args[0].value, self.env[n.args[0].value])
        t = self.typ(n)
        if isinstance(n, (ast.Name, ast.Attribute)):
            return self.truth(self.val(n), t)
        raise TranslationError(f"unsupported test `{src(n)}`")

    @staticmethod
    def truth(x, t):
        if t == "obool":
            return f"({x} == some true)"
        if t == "oint":
            return f"({x}.isSome && {x} != some 0)"
        if t == "ostr":
            return f"({x}.isSome && {x} != some \"\")"
        if t == "bool":
            return x
        raise TranslationError(f"truth value of a {t} is not supported")

    def cmp(self, a, op, b):
        if isinstance(op, (ast.Is, ast.IsNot)) and isinstance(b, ast.Constant) and b.value is None:
            t = self.typ(a)
            if t not in ("oint", "obool", "ostr"):
                raise TranslationError(f"`{src(a)} is None` on a {t}")
            return f"{self.val(a)}.isNone" if isinstance(op, ast.Is) else f"{self.val(a)}.isSome"
        if isinstance(op, (ast.In, ast.NotIn)) and isinstance(a, ast.Constant) and isinstance(a.value, str):
            # "%%" not in kwargs["attributes"]
            key = b.slice.value if isinstance(b, ast.Subscript) and src(b.value) == "kwargs" and isinstance(b.slice, ast.Constant) else None
            if key is None or self.env.get(key) != "ostr":
                raise TranslationError(f"unsupported membership test `{src(a)} in {src(b)}`")
            t = f'(hasSub "{a.value}" ({key}.getD ""))'
            return t if isinstance(op, ast.In) else f"(!{t})"
        if type(op) in CMP and self.typ(a) == "int" and self.typ(b) == "int":
            return f"decide ({self.val(a)} {CMP[type(op)]} {self.val(b)})"
        if isinstance(op, (ast.Eq, ast.NotEq)) and self.typ(a) == "str" and self.typ(b) == "str":
            return f"decide ({self.val(a)} {CMP[type(op)]} {self.val(b)})"
        raise TranslationError(f"unsupported comparison `{src(a)} {type(op).__name__} {src(b)}`")


def _func(tree, name, cls=None):
    body = tree.body
    if cls is not None:
        c = [n for n in body if isinstance(n, ast.ClassDef) and n.name == cls]
        if not c:
            raise TranslationError(f"class {cls} not found")
        body = c[0].body
    f = [n for n in body if isinstance(n, ast.FunctionDef) and n.name == name]
    if len(f) != 1:
        raise TranslationError(f"function {cls or ''}.{name} not found exactly once")
    return f[0]


def _assigns(fn, target):
    return [n for n in ast.walk(fn) if isinstance(n, ast.Assign) and len(n.targets) == 1 and src(n.targets[0]) == target]


def _one_assign(fn, target):
    a = _assigns(fn, target)
    if len(a) != 1:
        raise TranslationError(f"{fn.name}: expected exactly one assignment to `{target}`, found {len(a)}")
    return a[0].value


def _family_test(fn):
    """the test of the `if ...: continue` that follows `cstart, cstop = ...`"""
    for loop in ast.walk(fn):
        if not isinstance(loop, ast.For):
            continue
        for i, st in enumerate(loop.body):
            if isinstance(st, ast.Assign) and src(st.targets[0]) in ("cstart, cstop", "(cstart, cstop)"):
                if src(st.value) != "(feat.pop('start'), feat.pop('stop'))":
                    raise TranslationError(f"{fn.name}: cstart, cstop are read from `{src(st.value)}`")
                nxt = loop.body[i + 1] if i + 1 < len(loop.body) else None
                if isinstance(nxt, ast.If) and len(nxt.body) == 1 and isinstance(nxt.body[0], ast.Continue) and not nxt.orelse:
                    return nxt.test
                raise TranslationError(f"{fn.name}: `cstart, cstop = ...` is not followed by `if ...: continue`")
    raise TranslationError(f"{fn.name}: no `cstart, cstop = ...` in a loop")


def _attr_wrap_test(fn):
    for n in ast.walk(fn):
        if isinstance(n, ast.If) and len(n.body) == 1 and isinstance(n.body[0], ast.Assign) and \
                src(n.body[0].targets[0]) == "kwargs['attributes']" and not n.orelse:
            v = n.body[0].value
            ok = isinstance(v, ast.JoinedStr) and len(v.values) == 3 and all(
                isinstance(v.values[i], ast.Constant) and v.values[i].value == "%" for i in (0, 2)) and \
                isinstance(v.values[1], ast.FormattedValue) and src(v.values[1].value) == "kwargs['attributes']"
            if not ok:
                raise TranslationError(f"{fn.name}: attributes is rewritten to `{src(v)}`, expected f'%{{...}}%'")
            return n.test
    raise TranslationError(f"{fn.name}: no `if ...: kwargs['attributes'] = ...`")


def _keep_oa(fn):
    """(test, negate) of the per-table `on_alignment` handling in the `for table_name in table_names` loop; test None = constant"""
    loops = [n for n in ast.walk(fn) if isinstance(n, ast.For) and src(n.target) == "table_name" and src(n.iter) == "table_names"]
    if len(loops) != 1:
        raise TranslationError(f"{fn.name}: expected one `for table_name in table_names` loop, found {len(loops)}")
    loop = loops[0]
    copies = [st for st in loop.body if isinstance(st, ast.Assign) and isinstance(st.value, ast.Dict) and st.value.keys == [None]
              and src(st.value.values[0]) == "kwargs" and isinstance(st.targets[0], ast.Name)]
    if len(copies) != 1:
        raise TranslationError(f"{fn.name}: expected one `<copy> = {{**kwargs}}` in the table loop, found {len(copies)}")
    copy = copies[0].targets[0].id
    if loop.body.index(copies[0]) != min(i for i, st in enumerate(loop.body) if any(isinstance(x, ast.Name) and x.id == copy for x in ast.walk(st))):
        raise TranslationError(f"{fn.name}: `{copy}` is used before it is copied from kwargs")
    handed = [c for c in ast.walk(loop) if isinstance(c, ast.Call) and any(isinstance(k.value, ast.Name) and k.value.id == copy and k.arg in (None, "conditions") for k in c.keywords)]
    if len(handed) != 1:
        raise TranslationError(f"{fn.name}: `{copy}` is not handed on exactly once as **{copy} / conditions={copy}")
    if any(isinstance(c, ast.Call) and any(src(k.value) == "kwargs" for k in c.keywords) for c in ast.walk(loop)):
        raise TranslationError(f"{fn.name}: the table loop hands on `kwargs` itself")

    def is_pop(st):
        return isinstance(st, ast.Expr) and src(st.value) == f"{copy}.pop('on_alignment', None)"

    # every other way of changing the copy is unsupported
    for n in ast.walk(loop):
        if isinstance(n, ast.Call) and isinstance(n.func, ast.Attribute) and src(n.func.value) == copy and src(n) != f"{copy}.pop('on_alignment', None)":
            raise TranslationError(f"{fn.name}: unsupported `{src(n)}`")
        if isinstance(n, (ast.Subscript, ast.Name)) and isinstance(getattr(n, "ctx", None), (ast.Store, ast.Del)) and \
                (src(n.value) if isinstance(n, ast.Subscript) else n.id) == copy and n is not copies[0].targets[0]:
            raise TranslationError(f"{fn.name}: unsupported change of `{copy}`: `{src(n)}`")
    pops = [n for n in ast.walk(loop) if is_pop(n)]
    if not pops:
        return None, "true", copy
    if len(pops) != 1:
        raise TranslationError(f"{fn.name}: on_alignment is popped {len(pops)} times")
    if pops[0] in loop.body:
        return None, "false", copy
    for st in loop.body:
        if isinstance(st, ast.If):
            if pops[0] in st.body:
                return st.test, "neg", copy
            if pops[0] in st.orelse:
                return st.test, "pos", copy
    raise TranslationError(f"{fn.name}: `{src(pops[0])}` is not directly under an if / else of the table loop")


def _children_call(fn):
    calls = [c for c in ast.walk(fn) if isinstance(c, ast.Call) and src(c.func) == "self._get_feature_by_id"]
    if len(calls) != 1:
        raise TranslationError(f"{fn.name}: expected one self._get_feature_by_id call, found {len(calls)}")
    kw = {k.arg: k.value for k in calls[0].keywords}
    if "name" not in kw or "column" not in kw:
        raise TranslationError(f"{fn.name}: _get_feature_by_id is called without name= / column=")
    return kw


def _fstring(v, var):
    """Lean String term of an f-string over the single variable `var`"""
    if isinstance(v, ast.Name) and v.id == var:
        return var
    if isinstance(v, ast.Constant) and isinstance(v.value, str):
        return json_str(v.value)
    if not isinstance(v, ast.JoinedStr):
        raise TranslationError(f"unsupported pattern `{src(v)}`")
    parts = []
    for x in v.values:
        if isinstance(x, ast.Constant) and isinstance(x.value, str):
            parts.append(json_str(x.value))
        elif isinstance(x, ast.FormattedValue) and isinstance(x.value, ast.Name) and x.value.id == var and x.conversion == -1 and x.format_spec is None:
            parts.append(var)
        else:
            raise TranslationError(f"unsupported piece in `{src(v)}`")
    return "(" + " ++ ".join(parts) + ")" if parts else '""'


def json_str(t):
    if any(c in t for c in '"\\') or not t.isascii() or not t.isprintable():
        raise TranslationError(f"unsupported string constant {t!r}")
    return '"' + t + '"'


def translate(path: Path):
    tree = ast.parse(Path(path).read_text())
    problems, defs, seen = [], [], {}
    M = "SqliteAnnotationDbMixin"

    def emit(name, doc, sig, make):
        try:
            body, text = make()
            defs.append(f"/-- {doc}\n`{text}` -/\ndef {name} {sig} :=\n  {body}\n")
            seen[name] = text
        except TranslationError as e:
            problems.append(f"{name}: {e}")

    def tables(fname):
        def make():
            v = _one_assign(_func(tree, fname, M), "table_names")
            return Expr(dict(on_alignment="obool", table_names="strs")).val(v), src(v)
        return make

    emit("featuresTables", "tables visited by get_features_matching", "(on_alignment : Option Bool) (table_names : List String) : List String", tables("get_features_matching"))
    emit("recordsTables", "tables visited by get_records_matching", "(on_alignment : Option Bool) (table_names : List String) : List String", tables("get_records_matching"))

    emit("countTables", "tables visited by num_matches", "(on_alignment : Option Bool) (table_names : List String) : List String", tables("num_matches"))

    def keep(fname):
        def make():
            t, how, copy = _keep_oa(_func(tree, fname, M))
            if t is None:
                return how, f"{copy}: on_alignment {'never popped' if how == 'true' else 'always popped'}"
            e = Expr(dict(table_name="str")).test(t)
            return (f"(!{e})" if how == "neg" else e), f"{copy}.pop('on_alignment') {'if' if how == 'neg' else 'unless'} {src(t)}"
        return make

    for nm, fname in (("featuresKeepOa", "get_features_matching"), ("recordsKeepOa", "get_records_matching"), ("countKeepOa", "num_matches")):
        emit(nm, f"{fname}: the table called table_name is still asked for on_alignment", "(table_name : String) : Bool", keep(fname))

    def childpat():
        kw = _children_call(_func(tree, "get_feature_children", M))
        return _fstring(kw["name"], "name"), src(kw["name"])

    def childcol():
        kw = _children_call(_func(tree, "get_feature_children", M))
        if not (isinstance(kw["column"], ast.Constant) and isinstance(kw["column"].value, str)):
            raise TranslationError(f"get_feature_children: column=`{src(kw['column'])}`")
        return json_str(kw["column"].value), src(kw["column"])

    emit("mixinChildPattern", "get_feature_children (mixin): the value the searched column is compared with", "(name : String) : String", childpat)
    emit("mixinChildColumn", "get_feature_children (mixin): the searched column", ": String", childcol)

    def bound(name):
        def make():
            fn = _func(tree, "subset", M)
            a = [x for x in fn.body if isinstance(x, ast.Assign) and src(x.targets[0]) == name]
            if len(a) != 1:
                raise TranslationError(f"subset: expected one top-level assignment to `{name}`")
            return Expr(dict(start="oint", stop="oint")).val(a[0].value, "oint"), src(a[0].value)
        return make

    emit("subsetStart", "subset(): the start bound handed to the query", "(start : Option Int) : Option Int", bound("start"))
    emit("subsetStop", "subset(): the stop bound handed to the query", "(stop : Option Int) : Option Int", bound("stop"))

    def wrap(fname):
        def make():
            t = _attr_wrap_test(_func(tree, fname, M))
            return Expr(dict(attributes="ostr")).test(t), src(t)
        return make

    emit("attrWrapRecords", "_get_records_matching: the attributes value is wrapped in %...% when", "(attributes : Option String) : Bool", wrap("_get_records_matching"))
    emit("attrWrapCount", "num_matches: the attributes value is wrapped in %...% when", "(attributes : Option String) : Bool", wrap("num_matches"))

    def fam(fname):
        def make():
            t = _family_test(_func(tree, fname, "GenbankAnnotationDb"))
            return Expr(dict(start="int", stop="int", cstart="int", cstop="int")).test(t), src(t)
        return make

    emit("childSkip", "GenbankAnnotationDb.get_feature_children: a candidate row is skipped when", "(start stop cstart cstop : Int) : Bool", fam("get_feature_children"))
    emit("parentSkip", "GenbankAnnotationDb.get_feature_parent: a candidate row is skipped when", "(start stop cstart cstop : Int) : Bool", fam("get_feature_parent"))

    header = "/-\n  GENERATED by /verif/translator/c17_query2lean.py from cogent3/core/annotation_db.py\n" \
             "  (regenerated on every check run; do not edit).  Source expressions seen:\n" + \
             "".join(f"    {k}: {v}\n" for k, v in seen.items()) + "-/\nnamespace CogentModel.Gen.C17Query\n\n" \
             "/-- `sub in text` for python strings -/\n" \
             "def hasSubL (sub : List Char) : List Char → Bool\n" \
             "  | [] => sub.isEmpty\n" \
             "  | c :: cs => (sub.isPrefixOf (c :: cs)) || hasSubL sub cs\n\n" \
             "def hasSub (sub text : String) : Bool := hasSubL sub.toList text.toList\n\n"
    lean = header + "\n".join(defs) + "\nend CogentModel.Gen.C17Query\n"
    if problems:
        return None, dict(seen=seen), problems
    return lean, dict(seen=seen), problems


def write_if_changed(path: Path, text: str) -> bool:
    if path.exists() and path.read_text() == text:
        return False
    path.parent.mkdir(parents=True, exist_ok=True)
    path.write_text(text)
    return True


if __name__ == "__main__":
    import sys

    p = Path(sys.argv[1] if len(sys.argv) > 1 else "/repo/src/cogent3/core/annotation_db.py")
    lean, info, problems = translate(p)
    print(lean)
    print(problems)
