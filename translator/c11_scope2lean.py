"""C11 translator: parameter-rule scope resolution -> lean/CogentModel/Gen/C11Scope.lean   (`ast` only, nothing is imported)

Translated from the CURRENT source:
  S1  `TreeNode.get_edge_names` (core/tree.py)
  S2  `_LikelihoodParameterController._process_scope_info` (evolve/parameter_controller.py)
into total Lean functions `… → Except Err …` over the abstract tree primitives `TreeOps` of Model/ScopeModel.lean.

Fragment (anything else is a TranslationError, reported by the check as a translation problem):
  statements   docstring; `if/elif/else` (the rest of the function is copied into both branches, no joins); `x = e`;
               `(a, b) = x` (two-element unpacking of a list argument, anything else = `.prim`); `raise TreeError(<text>)`
               (the leading literal text selects the `Err` constructor, see MESSAGES); `return e`; `acc.append(e)`;
               `for v in n.children: w = v.get_node_names(includeself=1); acc.extend(w)` (a fold over the children);
               assignments from the raising primitives get_node_matching_name / get_connecting_node / get_edge_names
  tests        `x is None`, `x is not None`, `not t`, `a or b`, `a and b`, `len(x) != <int>` / `== <int>`, a bare name
               (Python truthiness by the declared kind of the name), `n.isroot()`, `n.is_tip()`
  values       names, None, True/False, `not t`, `[x]`, `[]`, `n.name`, `n.unrooted_deepcopy()`, `self.tree`
Kinds of the names are declared in KINDS (function arguments) and inferred for locals.
"""
from __future__ import annotations

import ast
from pathlib import Path


class TranslationError(Exception):
    pass


MESSAGES = [
    ("Only ONE of edge, edges or tip_names", "onlyOne"),
    ("tip_names must contain 2 species", "twoSpecies"),
    ("Outgroup (", "outgroupNotTip"),
    ("LCA(", "noStem"),
]

# argument kinds: ostr = str|None, olist = list[str]|None, obool = bool|None (any object used for its truth value), str, node
KINDS = {
    "get_edge_names": dict(self="node", tip1name="str", tip2name="str", clade="obool", stem="obool", outgroup_name="ostr"),
    "_process_scope_info": dict(edge="ostr", tip_names="olist", edges="olist", clade="obool", stem="obool", outgroup_name="ostr"),
}
RET = {"get_edge_names": "list", "_process_scope_info": "olist"}
LEAN_T = dict(ostr="Option String", olist="Option (List String)", obool="Option Bool", str="String", node="T", list="List String")
LEAN_NAME = {"get_edge_names": "get_edge_names", "_process_scope_info": "process_scope_info"}


def _find_func(tree: ast.Module, cls: str | None, name: str) -> ast.FunctionDef:
    for node in ast.walk(tree):
        if isinstance(node, ast.ClassDef) and (cls is None or node.name == cls):
            for f in node.body:
                if isinstance(f, ast.FunctionDef) and f.name == name:
                    return f
    raise TranslationError(f"function {cls}.{name} not found")


def _src(n: ast.AST) -> str:
    try:
        return ast.unparse(n)
    except Exception:  # noqa: BLE001
        return type(n).__name__


class Fn:
    def __init__(self, fname: str, f: ast.FunctionDef, sigs: dict):
        self.fname = fname
        self.f = f
        self.sigs = sigs  # translated signatures of callable functions: name -> [argnames]
        self.kinds = dict(KINDS[fname])
        args = [a.arg for a in f.args.args]
        if f.args.vararg or f.args.kwarg or f.args.kwonlyargs:
            raise TranslationError(f"{fname}: *args / **kw / keyword-only arguments")
        self.args = [a for a in args if a != "self" or "self" in self.kinds]
        for a in self.args:
            if a not in self.kinds:
                raise TranslationError(f"{fname}: argument {a!r} has no declared kind")
        missing = [a for a in self.kinds if a not in args]
        if missing:
            raise TranslationError(f"{fname}: declared argument(s) {missing} no longer exist")
        # defaults (recorded, compared by the harness through behaviour; a non-constant default is refused)
        self.defaults = {}
        ds = f.args.defaults
        for a, d in zip(args[len(args) - len(ds):], ds):
            if not isinstance(d, ast.Constant):
                raise TranslationError(f"{fname}: default of {a} is not a constant")
            self.defaults[a] = d.value

    # ---- expressions
    def kind(self, name: str) -> str:
        if name not in self.kinds:
            raise TranslationError(f"{self.fname}: unknown name {name!r}")
        return self.kinds[name]

    def node(self, e: ast.AST) -> str:
        if isinstance(e, ast.Name) and self.kind(e.id) == "node":
            return e.id
        if isinstance(e, ast.Attribute) and isinstance(e.value, ast.Name) and e.value.id == "self" and e.attr == "tree" and "self" not in self.kinds:
            return "tree"
        raise TranslationError(f"{self.fname}: not a tree node: {_src(e)}")

    def as_str(self, e: ast.AST) -> str:
        if isinstance(e, ast.Name):
            k = self.kind(e.id)
            if k == "str":
                return e.id
            if k == "ostr":
                return f'({e.id}.getD "")'
        if isinstance(e, ast.Attribute) and e.attr == "name":
            return f"(ops.name {self.node(e.value)})"
        raise TranslationError(f"{self.fname}: not a string: {_src(e)}")

    def test(self, e: ast.AST) -> str:
        if isinstance(e, ast.BoolOp):
            op = " || " if isinstance(e.op, ast.Or) else " && "
            return "(" + op.join(self.test(v) for v in e.values) + ")"
        if isinstance(e, ast.UnaryOp) and isinstance(e.op, ast.Not):
            return f"(!{self.test(e.operand)})"
        if isinstance(e, ast.Constant) and isinstance(e.value, bool):
            return "true" if e.value else "false"
        if isinstance(e, ast.Name):
            k = self.kind(e.id)
            if k in ("olist", "ostr", "obool"):
                return f"truthy{dict(olist='L', ostr='S', obool='B')[k]} {e.id}"
            if k == "bool":
                return e.id
            raise TranslationError(f"{self.fname}: truth value of a {k}: {e.id}")
        if isinstance(e, ast.Compare) and len(e.ops) == 1:
            l, op, r = e.left, e.ops[0], e.comparators[0]
            if isinstance(op, (ast.Is, ast.IsNot)) and isinstance(l, ast.Name) and isinstance(r, ast.Constant) and r.value is None:
                if self.kind(l.id) not in ("olist", "ostr", "obool"):
                    raise TranslationError(f"{self.fname}: `is None` on a {self.kind(l.id)}")
                return f"{l.id}.isNone" if isinstance(op, ast.Is) else f"{l.id}.isSome"
            if (
                isinstance(op, (ast.Eq, ast.NotEq))
                and isinstance(l, ast.Call)
                and isinstance(l.func, ast.Name)
                and l.func.id == "len"
                and len(l.args) == 1
                and isinstance(l.args[0], ast.Name)
                and self.kind(l.args[0].id) == "olist"
                and isinstance(r, ast.Constant)
                and isinstance(r.value, int)
            ):
                return f"(lenO {l.args[0].id} {'==' if isinstance(op, ast.Eq) else '!='} {r.value})"
        if isinstance(e, ast.Call) and isinstance(e.func, ast.Attribute) and not e.args and not e.keywords:
            if e.func.attr == "isroot":
                return f"ops.isRoot {self.node(e.func.value)}"
            if e.func.attr in ("is_tip", "istip"):
                return f"ops.isTip {self.node(e.func.value)}"
        raise TranslationError(f"{self.fname}: unsupported test: {_src(e)}")

    def value(self, e: ast.AST, want: str | None) -> tuple[str, str]:
        """-> (lean, kind)"""
        if isinstance(e, ast.Constant) and e.value is None:
            if want in ("olist", "ostr", "obool"):
                return "none", want
            raise TranslationError(f"{self.fname}: None where a {want} is expected")
        if isinstance(e, ast.Constant) and isinstance(e.value, bool):
            b = "true" if e.value else "false"
            return (f"(some {b})", "obool") if want in (None, "obool") else (b, "bool")
        if isinstance(e, ast.UnaryOp) and isinstance(e.op, ast.Not):
            return f"(some (!{self.test(e.operand)}))", "obool"
        if isinstance(e, ast.List):
            items = ", ".join(self.as_str(x) for x in e.elts)
            return (f"(some [{items}])", "olist") if want == "olist" else (f"[{items}]", "list")
        if isinstance(e, ast.Name):
            return e.id, self.kind(e.id)
        if isinstance(e, ast.Attribute) and e.attr == "name":
            return self.as_str(e), "str"
        if isinstance(e, ast.Call) and isinstance(e.func, ast.Attribute) and e.func.attr == "unrooted_deepcopy" and not e.args and not e.keywords:
            return f"ops.unrootedDeepcopy {self.node(e.func.value)}", "node"
        raise TranslationError(f"{self.fname}: unsupported value: {_src(e)}")

    def raising_call(self, e: ast.AST):
        """-> (lean term, kind of the result, 'opt' | 'exc') or None"""
        if not (isinstance(e, ast.Call) and isinstance(e.func, ast.Attribute)):
            return None
        m = e.func.attr
        if m == "get_node_matching_name" and len(e.args) == 1 and not e.keywords:
            return f"ops.nodeMatching {self.node(e.func.value)} {self.as_str(e.args[0])}", "node", "opt"
        if m == "get_connecting_node" and len(e.args) == 2 and not e.keywords:
            return (
                f"ops.connectingNode {self.node(e.func.value)} {self.as_str(e.args[0])} {self.as_str(e.args[1])}",
                "node",
                "opt",
            )
        if m in self.sigs:
            names = [a for a in self.sigs[m] if a != "self"]
            got = {}
            for a, v in zip(names, e.args):
                got[a] = v
            for kw in e.keywords:
                if kw.arg is None or kw.arg in got or kw.arg not in names:
                    raise TranslationError(f"{self.fname}: bad keyword in call of {m}: {_src(e)}")
                got[kw.arg] = kw.value
            if set(got) != set(names):
                raise TranslationError(f"{self.fname}: call of {m} relies on defaults: {_src(e)}")
            parts = []
            for a in names:
                want = KINDS[m][a]
                lean, k = (self.as_str(got[a]), "str") if want == "str" else self.value(got[a], want)
                if k != want:
                    raise TranslationError(f"{self.fname}: argument {a} of {m}: {k} given, {want} expected")
                parts.append(lean)
            return f"{LEAN_NAME[m]} ops {self.node(e.func.value)} " + " ".join(parts), RET[m], "exc"
        return None

    # ---- statements
    def err(self, e: ast.AST) -> str:
        if not (isinstance(e, ast.Call) and isinstance(e.func, ast.Name) and e.func.id == "TreeError" and len(e.args) == 1):
            raise TranslationError(f"{self.fname}: unsupported raise: {_src(e)}")
        a = e.args[0]
        if isinstance(a, ast.Constant) and isinstance(a.value, str):
            text = a.value
        elif isinstance(a, ast.JoinedStr) and a.values and isinstance(a.values[0], ast.Constant):
            text = a.values[0].value
        else:
            raise TranslationError(f"{self.fname}: message of the raise is not literal text: {_src(e)}")
        for prefix, ctor in MESSAGES:
            if text.startswith(prefix):
                return ctor
        raise TranslationError(f"{self.fname}: unknown refusal message {text!r}")

    def block(self, stmts: list[ast.stmt], ind: int) -> str:
        pad = "  " * ind
        if not stmts:
            raise TranslationError(f"{self.fname}: a path falls off the end without return")
        s, rest = stmts[0], stmts[1:]
        if isinstance(s, ast.Expr) and isinstance(s.value, ast.Constant) and isinstance(s.value.value, str):
            return self.block(rest, ind)
        if isinstance(s, ast.Return):
            if s.value is None:
                raise TranslationError(f"{self.fname}: bare return")
            lean, k = self.value(s.value, RET[self.fname])
            if k != RET[self.fname]:
                raise TranslationError(f"{self.fname}: returns a {k}")
            return f"{pad}.ok {lean}"
        if isinstance(s, ast.Raise):
            return f"{pad}.error .{self.err(s.exc)}"
        if isinstance(s, ast.If):
            saved = dict(self.kinds)
            a = self.block(s.body + rest, ind + 1)
            self.kinds = dict(saved)
            b = self.block(s.orelse + rest, ind + 1)
            self.kinds = saved
            return f"{pad}if {self.test(s.test)} then\n{a}\n{pad}else\n{b}"
        if isinstance(s, ast.Assign) and len(s.targets) == 1:
            t = s.targets[0]
            if isinstance(t, ast.Tuple) and len(t.elts) == 2 and all(isinstance(x, ast.Name) for x in t.elts):
                if not (isinstance(s.value, ast.Name) and self.kind(s.value.id) == "olist"):
                    raise TranslationError(f"{self.fname}: unpacking of {_src(s.value)}")
                a, b = (x.id for x in t.elts)
                self.kinds[a] = self.kinds[b] = "str"
                body = self.block(rest, ind + 1)
                return f"{pad}match {s.value.id} with\n{pad}| some [{a}, {b}] =>\n{body}\n{pad}| _ => .error .prim"
            if not isinstance(t, ast.Name):
                raise TranslationError(f"{self.fname}: assignment target {_src(t)}")
            rc = self.raising_call(s.value)
            if rc is not None:
                lean, k, how = rc
                want = self.kinds.get(t.id)
                if how == "opt":
                    self.kinds[t.id] = k
                    body = self.block(rest, ind + 1)
                    return f"{pad}match {lean} with\n{pad}| none => .error .prim\n{pad}| some {t.id} =>\n{body}"
                if want == "olist" and k == "list":
                    bind, self.kinds[t.id] = f"let {t.id} : Option (List String) := some v", "olist"
                elif want in (None, k):
                    bind, self.kinds[t.id] = f"let {t.id} := v", k
                else:
                    raise TranslationError(f"{self.fname}: {t.id} is a {want}, assigned a {k}")
                body = self.block(rest, ind + 1)
                return f"{pad}match {lean} with\n{pad}| .error e => .error e\n{pad}| .ok v =>\n{pad}  {bind}\n{body}"
            if isinstance(s.value, ast.List) and not s.value.elts and t.id not in self.kinds:
                self.kinds[t.id] = "list"
                return f"{pad}let {t.id} : List String := []\n" + self.block(rest, ind)
            want = self.kinds.get(t.id)
            lean, k = self.value(s.value, want)
            if want is not None and k != want:
                raise TranslationError(f"{self.fname}: {t.id} is a {want}, assigned a {k}")
            self.kinds[t.id] = k
            return f"{pad}let {t.id} : {LEAN_T[k]} := {lean}\n" + self.block(rest, ind)
        if isinstance(s, ast.Expr) and isinstance(s.value, ast.Call) and isinstance(s.value.func, ast.Attribute):
            c = s.value
            if c.func.attr == "append" and isinstance(c.func.value, ast.Name) and self.kind(c.func.value.id) == "list" and len(c.args) == 1:
                acc = c.func.value.id
                return f"{pad}let {acc} : List String := {acc} ++ [{self.as_str(c.args[0])}]\n" + self.block(rest, ind)
        if isinstance(s, ast.For) and not s.orelse:
            return self.loop(s, ind) + self.block(rest, ind)
        raise TranslationError(f"{self.fname}: unsupported statement: {_src(s).splitlines()[0]}")

    def loop(self, s: ast.For, ind: int) -> str:
        pad = "  " * ind
        it = s.iter
        if not (isinstance(s.target, ast.Name) and isinstance(it, ast.Attribute) and it.attr == "children"):
            raise TranslationError(f"{self.fname}: unsupported loop header: for {_src(s.target)} in {_src(it)}")
        v, over = s.target.id, self.node(it.value)
        if len(s.body) != 2:
            raise TranslationError(f"{self.fname}: unsupported loop body ({len(s.body)} statements)")
        a, x = s.body
        ok = (
            isinstance(a, ast.Assign)
            and len(a.targets) == 1
            and isinstance(a.targets[0], ast.Name)
            and isinstance(a.value, ast.Call)
            and isinstance(a.value.func, ast.Attribute)
            and a.value.func.attr == "get_node_names"
            and isinstance(a.value.func.value, ast.Name)
            and a.value.func.value.id == v
            and not a.value.args
            and [(k.arg, getattr(k.value, "value", None)) for k in a.value.keywords] in ([("includeself", 1)], [("includeself", True)])
        )
        if not ok:
            raise TranslationError(f"{self.fname}: unsupported loop statement: {_src(a)}")
        w = a.targets[0].id
        ok = (
            isinstance(x, ast.Expr)
            and isinstance(x.value, ast.Call)
            and isinstance(x.value.func, ast.Attribute)
            and x.value.func.attr == "extend"
            and isinstance(x.value.func.value, ast.Name)
            and self.kinds.get(x.value.func.value.id) == "list"
            and len(x.value.args) == 1
            and isinstance(x.value.args[0], ast.Name)
            and x.value.args[0].id == w
        )
        if not ok:
            raise TranslationError(f"{self.fname}: unsupported loop statement: {_src(x)}")
        acc = x.value.func.value.id
        return (
            f"{pad}let {acc} : List String := (ops.children {over}).foldl (fun {acc} {v} =>\n"
            f"{pad}    let {w} := ops.nodeNames {v}\n{pad}    {acc} ++ {w}) {acc}\n"
        )

    def render(self) -> str:
        params = " ".join(f"({a} : {LEAN_T[self.kinds0[a]]})" for a in self.args)
        tree = "" if "self" in self.kinds0 else "(tree : T) "
        body = self.block(list(self.f.body), 1)
        return (
            f"def {LEAN_NAME[self.fname]} {{T : Type}} (ops : TreeOps T) {tree}{params} :\n"
            f"    Except Err ({LEAN_T[RET[self.fname]]}) :=\n{body}\n"
        )


def translate(tree_py: Path, pc_py: Path):
    problems, info = [], {}
    t1 = ast.parse(Path(tree_py).read_text())
    t2 = ast.parse(Path(pc_py).read_text())
    g = Fn("get_edge_names", _find_func(t1, "TreeNode", "get_edge_names"), {})
    g.kinds0 = dict(g.kinds)
    sigs = {"get_edge_names": g.args}
    p = Fn("_process_scope_info", _find_func(t2, "_LikelihoodParameterController", "_process_scope_info"), sigs)
    p.kinds0 = dict(p.kinds)
    parts = [g.render(), p.render()]
    info = dict(defaults=dict(get_edge_names=g.defaults, process_scope_info=p.defaults), args=dict(get_edge_names=g.args, process_scope_info=p.args))
    dflt = "\n".join(
        f"def default_{LEAN_NAME[fn.fname]}_{a} : {LEAN_T[fn.kinds0[a]]} := "
        + ("none" if v is None else f"some {str(v).lower()}" if isinstance(v, bool) else "none")
        for fn in (g, p)
        for a, v in fn.defaults.items()
        if fn.kinds0[a] == "obool"
    )
    for fn in (g, p):
        for a, v in fn.defaults.items():
            if not (v is None or isinstance(v, bool)):
                problems.append(f"{fn.fname}: default of {a} is {v!r} (only None/True/False are translated)")
    lean = (
        "import CogentModel.Model.ScopeModel\n"
        "/-! GENERATED by translator/c11_scope2lean.py from core/tree.py (`TreeNode.get_edge_names`) and\n"
        "evolve/parameter_controller.py (`_process_scope_info`) — do not edit; regenerated on every check. -/\n"
        "namespace CogentModel.C11Gen\nopen CogentModel.Scope\n\n" + "\n".join(parts) + "\n" + dflt + "\n\nend CogentModel.C11Gen\n"
    )
    return lean, info, problems


def write_if_changed(path: Path, text: str) -> bool:
    if path.exists() and path.read_text() == text:
        return False
    path.parent.mkdir(parents=True, exist_ok=True)
    path.write_text(text)
    return True


if __name__ == "__main__":
    import sys

    lean, info, problems = translate(Path(sys.argv[1]), Path(sys.argv[2]))
    print(lean)
    print(info, problems, file=sys.stderr)
