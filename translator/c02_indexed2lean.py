"""C02: Python -> Lean translator for the column-compression loop `_indexed` of cogent3/evolve/likelihood_tree.py.

Reads (stdlib ``ast`` only, nothing of cogent3 is imported or executed) the module-level function named in ``TARGETS`` and
emits ``lean/CogentModel/Gen/C02Indexed.lean``.  The output is a pure function of the source text.

Supported fragment ("accumulate over one pass through a list"; anything else is a *translation problem*, never skipped):
  * one positional parameter (the list of hashable keys);
  * before the loop, initialisations ``name = []`` (a list), ``name = {}`` (a dict key -> int),
    ``name = numpy.zeros([len(<param>)], int)`` (an int array of that many zeros);
  * exactly one ``for <counter>, <key> in enumerate(<param>):`` loop without ``else``, whose body consists of
      - ``if <key> in D: ... else: ...``           (D a dict; both branches required),
      - ``v = <nat>``                                (local int variable),
      - ``L[<nat>] += 1``                            (L an int list/array),
      - ``L.append(<key>)`` / ``L.append(<int literal>)`` (a list gets ONE element type: key or int),
      - ``D[<key>] = <nat>``,
      - ``A[<nat>] = <nat>``                         (A an int list/array);
    ``<nat>`` is an int literal >= 0, a local int variable, the loop counter, ``len(L)`` or ``D[<key>]`` — the latter only
    inside the true branch of ``if <key> in D`` (a KeyError is not modelled, so an unguarded read is refused);
  * ``return a, b, c`` (a tuple of state variables) as the last statement.
A docstring / comments are skipped.

Semantics of the emitted code (helpers in the hand-written, import-free prelude ``CogentModel/Model/PyAccum.lean``):
a dict is an association list with the newest binding first (``dictSet`` conses, ``dictGet``/``dictIn`` use the first
match), ``A[i] = v`` is ``List.set`` and ``L[i] += 1`` is ``Prune.bumpAt`` (an IndexError is not modelled: out of range
leaves the list unchanged — theorem ``gen_indexed_eq_model`` is about the returned values).
An if/else is translated by continuing the rest of the block in both branches.
"""
from __future__ import annotations

import ast
from pathlib import Path

TARGETS = [("_indexed", "indexedGen")]
KEYWORDS = {"end", "at", "from", "then", "else", "if", "fun", "let", "do", "in", "with", "match", "have", "show", "by",
            "where", "open", "def", "instance", "structure", "class", "namespace", "section", "variable", "theorem",
            "example", "import", "return", "for", "unless", "mut", "Type", "st", "rest"}


class TranslationError(Exception):
    pass


def lname(x: str) -> str:
    return x + "_" if x in KEYWORDS else x


class Fn:
    def __init__(self, fn: ast.FunctionDef):
        self.where = fn.name
        self.fn = fn
        self.state = {}      # name -> "list?" (element type unknown yet) | "natlist" | "keylist" | "dict"
        self.order = []
        self.locals = set()
        self.param = None
        self.counter = None
        self.key = None

    def bad(self, node, why):
        raise TranslationError(f"{self.where} line {getattr(node, 'lineno', '?')}: {why}: {ast.unparse(node)[:80]}")

    # -- expressions ------------------------------------------------------------------------------------------
    def is_key(self, e):
        return isinstance(e, ast.Name) and e.id == self.key

    def nat(self, e, guarded):
        if isinstance(e, ast.Constant) and isinstance(e.value, int) and not isinstance(e.value, bool) and e.value >= 0:
            return str(e.value)
        if isinstance(e, ast.Name):
            if e.id in self.locals or e.id == self.counter:
                return lname(e.id)
            self.bad(e, "name is not a local int variable or the loop counter")
        if (isinstance(e, ast.Call) and isinstance(e.func, ast.Name) and e.func.id == "len" and len(e.args) == 1 and not e.keywords
                and isinstance(e.args[0], ast.Name) and self.state.get(e.args[0].id) in ("list?", "natlist", "keylist")):
            return f"{lname(e.args[0].id)}.length"
        if isinstance(e, ast.Subscript) and isinstance(e.value, ast.Name) and self.state.get(e.value.id) == "dict" and self.is_key(e.slice):
            if e.value.id not in guarded:
                self.bad(e, "dict read outside `if key in dict` (a KeyError is not modelled)")
            return f"(dictGet {lname(e.value.id)} {lname(self.key)})"
        self.bad(e, "unsupported int expression")

    def set_list_type(self, node, name, ty):
        cur = self.state.get(name)
        if cur == "list?":
            self.state[name] = ty
        elif cur != ty:
            self.bad(node, f"list `{name}` used both as {cur} and as {ty}")

    # -- statements -------------------------------------------------------------------------------------------
    def block(self, stmts, ind, guarded, final):
        if not stmts:
            return f"{ind}{final}"
        st, rest = stmts[0], stmts[1:]
        if isinstance(st, ast.If):
            t = st.test
            if not (isinstance(t, ast.Compare) and len(t.ops) == 1 and isinstance(t.ops[0], ast.In) and self.is_key(t.left)
                    and isinstance(t.comparators[0], ast.Name) and self.state.get(t.comparators[0].id) == "dict"):
                self.bad(st, "condition must be `<key> in <dict>`")
            if not st.orelse:
                self.bad(st, "if without else")
            d = t.comparators[0].id
            saved = set(self.locals)
            a = self.block(list(st.body) + rest, ind + "  ", guarded | {d}, final)
            self.locals = set(saved)
            b = self.block(list(st.orelse) + rest, ind + "  ", guarded - {d}, final)
            self.locals = saved
            return f"{ind}if dictIn {lname(d)} {lname(self.key)} then\n{a}\n{ind}else\n{b}"
        if isinstance(st, ast.Assign) and len(st.targets) == 1:
            tg = st.targets[0]
            if isinstance(tg, ast.Name):
                if tg.id in self.state or tg.id in (self.counter, self.key, self.param):
                    self.bad(st, "re-binding of a state variable / loop variable inside the loop")
                v = self.nat(st.value, guarded)
                self.locals.add(tg.id)
                return f"{ind}let {lname(tg.id)} : Nat := {v}\n" + self.block(rest, ind, guarded, final)
            if isinstance(tg, ast.Subscript) and isinstance(tg.value, ast.Name):
                nm = tg.value.id
                if self.state.get(nm) == "dict" and self.is_key(tg.slice):
                    v = self.nat(st.value, guarded)
                    # after D[key] = v the key IS in D, but the translated reads stay guarded by the syntactic test only
                    return f"{ind}let {lname(nm)} := dictSet {lname(nm)} {lname(self.key)} {v}\n" + self.block(rest, ind, guarded, final)
                if self.state.get(nm) in ("list?", "natlist"):
                    self.set_list_type(st, nm, "natlist")
                    i, v = self.nat(tg.slice, guarded), self.nat(st.value, guarded)
                    return f"{ind}let {lname(nm)} := {lname(nm)}.set {i} {v}\n" + self.block(rest, ind, guarded, final)
            self.bad(st, "unsupported assignment")
        if (isinstance(st, ast.AugAssign) and isinstance(st.op, ast.Add) and isinstance(st.target, ast.Subscript)
                and isinstance(st.target.value, ast.Name) and self.state.get(st.target.value.id) in ("list?", "natlist")
                and isinstance(st.value, ast.Constant) and st.value.value == 1 and not isinstance(st.value.value, bool)):
            nm = st.target.value.id
            self.set_list_type(st, nm, "natlist")
            i = self.nat(st.target.slice, guarded)
            return f"{ind}let {lname(nm)} := CogentModel.Prune.bumpAt {lname(nm)} {i}\n" + self.block(rest, ind, guarded, final)
        if (isinstance(st, ast.Expr) and isinstance(st.value, ast.Call) and isinstance(st.value.func, ast.Attribute)
                and st.value.func.attr == "append" and isinstance(st.value.func.value, ast.Name)
                and len(st.value.args) == 1 and not st.value.keywords):
            nm = st.value.func.value.id
            if self.state.get(nm) not in ("list?", "natlist", "keylist"):
                self.bad(st, "append to something that is not a list")
            arg = st.value.args[0]
            if self.is_key(arg):
                self.set_list_type(st, nm, "keylist")
                return f"{ind}let {lname(nm)} := {lname(nm)} ++ [{lname(self.key)}]\n" + self.block(rest, ind, guarded, final)
            if isinstance(arg, ast.Constant) and isinstance(arg.value, int) and not isinstance(arg.value, bool) and arg.value >= 0:
                self.set_list_type(st, nm, "natlist")
                return f"{ind}let {lname(nm)} := {lname(nm)} ++ [{arg.value}]\n" + self.block(rest, ind, guarded, final)
            self.bad(st, "append of something that is neither the key nor an int literal")
        self.bad(st, "unsupported statement in the loop body")

    def init(self, st):
        """initialisation before the loop; returns the Lean initial value"""
        if not (isinstance(st, ast.Assign) and len(st.targets) == 1 and isinstance(st.targets[0], ast.Name)):
            self.bad(st, "unsupported statement before the loop")
        nm, v = st.targets[0].id, st.value
        if nm in self.state or nm == self.param:
            self.bad(st, "variable initialised twice")
        if isinstance(v, ast.List) and not v.elts:
            self.state[nm] = "list?"
            init = "[]"
        elif isinstance(v, ast.Dict) and not v.keys:
            self.state[nm] = "dict"
            init = "[]"
        elif (isinstance(v, ast.Call) and ast.unparse(v.func) == "numpy.zeros" and len(v.args) == 2 and not v.keywords
              and ast.unparse(v.args[0]) == f"[len({self.param})]" and ast.unparse(v.args[1]) == "int"):
            self.state[nm] = "natlist"
            init = f"List.replicate {lname(self.param)}.length 0"
        else:
            self.bad(st, "unsupported initial value")
        self.order.append(nm)
        return init

    def translate(self, lean_name):
        a = self.fn.args
        if a.vararg or a.kwarg or a.kwonlyargs or a.posonlyargs or a.defaults or len(a.args) != 1:
            self.bad(self.fn, "expected exactly one positional parameter")
        self.param = a.args[0].arg
        body = [s for s in self.fn.body if not (isinstance(s, ast.Expr) and isinstance(s.value, ast.Constant) and isinstance(s.value.value, str))]
        loops = [i for i, s in enumerate(body) if isinstance(s, ast.For)]
        if len(loops) != 1 or loops[0] != len(body) - 2:
            self.bad(self.fn, "expected initialisations, ONE for loop, then `return`")
        inits = [self.init(s) for s in body[: loops[0]]]
        loop, ret = body[loops[0]], body[-1]
        it = loop.iter
        if not (not loop.orelse and isinstance(loop.target, ast.Tuple) and len(loop.target.elts) == 2
                and all(isinstance(e, ast.Name) for e in loop.target.elts)
                and isinstance(it, ast.Call) and isinstance(it.func, ast.Name) and it.func.id == "enumerate" and len(it.args) == 1
                and not it.keywords and isinstance(it.args[0], ast.Name) and it.args[0].id == self.param):
            self.bad(loop, "expected `for <counter>, <key> in enumerate(<param>)`")
        self.counter, self.key = (e.id for e in loop.target.elts)
        if self.counter in self.state or self.key in self.state or self.counter == self.key:
            self.bad(loop, "loop variables clash with state variables")
        fields = " ".join(f"{lname(n)} := {lname(n)}," for n in self.order).rstrip(",")
        final = "{ " + fields + " }"
        code = self.block(list(loop.body), "  ", frozenset(), final)
        for n in self.order:
            if self.state[n] == "list?":
                self.bad(self.fn, f"element type of list `{n}` cannot be determined (never appended to)")
        if not (isinstance(ret, ast.Return) and isinstance(ret.value, ast.Tuple) and ret.value.elts
                and all(isinstance(e, ast.Name) and e.id in self.state for e in ret.value.elts)):
            self.bad(ret, "expected `return <state variable>, ...`")
        ty = {"natlist": "List Nat", "keylist": "List κ", "dict": "List (κ × Nat)"}
        rets = [e.id for e in ret.value.elts]
        unpack = "\n".join(f"  let {lname(n)} := st.{lname(n)}" for n in self.order)
        out = []
        out.append("/-- the variables the loop of `" + self.where + "` updates -/\nstructure St (κ : Type) where\n"
                   + "\n".join(f"  {lname(n)} : {ty[self.state[n]]}" for n in self.order) + "\n")
        out.append(f"/-- one pass through the loop body of `{self.where}`: `{lname(self.counter)}` = position, `{lname(self.key)}` = the key at it -/\n"
                   f"def body {{κ : Type}} [DecidableEq κ] (st : St κ) ({lname(self.counter)} : Nat) ({lname(self.key)} : κ) : St κ :=\n"
                   f"{unpack}\n{code}\n")
        out.append(f"/-- `for {self.counter}, {self.key} in enumerate({self.param})` from position `{lname(self.counter)}` on -/\n"
                   f"def loop {{κ : Type}} [DecidableEq κ] : List κ → Nat → St κ → St κ\n"
                   f"  | [], _, st => st\n"
                   f"  | {lname(self.key)} :: rest, {lname(self.counter)}, st => loop rest ({lname(self.counter)} + 1) (body st {lname(self.counter)} {lname(self.key)})\n")
        init_fields = ", ".join(f"{lname(n)} := {v}" for n, v in zip(self.order, inits))
        out.append(f"/-- `{self.where}({self.param})`: returns `({', '.join(rets)})` -/\n"
                   f"def {lean_name} {{κ : Type}} [DecidableEq κ] ({lname(self.param)} : List κ) : {' × '.join(ty[self.state[n]] for n in rets)} :=\n"
                   f"  let st := loop {lname(self.param)} 0 {{ {init_fields} }}\n"
                   f"  ({', '.join('st.' + lname(n) for n in rets)})\n")
        return "\n".join(out), dict(state={n: self.state[n] for n in self.order}, returns=rets, counter=self.counter, key=self.key)


def translate(likelihood_tree_py: Path):
    """returns (lean text or None, info dict, problems)"""
    tree = ast.parse(likelihood_tree_py.read_text())
    fns = {n.name: n for n in tree.body if isinstance(n, ast.FunctionDef)}
    out, problems, info = [], [], {}
    for name, lean_name in TARGETS:
        if name not in fns:
            problems.append(f"{name} not found")
            continue
        try:
            text, inf = Fn(fns[name]).translate(lean_name)
            out.append(text)
            info[name] = dict(inf, lean=lean_name)
        except TranslationError as e:
            problems.append(str(e))
    if problems:
        return None, info, problems
    text = ("/- GENERATED by translator/c02_indexed2lean.py from cogent3/evolve/likelihood_tree.py on every run -- do not edit. -/\n"
            "import CogentModel.Model.PyAccum\nnamespace CogentModel.Gen.C02Indexed\nopen CogentModel.PyAccum\n\n" + "\n".join(out)
            + "\nend CogentModel.Gen.C02Indexed\n")
    return text, info, problems


def write_if_changed(path: Path, text: str) -> bool:
    if path.exists() and path.read_text() == text:
        return False
    path.parent.mkdir(parents=True, exist_ok=True)
    path.write_text(text)
    return True


if __name__ == "__main__":
    import sys

    lean, info, problems = translate(Path(sys.argv[1] if len(sys.argv) > 1 else "/repo/src/cogent3/evolve/likelihood_tree.py"))
    print(lean if lean else problems)
